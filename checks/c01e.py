"""Fact-level (evidence) rules for the BPSEQ / dot-bracket encoders of common.py - shared by C01, C02, C12, C13, C16 (and C07).

The pinned-form rules of checks/c01.py, c02.py, c13.py, c16.py, c12.py read one idiom each (an availability table, a
`for/break` neighbour search, `entries[i].pair = 0` ...).  The rules here decide the same behaviour on whatever shape the
code has, by interpreting the *fragment* (sa/microeval.py: the ast is interpreted, nothing of the library is imported or
run) on one representative per class of a finite input partition, and comparing with the mathematical definition written
once below:

  fcfs-first-fit       BpSeq.fcfs on every order type of <= 3 arcs in every list order and of 4 arcs in 5' order:
                       the levels handed to the fill are first-fit over the earlier crossing stems, the regions are the
                       stems' (first 5' index, partner, length), the result is the fill's value
  fcfs-levels          a ladder of 30 mutually crossing stems gets the levels 0..29 (= size of the encoder's bracket table)
  conflict-graph-fact  the conflict graph an encoder works with (built in place, by a helper, or read from a property) has
                       an edge i-j in both directions iff stems i and j cross - same order types
  enumeration-fact     BpSeq.all_dot_brackets on every order type of <= 4 arcs: exactly the greedy-stable (Grundy)
                       assignments, each once; a pseudoknot-free structure yields [FCFS]
  stems-run-fact       BpSeq.__stems_entries on every pattern of (5' step == 1?, 3' step == -1?) of <= 4 consecutive
                       5'->3' entries: maximal stacked runs, from self.paired(only5to3=True)
  history-independent  every ordered pair of the encoder queries on ONE object answers as on a fresh copy (the classes of
                       a call history that matter to a cache: which query ran before)

A rule returns None when it could evaluate everything (verdicts are recorded) and a reason otherwise; the caller then
falls back to the pinned-form rules.  A fragment that *raises* or does not terminate on a tiny input is a verdict; a
construct outside the interpreted subset never is.
"""
from __future__ import annotations

import ast
import itertools
import re
from typing import Any, Callable, Dict, Iterable, List, Optional, Sequence, Set, Tuple

from sa import astq
from sa import lpmodel as lp
from sa.microeval import Instance, Interp, NotEvaluable, ProgramError, StepLimit, coverage_gaps
from sa.model import FuncInfo, norm

MOD, CLS = "common", "BpSeq"
Region = Tuple[int, int, int]


def K(fi: FuncInfo, what: str) -> str:
    return f"{fi.module.name}:{fi.qualname}:{what}"


# ---------------------------------------------------------------------------------------------------------------------
# the input partition: order types of n arcs (= perfect matchings of 2n points), embedded as stems


def matchings(n: int) -> List[Tuple[Tuple[int, int], ...]]:
    """All order types of n arcs over the points 0..2n-1, arcs sorted by their left end."""

    def rec(points: Tuple[int, ...]) -> Iterable[Tuple[Tuple[int, int], ...]]:
        if not points:
            yield ()
            return
        a = points[0]
        for k in range(1, len(points)):
            b = points[k]
            rest = points[1:k] + points[k + 1 :]
            for m in rec(rest):
                yield ((a, b),) + m

    return [tuple(sorted(m)) for m in rec(tuple(range(2 * n)))]


def coord(p: int, scale: int = 0) -> int:
    """Position of point p in the sequence: gaps of at least 4 so that stems of up to 3 pairs fit (scale 2: up to 9 pairs)."""
    if scale == 2:
        return 20 * (p + 1)
    return 10 * (p + 1) if scale == 0 else 10 * (p + 1) + (3 * p) % 7 + 100


def embed(arcs: Sequence[Tuple[int, int]], scale: int = 0, lengths: Optional[Sequence[int]] = None) -> List[Region]:
    out = []
    for i, (a, b) in enumerate(arcs):
        out.append((coord(a, scale), coord(b, scale), (lengths[i] if lengths else 1 + i % 3)))
    return out


def crosses(r: Sequence[int], s: Sequence[int]) -> bool:
    k, l, m, n = r[0], r[1], s[0], s[1]
    return k < m < l < n or m < k < n < l


def adjacency(regions: Sequence[Region]) -> Dict[int, Set[int]]:
    adj: Dict[int, Set[int]] = {}
    for i, j in itertools.combinations(range(len(regions)), 2):
        if crosses(regions[i], regions[j]):
            adj.setdefault(i, set()).add(j)
            adj.setdefault(j, set()).add(i)
    return adj


def first_fit(regions: Sequence[Region]) -> List[int]:
    levels: List[int] = []
    for i, r in enumerate(regions):
        taken = {levels[j] for j in range(i) if crosses(r, regions[j])}
        k = 0
        while k in taken:
            k += 1
        levels.append(k)
    return levels


def grundy(regions: Sequence[Region]) -> Set[Tuple[int, ...]]:
    """All level assignments obtained by first-fit over some order of every group of transitively crossing stems."""
    adj = adjacency(regions)
    seen: Set[int] = set()
    comps: List[List[int]] = []
    for v in sorted(adj):
        if v in seen:
            continue
        comp, todo = [], [v]
        seen.add(v)
        while todo:
            x = todo.pop()
            comp.append(x)
            for y in sorted(adj[x]):
                if y not in seen:
                    seen.add(y)
                    todo.append(y)
        comps.append(sorted(comp))
    per: List[Set[Tuple[Tuple[int, int], ...]]] = []
    for comp in comps:
        outs = set()
        for perm in itertools.permutations(comp):
            lv: Dict[int, int] = {}
            for v in perm:
                taken = {lv[u] for u in adj[v] if u in lv}
                k = 0
                while k in taken:
                    k += 1
                lv[v] = k
            outs.add(tuple(sorted(lv.items())))
        per.append(outs)
    res = set()
    for combo in itertools.product(*per):
        lv = [0] * len(regions)
        for part in combo:
            for v, k in part:
                lv[v] = k
        res.add(tuple(lv))
    return res


def show(regions: Sequence[Sequence[int]]) -> str:
    return "[" + ", ".join(f"({r[0]},{r[1]})" for r in regions) + "]"


def relation_text(regions: Sequence[Sequence[int]]) -> str:
    adj = adjacency([tuple(r) for r in regions])  # type: ignore[misc]
    pairs = sorted({(min(i, j), max(i, j)) for i in adj for j in adj[i]})
    return ", ".join(f"#{i}x#{j}" for i, j in pairs) or "no crossing"


# ---------------------------------------------------------------------------------------------------------------------
# stubs handed to the interpreted fragments


class E:
    """A BPSEQ entry (index_, sequence, pair); unpacks like the library's Entry."""

    __slots__ = ("index_", "sequence", "pair")
    __hash__ = None  # type: ignore[assignment]

    def __init__(self, index_: int, sequence: str, pair: int):
        self.index_, self.sequence, self.pair = index_, sequence, pair

    def __iter__(self):
        return iter((self.index_, self.sequence, self.pair))

    def __getitem__(self, k):
        return (self.index_, self.sequence, self.pair)[k]

    def __len__(self):
        return 3

    def __lt__(self, o):
        return self.index_ < o.index_

    def __eq__(self, o):
        return isinstance(o, E) and tuple(self) == tuple(o)

    def __repr__(self):
        return f"Entry({self.index_}, {self.sequence!r}, {self.pair})"


def entries_of(regions: Sequence[Region], letters: str = "ACGU", length: Optional[int] = None) -> List[E]:
    n = length if length is not None else max([max(r[0] + r[2] - 1, r[1]) for r in regions] + [3]) + 2
    ents = [E(i + 1, letters[i % len(letters)], 0) for i in range(n)]
    for s, e, length in regions:
        for t in range(length):
            ents[s + t - 1].pair = e - t
            ents[e - t - 1].pair = s + t
    return ents


def stems_of(regions: Sequence[Region], ents: Sequence[E]) -> List[List[E]]:
    return [[ents[s + t - 1] for t in range(length)] for s, e, length in regions]


REF_OPEN = "([{<ABCDEFGHIJKLMNOPQRSTUVWXYZ"
REF_CLOSE = ")]}>abcdefghijklmnopqrstuvwxyz"


def levels_from_structure(structure: str, regions: Sequence[Sequence[int]]) -> Optional[List[int]]:
    """The level of every stem read off a notation (the bracket type at its pairs); None if the text is not a notation of exactly these stems."""
    try:
        levels = []
        for s, e, n in regions:
            k = REF_OPEN.index(structure[s - 1])
            if any(structure[s - 1 + t] != REF_OPEN[k] or structure[e - 1 - t] != REF_CLOSE[k] for t in range(n)):
                return None
            levels.append(k)
        if render(len(structure), regions, levels) != structure:
            return None
        return levels
    except (ValueError, IndexError):
        return None


def render(length: int, regions: Sequence[Sequence[int]], levels: Sequence[int]) -> str:
    """The notation the (separately verified) fill writes for (regions, levels); IndexError beyond the 30 bracket types."""
    out = ["."] * length
    for (s, e, n), k in zip(regions, levels):
        o, c = REF_OPEN[k], REF_CLOSE[k]
        for t in range(n):
            out[s - 1 + t] = o
            out[e - 1 - t] = c
    return "".join(out)


class Token:
    """What the (separately verified) fill was asked to render: regions and the level of each region.  It carries the
    `sequence` / `structure` a DotBracket has, so code that re-wraps or compares notations keeps working."""

    _folder_stub = True

    def __init__(self, regions: Any, levels: Any, note: str = "", sequence: str = "", structure: Optional[str] = None):
        self.regions, self.levels, self.note = regions, levels, note
        self.sequence = sequence
        self.structure = structure if structure is not None else f"<{note}>"

    def _key(self):
        return (self.sequence, self.structure)

    def __eq__(self, o):
        return db_key(o) is not None and self._key() == db_key(o)

    def __hash__(self):
        return hash(self._key())

    def __str__(self):
        return f"{self.sequence}\n{self.structure}"

    def __repr__(self):
        return f"fill(levels={self.levels})"


def db_key(v: Any) -> Optional[Tuple[str, str]]:
    """(sequence, structure) of a notation value: a fill token or an interpreted DotBracket object."""
    if isinstance(v, Token):
        return v._key()
    if isinstance(v, Instance) and v._cls in ("DotBracket", "MultiStrandDotBracket") and "structure" in v._attrs:
        return (v._attrs.get("sequence"), v._attrs.get("structure"))
    return None


class Recorder:
    def __init__(self, sequence: str = ""):
        self.calls: List[Token] = []
        self.sequence = sequence
        self.by_structure: Dict[str, Token] = {}
        self.fcfs_token: Optional[Token] = None
        self.regions: Optional[List[Region]] = None  # the stems of the receiver: lets a notation that did not come through the recorder be read

    def is_fcfs(self, v: Any) -> bool:
        return self.fcfs_token is not None and db_key(v) == self.fcfs_token._key()

    def fill(self, regions, orders):
        try:
            regs = [tuple(r) for r in regions]
            if any(len(r) != 3 for r in regs):
                raise ValueError
        except Exception:
            tok = Token(None, None, "regions are not a list of triples", self.sequence)
            self.calls.append(tok)
            return tok
        note = ""
        try:
            levels = [orders[i] for i in range(len(regs))]
        except (KeyError, IndexError, TypeError) as ex:
            levels = None
            note = f"the level map has no entry for every region ({type(ex).__name__}: {ex})"
        structure = None
        if levels is not None:
            try:
                structure = render(len(self.sequence), regs, levels)
            except (IndexError, TypeError) as ex:
                note = f"levels {levels} cannot be rendered ({type(ex).__name__})"
        tok = Token(regs, levels, note, self.sequence, structure)
        self.calls.append(tok)
        if structure is not None:
            self.by_structure.setdefault(structure, tok)
        return tok

    def levels_of(self, v: Any) -> Optional[List[int]]:
        """Levels behind a notation value produced (directly or re-wrapped) from one of the recorded fills."""
        if isinstance(v, Token) and v.levels is not None:
            return list(v.levels)
        k = db_key(v)
        if k is not None and k[1] in self.by_structure:
            return list(self.by_structure[k[1]].levels)
        if k is not None and self.regions is not None and isinstance(k[1], str):
            return levels_from_structure(k[1], self.regions)
        return None




def bpseq(it: Interp, ents: Sequence[Any], over: Optional[Dict[str, Any]] = None, extra: Optional[Dict[str, Any]] = None) -> Instance:
    """A BpSeq stand-in made the way the class makes its objects: the entries, then the class's own __post_init__ (interpreted),
    so that whatever state the initialiser sets up (pairs, hand-written caches ...) is there."""
    inst = it.instance(CLS, attrs={"entries": ents, **(extra or {})}, over=over)
    if it._find_member(MOD, CLS, "__post_init__") is not None:
        try:
            it.call_member(inst, "__post_init__")
        except (ProgramError, StepLimit) as ex:
            raise NotEvaluable(f"BpSeq.__post_init__ does not accept the stand-in object: {ex}")
    return inst


class SkipCase(NotEvaluable):
    """This input cannot be presented to the current code consistently (see receiver)."""


PRIVATE_STANDINS = ("__regions", "__stems_entries", "__make_dot_bracket")


def receiver(it: Interp, regions: Sequence[Region], rec: Recorder, **over: Any) -> Instance:
    """A BpSeq whose entries, pairs, stems and regions all describe `regions`.  Stems / regions / the fill are handed in as
    stand-ins for the private members of those names (stage isolation: each has its own rule).  Where the code has no member
    of such a name (renamed, merged) no stand-in is used and the object computes these itself from its entries; stem lists
    that a real object cannot have (not in 5' order) are then skipped."""
    ents = entries_of(regions)
    pairs = {}
    for e in ents:
        if e.pair:
            pairs[e.index_] = e.pair
    rec.sequence = "".join(e.sequence for e in ents)
    rec.regions = [tuple(r) for r in regions]
    ov: Dict[str, Any] = {
        "__regions": [tuple(r) for r in regions],
        "__stems_entries": stems_of(regions, ents),
        "__make_dot_bracket": rec.fill,
        "sequence": rec.sequence,
    }
    natural = False
    for name in PRIVATE_STANDINS:
        if it._find_member(MOD, CLS, name) is None:
            del ov[name]
            natural = True
    if natural and [tuple(r) for r in regions] != stems_ref([(s + t, e - t) for s, e, n in regions for t in range(n)]):
        raise SkipCase()
    if over.pop("fcfs", False):
        lv = first_fit(regions)
        rec.fcfs_token = Token([tuple(r) for r in regions], lv, "the FCFS notation", rec.sequence, render(len(rec.sequence), regions, lv))
        rec.by_structure.setdefault(rec.fcfs_token.structure, rec.fcfs_token)
        ov["fcfs"] = rec.fcfs_token
    ov.update(over)
    return bpseq(it, ents, ov)


_LOOPS = [0]


def attempt(thunk: Callable[[], Any]) -> Tuple[str, Any]:
    """('value', v) | ('raise', ProgramError) | ('loop', StepLimit); NotEvaluable propagates.  A fragment that ran into the
    step limit twice is not interpreted again in this run (every further case would spend the whole budget as well)."""
    if _LOOPS[0] >= 2:
        return "loop", StepLimit("not interpreted again: the fragment already exceeded the step budget on smaller inputs")
    try:
        return "value", thunk()
    except ProgramError as pe:
        return "raise", pe
    except StepLimit as sl:
        _LOOPS[0] += 1
        return "loop", sl


def site_of(fi: FuncInfo, lineno: Optional[int]) -> str:
    return f"{fi.module.relpath}:{lineno} {fi.qualname}" if lineno else fi.where


def _n_exits(fn: ast.AST) -> int:
    return sum(1 for loop in ast.walk(fn) if isinstance(loop, (ast.For, ast.While)) for b in loop.body for n in ast.walk(b) if isinstance(n, (ast.Break, ast.Return)))


def early_exits(fn: ast.AST, repo=None, qualname: Optional[str] = None) -> str:
    """Hint for messages: break/return statements that sit inside a loop of the function - only when the function has more of
    them than its copy in spec/reference (the hint is a pointer for the reader, never a verdict)."""
    if repo is not None and qualname is not None:
        ref = getattr(repo, "reference", {}).get(MOD)
        if ref is not None and qualname in ref.funcs and _n_exits(ref.funcs[qualname].node) >= _n_exits(fn):
            return ""
    out = []
    for loop in ast.walk(fn):
        if isinstance(loop, (ast.For, ast.While)):
            for b in loop.body:
                for n in ast.walk(b):
                    if isinstance(n, (ast.Break, ast.Return)) and (n.lineno, type(n).__name__.lower()) not in out:
                        out.append((n.lineno, type(n).__name__.lower()))
    out.sort()
    return ("; the function leaves a loop early: " + ", ".join(f"`{k}` at line {ln}" for ln, k in out[:3])) if out else ""


def partial_matchings(n: int) -> List[List[Tuple[int, int]]]:
    """All sets of disjoint pairs (i < j) over the positions 1..n."""

    def rec(points: Tuple[int, ...]) -> Iterable[List[Tuple[int, int]]]:
        if not points:
            yield []
            return
        a, rest = points[0], points[1:]
        yield from rec(rest)  # a unpaired
        for k, b in enumerate(rest):
            for m in rec(rest[:k] + rest[k + 1 :]):
                yield [(a, b)] + m

    return [sorted(m) for m in rec(tuple(range(1, n + 1)))]


def stems_ref(pairs: Sequence[Tuple[int, int]]) -> List[Region]:
    out: List[List[int]] = []
    for i, j in sorted(pairs):
        if out and out[-1][0] + out[-1][2] == i and out[-1][1] - out[-1][2] == j:
            out[-1][2] += 1
        else:
            out.append([i, j, 1])
    return [tuple(r) for r in out]  # type: ignore[misc]


def dense_structures(max_n: int = 6) -> List[Tuple[int, List[Tuple[int, int]], List[Region]]]:
    """Small real structures with contiguous numbering (neighbouring residues may pair): (length, pairs, stems)."""
    out = []
    for n in range(2, max_n + 1):
        for pm in partial_matchings(n):
            if pm and (n == 2 or any(n in p for p in pm) or len(pm) * 2 >= n - 1):
                out.append((n, pm, stems_ref(pm)))
    return out


def reached_all(repo, cov: set, anchors: Sequence[FuncInfo], upto: Optional[Dict[str, int]] = None) -> Optional[str]:
    """None when the evaluated input classes reached every part of the anchor functions (and of every helper of the class
    that does not exist in the reference copy and was entered); otherwise what was not reached.  Without that, 'holds on
    every class' says nothing about the unreached part (a size cap, a special case for long inputs ...)."""
    ref = getattr(repo, "reference", {}).get(MOD)
    targets = list(anchors)
    for q, f in repo.module(MOD).funcs.items():
        if "<locals>" in q or f in targets:
            continue
        if id(f.node) in cov and ref is not None and q not in ref.funcs:
            targets.append(f)
    for f in targets:
        node = f.node
        if upto and f.qualname in upto:
            import copy as _copy

            node = _copy.copy(f.node)
            node.body = f.node.body[: upto[f.qualname]]
        gaps = coverage_gaps(cov, node)
        if gaps:
            return f"the input classes do not reach all of {f.qualname}: " + "; ".join(gaps)
    return None


# ---------------------------------------------------------------------------------------------------------------------
# cases


def arc_cases(max_perm: int = 3, max_sorted: int = 4) -> List[List[Region]]:
    """Stem lists: every order type of <= max_sorted arcs in 5' order (what a valid BPSEQ gives) first, then every order
    type of <= max_perm arcs in every other list order, then a second embedding of the small order types."""
    out: List[List[Region]] = [embed(m) for n in range(0, max_sorted + 1) for m in matchings(n)]
    seen = {tuple(r) for r in out}
    for n in range(2, max_perm + 1):
        for m in matchings(n):
            base = embed(m)
            for p in itertools.permutations(range(n)):
                regs = [base[i] for i in p]
                if tuple(regs) not in seen:
                    seen.add(tuple(regs))
                    out.append(regs)
    # a comparison-only fragment cannot tell two embeddings of one order type apart
    for n in (2, 3):
        for m in matchings(n):
            out.append(embed(m, scale=1))
    # small real structures with contiguous numbering (pairs between neighbouring residues, stems touching each other)
    for _, _, stems in dense_structures(6):
        if tuple(stems) not in seen:
            seen.add(tuple(stems))
            out.append(list(stems))
    return out


def sorted_cases(max_n: int = 4) -> List[List[Region]]:
    return [embed(m) for n in range(0, max_n + 1) for m in matchings(n)]


# ---------------------------------------------------------------------------------------------------------------------
# FCFS


def fcfs_fact(chk, n_levels: int = 30) -> Optional[str]:
    repo = chk.repo
    fi = repo.func(MOD, f"{CLS}.fcfs")
    chk.note_function(fi)
    it = Interp(repo, MOD)
    problems: Dict[str, Tuple[str, str, Any, Any]] = {}
    n_cases = 0
    try:
        for regs in arc_cases():
            rec = Recorder()
            try:
                recv = receiver(it, regs, rec)
            except SkipCase:
                continue
            n_cases += 1
            kind, val = attempt(lambda: it.call_member(recv, "fcfs"))
            want = first_fit(regs)
            if kind == "raise":
                problems.setdefault("raise", (site_of(fi, val.lineno), f"BpSeq.fcfs raises {val} for the stems {show(regs)} ({relation_text(regs)})", want, None))
                continue
            if kind == "loop":
                problems.setdefault("loop", (fi.where, f"BpSeq.fcfs does not finish on the {len(regs)} stems {show(regs)}: {val}", want, None))
                continue
            if db_key(val) is None or (rec.calls and db_key(val) != db_key(rec.calls[-1])):
                problems.setdefault("result", (fi.where, f"BpSeq.fcfs does not return the notation rendered by the fill from its (regions, levels) for the stems {show(regs)}", "self.__make_dot_bracket(regions, orders)", repr(val)[:80]))
                continue
            if rec.calls and rec.calls[-1].regions != [tuple(r) for r in regs]:
                tok = rec.calls[-1]
                problems.setdefault("regions", (fi.where, f"the regions handed to the fill are {tok.regions}, not (first 5' index, its partner, length) of every stem {[tuple(r) for r in regs]}", [tuple(r) for r in regs], tok.regions))
                continue
            tok = Token([tuple(r) for r in regs], rec.levels_of(val), "" if rec.levels_of(val) is not None else f"the returned notation `{db_key(val)[1]}` is not a notation of these stems")
            if tok.levels != want:
                bad = next((i for i in range(len(regs)) if tok.levels is None or tok.levels[i] != want[i]), 0)
                why = ""
                if tok.levels is not None:
                    clash = [j for j in range(len(regs)) if j != bad and crosses(regs[bad], regs[j]) and tok.levels[j] == tok.levels[bad]]
                    why = f": stem #{bad} shares level {tok.levels[bad]} with the crossing stem #{clash[0]}" if clash else f": stem #{bad} is put on level {tok.levels[bad]} although level {want[bad]} is free"
                problems.setdefault("levels", (fi.where, f"BpSeq.fcfs is not first-fit for the stems {show(regs)} ({relation_text(regs)}){why}{early_exits(fi.node, repo, fi.qualname)}", want, tok.levels or tok.note))
    except NotEvaluable as ex:
        return str(ex)
    if not problems:
        gap = reached_all(repo, it.cov, [fi])
        if gap:
            return gap
    for key, (site, msg, want, got) in problems.items():
        chk.violation("region-triple" if key == "regions" else "fcfs-first-fit", site, msg, K(fi, f"fcfs-{key}"), expected=want, found=got)
    if not problems:
        chk.ok("fcfs-first-fit", fi.where, f"evaluated on {n_cases} stem lists (every order type of <= 3 arcs in every list order, of 4 arcs in 5' order): levels are first-fit over the earlier crossing stems, regions describe the stems, the fill's value is returned")
    if "regions" not in problems:
        chk.ok("region-triple", fi.where, "the regions handed to the fill are (first 5' index, partner, length) of every stem (evaluated)")
    # number of levels offered = size of the bracket table
    try:
        ladder = [(10 * (i + 1), 10 * (i + 1) + 1000, 1) for i in range(n_levels)]
        rec = Recorder()
        recv = receiver(it, ladder, rec)
        kind, val = attempt(lambda: it.call_member(recv, "fcfs"))
        if kind == "value" and rec.levels_of(val) == list(range(n_levels)):
            chk.ok("fcfs-levels", fi.where, f"{n_levels} mutually crossing stems get the levels 0..{n_levels - 1}: FCFS offers every level of the encoder's bracket table")
        elif "levels" not in problems and "raise" not in problems:
            got = str(val) if kind != "value" else rec.levels_of(val)
            chk.violation("fcfs-levels", site_of(fi, getattr(val, "lineno", None)) if kind == "raise" else fi.where, f"{n_levels} mutually crossing stems do not get the levels 0..{n_levels - 1} ({'raises ' + str(val) if kind != 'value' else 'wrong levels'}): FCFS does not offer every level of the {n_levels}-entry bracket table", K(fi, "fcfs-levels"), expected=f"0..{n_levels - 1}", found=got)
    except NotEvaluable as ex:
        return str(ex)
    return None


# ---------------------------------------------------------------------------------------------------------------------
# conflict graph


def _insertions(node: ast.AST) -> List[Tuple[ast.Call, str]]:
    """`G[a].add(b)` / `G.setdefault(a, set()).add(b)` / `G[a].update(..)`: (call, G)"""
    out = []
    for c in ast.walk(node):
        if isinstance(c, ast.Call) and isinstance(c.func, ast.Attribute) and c.func.attr in ("add", "update"):
            base = c.func.value
            if isinstance(base, ast.Subscript) and isinstance(base.value, ast.Name):
                out.append((c, base.value.id))
            elif isinstance(base, ast.Call) and isinstance(base.func, ast.Attribute) and base.func.attr == "setdefault" and isinstance(base.func.value, ast.Name):
                out.append((c, base.func.value.id))
    return out


def graph_builders(repo) -> Set[str]:
    """Members of BpSeq (other than the encoders and `elements`) that insert edges into a mapping of sets."""
    out = set()
    for q, f in repo.module(MOD).funcs.items():
        if q.startswith(CLS + ".") and q.count(".") == 1 and q.split(".")[1] not in ("convert_to_dot_bracket", "all_dot_brackets", "elements", "graphviz", "fcfs"):
            names = {g for _, g in _insertions(f.node)}
            rets = [r for r in astq.walk_no_nested(f.node) if isinstance(r, ast.Return)]
            if names and rets and all(isinstance(r.value, ast.Name) and r.value.id in names for r in rets):
                out.add(q.split(".")[1])
    return out


def graph_host(repo, fi: FuncInfo, depth: int = 2) -> FuncInfo:
    """The function that holds (or obtains) the conflict graph: `fi` itself, or - when its body was moved into a member of
    the class that fi calls - that member."""
    if depth == 0:
        return fi
    builders = graph_builders(repo)
    if _insertions(fi.node) or any(isinstance(n, ast.Attribute) and n.attr in builders and isinstance(n.value, ast.Name) and n.value.id in ("self", CLS, "cls") for n in ast.walk(fi.node)):
        return fi
    funcs = repo.module(MOD).funcs
    for c in ast.walk(fi.node):
        if isinstance(c, ast.Call) and isinstance(c.func, ast.Attribute) and isinstance(c.func.value, ast.Name) and c.func.value.id in ("self", CLS, "cls"):
            q = f"{CLS}.{c.func.attr}"
            if q in funcs and funcs[q] is not fi:
                h = graph_host(repo, funcs[q], depth - 1)
                if _insertions(h.node) or h is not funcs[q]:
                    return h
    return fi


def _top_index(fn: ast.FunctionDef, node: ast.AST) -> Optional[int]:
    for i, st in enumerate(fn.body):
        if any(n is node for n in ast.walk(st)):
            return i
    return None


def graph_value(it: Interp, fi: FuncInfo, recv: Instance, no_solver: bool = False) -> Tuple[Any, str, int]:
    """Interpret the part of `fi` that ends with the conflict graph being complete; (graph object, how it is obtained)."""
    fn = fi.node
    builders = graph_builders(it.repo)
    own = [(c, g) for c, g in _insertions(fn) if _top_index(fn, c) is not None]
    refs = [n for n in ast.walk(fn) if isinstance(n, ast.Attribute) and n.attr in builders and isinstance(n.value, ast.Name) and n.value.id in ("self", CLS, "cls")]
    # only the first graph of the function counts (BpSeq has one conflict graph per encoder)
    cand: List[Tuple[int, str, Any]] = []
    for c, g in own:
        cand.append((_top_index(fn, c), "own", g))
    for r in refs:
        k = _top_index(fn, r)
        if k is not None:
            cand.append((k, "ref", r))
    if not cand:
        raise NotEvaluable("no construction of a conflict graph found (no `G[i].add(j)` insertion, no call of a graph-building member)")
    first_kind = min(cand, key=lambda x: x[0])
    if first_kind[1] == "own":
        g = first_kind[2]
        last = max(k for k, kind, x in cand if kind == "own" and x == g)
        how = f"built in place (`{re.sub(r'_[0-9]+$', '', g)}`" + (", helper inlined)" if re.search(r"_[0-9]+$", g) else ")")
    else:
        last = first_kind[0]
        g = None
        how = f"obtained from `{norm(first_kind[2])}`"
    env: Dict[str, Any] = {"self": recv}
    for a in fn.args.args[1:]:
        env[a.arg] = None if no_solver else lp.Solver(lp.World(), "STUB")
    kind, val, loc = it.run_block(fn.body[: last + 1], env, CLS)
    if no_solver:
        return None, how, last + 1
    if kind == "return":
        raise NotEvaluable("the function returns before its conflict graph is complete on a knotted input")
    if g is not None:
        if g not in loc:
            raise NotEvaluable(f"`{g}` is not bound after the construction")
        return loc[g], how, last + 1
    st = fn.body[last]
    if isinstance(st, (ast.Assign, ast.AnnAssign)):
        tgt = st.targets[0] if isinstance(st, ast.Assign) else st.target
        if isinstance(tgt, ast.Name) and tgt.id in loc:
            return loc[tgt.id], how, last + 1
    raise NotEvaluable(f"the statement `{norm(st)[:60]}` that obtains the conflict graph does not bind it to a name")


def graph_fact(chk, fi: FuncInfo) -> Optional[str]:
    repo = chk.repo
    chk.note_function(fi)
    it = Interp(repo, MOD, {"pulp": lp.Pulp(lp.World())})
    host = graph_host(repo, fi)
    if host is not fi:
        chk.note_function(host)
    fi = host
    n_cases = 0
    how = ""
    upto = 0
    problem = None
    try:
        for regs in arc_cases():
            if not adjacency(regs) and len(regs) > 2:
                continue
            rec = Recorder()
            try:
                recv = receiver(it, regs, rec, fcfs=True)
            except SkipCase:
                continue
            n_cases += 1
            kind, val = attempt(lambda: graph_value(it, fi, recv))
            want = adjacency(regs)
            if kind != "value":
                problem = problem or (site_of(fi, getattr(val, "lineno", None)), f"building the conflict graph {'raises ' + str(val) if kind == 'raise' else 'does not finish'} for the stems {show(regs)} ({relation_text(regs)})", want, None)
                continue
            g, how, upto = val
            try:
                got = {k: set(v) for k, v in dict(g).items() if len(v)}
            except Exception:
                return f"the conflict graph is not a mapping of sets ({type(g).__name__})"
            if got != want and problem is None:
                miss = sorted((i, j) for i in want for j in want[i] if j not in got.get(i, ()))
                extra = sorted((i, j) for i in got for j in got[i] if j not in want.get(i, ()))
                what = []
                if miss:
                    i, j = miss[0]
                    what.append(f"stems #{i} and #{j} cross but #{j} is not recorded as a neighbour of #{i}" + (" (the edge is stored in one direction only)" if i in got.get(j, ()) else ""))
                if extra:
                    i, j = extra[0]
                    what.append(f"#{j} is recorded as a neighbour of #{i} although the stems do not cross")
                problem = (fi.where, f"the conflict graph ({how}) is not the crossing relation for the stems {show(regs)}: " + "; ".join(what), {k: sorted(v) for k, v in want.items()}, {k: sorted(v) for k, v in got.items()})
    except NotEvaluable as ex:
        return str(ex)
    if not problem:
        try:  # the way out for a missing solver lies before the graph: reach it once (its verdict is C13's)
            rec = Recorder()
            graph_value(it, fi, receiver(it, KNOTTED, rec, fcfs=True), no_solver=True)
        except (NotEvaluable, ProgramError, StepLimit):
            pass
        gap = reached_all(repo, it.cov, [fi], {fi.qualname: upto})
        if gap:
            return gap
    if problem:
        chk.violation("conflict-graph-fact", problem[0], problem[1], K(fi, "graph-edges"), expected=problem[2], found=problem[3])
    else:
        chk.ok("conflict-graph-fact", fi.where, f"the conflict graph ({how}) evaluated on {n_cases} stem lists (order types of <= 4 arcs): i and j are neighbours of each other iff stems i and j cross")
    return None


# ---------------------------------------------------------------------------------------------------------------------
# enumeration (all_dot_brackets)


def _group_sizes(regions: Sequence[Region]) -> List[int]:
    adj = adjacency(regions)
    seen: Set[int] = set()
    sizes = []
    for v in sorted(adj):
        if v in seen:
            continue
        todo, k = [v], 0
        seen.add(v)
        while todo:
            x = todo.pop()
            k += 1
            for y in adj[x]:
                if y not in seen:
                    seen.add(y)
                    todo.append(y)
        sizes.append(k)
    return sorted(sizes)


def enumeration_fact(chk) -> Optional[str]:
    repo = chk.repo
    fi = repo.func(MOD, f"{CLS}.all_dot_brackets")
    chk.note_function(fi)
    it = Interp(repo, MOD)
    problems: Dict[str, Tuple[str, str, Any, Any]] = {}
    failing_case: Optional[List[Region]] = None
    n_cases = n_knotted = 0
    cases = sorted_cases(4) + [[embed(m)[i] for i in p] for m in matchings(3) for p in ((2, 1, 0), (1, 2, 0))]
    # five stems in two independent groups of 3 and 2: the smallest inputs in which the stems of one group are not contiguous
    # among the vertices of the conflict graph (a group nested in / interleaved with another one)
    cases += [embed(m) for m in matchings(5) if _group_sizes(embed(m)) == [2, 3]]
    try:
        for regs in cases:
            rec = Recorder()
            try:
                recv = receiver(it, regs, rec, fcfs=True)
            except SkipCase:
                continue
            n_cases += 1
            if problems and failing_case is None:
                failing_case = prev_case
            prev_case = regs
            kind, val = attempt(lambda: it.call_member(recv, "all_dot_brackets"))
            rel = relation_text(regs)
            if kind == "raise":
                problems.setdefault("raise", (site_of(fi, val.lineno), f"BpSeq.all_dot_brackets raises {val} for the stems {show(regs)} ({rel})", None, None))
                continue
            if kind == "loop":
                problems.setdefault("loop", (fi.where, f"BpSeq.all_dot_brackets does not finish on the {len(regs)} stems {show(regs)} ({rel}): the graph walk or a level search never ends", None, None))
                continue
            adj = adjacency(regs)
            if not isinstance(val, (list, tuple)):
                problems.setdefault("type", (fi.where, f"BpSeq.all_dot_brackets returns {type(val).__name__}, not a list", "list", type(val).__name__))
                continue
            if not adj:
                if not (len(val) == 1 and rec.is_fcfs(val[0])):
                    lv0 = rec.levels_of(val[0]) if len(val) == 1 else None
                    flat = lv0 is not None and not any(lv0)
                    if not flat:
                        problems.setdefault("early", (fi.where, f"for the pseudoknot-free stems {show(regs)} the list is {list(val)!r}, not the single FCFS (round-bracket) notation", "[self.fcfs]", repr(list(val))[:120]))
                continue
            n_knotted += 1
            want = grundy(regs)
            toks = list(val)
            broken = [t for t in toks if isinstance(t, Token) and (t.levels is None or t.regions != [tuple(r) for r in regs])]
            if broken:
                t = broken[0]
                problems.setdefault("default", (fi.where, f"for the stems {show(regs)} ({rel}) the fill is called with " + (t.note if t.levels is None else f"the regions {t.regions}"), None, None))
                continue
            foreign = [t for t in toks if rec.levels_of(t) is None]
            if foreign:
                problems.setdefault("member", (fi.where, f"for the stems {show(regs)} ({rel}) a member of the list is not a notation rendered by the fill: {foreign[0]!r}", None, None))
                continue
            got = [tuple(rec.levels_of(t)) for t in toks]
            improper = [(lv, i, j) for lv in got for i in adj for j in adj[i] if i < j and lv[i] == lv[j]]
            if improper:
                lv, i, j = improper[0]
                problems.setdefault("improper", (fi.where, f"for the stems {show(regs)} ({rel}) the list contains the assignment {list(lv)} in which the crossing stems #{i} and #{j} share level {lv[i]} (a group of transitively crossing stems was split or a crossing was not seen){early_exits(fi.node, repo, fi.qualname)}", sorted(map(list, want)), sorted(map(list, set(got)))))
                continue
            unstable = [lv for lv in got if lv not in want]
            if unstable:
                problems.setdefault("unstable", (fi.where, f"for the stems {show(regs)} ({rel}) the list contains {list(unstable[0])}, which is not greedy-stable (some stem could move to a lower free level, or a stem outside every crossing is not on level 0)", sorted(map(list, want)), sorted(map(list, set(got)))))
                continue
            missing = sorted(want - set(got))
            if missing:
                problems.setdefault("missing", (fi.where, f"for the stems {show(regs)} ({rel}) the greedy-stable assignment {list(missing[0])} is missing from the list ({len(set(got))} of {len(want)} found): not every order / combination is enumerated{early_exits(fi.node, repo, fi.qualname)}", sorted(map(list, want)), sorted(map(list, set(got)))))
                continue
            if len(got) != len(set(got)):
                dup = next(lv for lv in got if got.count(lv) > 1)
                problems.setdefault("repeat", (fi.where, f"for the stems {show(regs)} ({rel}) the notation with levels {list(dup)} occurs {got.count(dup)} times in the list: equal assignments reached through different orders are not merged", len(want), len(got)))
        if problems and failing_case is None:
            failing_case = prev_case
    except NotEvaluable as ex:
        return str(ex)
    if not problems:
        gap = reached_all(repo, it.cov, [fi])
        if gap:
            return gap
    hint = _structural_hint(chk, fi) if problems else ""
    if problems and failing_case is not None:
        try:  # does the same input come out right in a process of its own?
            it2 = Interp(repo, MOD)
            rec2 = Recorder()
            k2, v2 = attempt(lambda: it2.call_member(receiver(it2, failing_case, rec2, fcfs=True), "all_dot_brackets"))
            lv2 = sorted(tuple(rec2.levels_of(t) or ()) for t in v2) if k2 == "value" and isinstance(v2, (list, tuple)) else None
            if lv2 is not None and adjacency(failing_case) and lv2 == sorted(grundy(failing_case)):
                kept = sorted(nm for (mod, nm), val in it._consts.items() if mod == MOD and isinstance(val, (dict, list, set)) and len(val))
                hint = f" - in a process of its own the same stems come out right: the answer depends on the structures enumerated earlier in the same process" + (f" (module-level state kept between calls: {', '.join('`' + k + '`' for k in kept)}; what identifies an entry there does not determine what is stored under it)" if kept else "") + hint
        except (NotEvaluable, SkipCase):
            pass
    for key, (site, msg, want, got) in problems.items():
        chk.violation("enumeration-fact", site, msg + hint, K(fi, f"enumeration-{key}"), expected=want, found=got)
    if not problems:
        chk.ok("enumeration-fact", fi.where, f"evaluated on {n_cases} stem lists (every order type of <= 4 arcs and of 5 arcs in two groups of 3 + 2, {n_knotted} knotted; all in one process, so module-level state persists from case to case): the list is exactly the set of greedy-stable assignments, each once, rendered by the fill; pseudoknot-free -> [FCFS]")
    return None


def _structural_hint(chk, fi: FuncInfo) -> str:
    """What the pinned-form stage rules (checks/c16.py) say about the current code, as a pointer to the construct - only their
    positive findings, never their 'not recognised'."""
    try:
        from checks import c16
        from sa.report import Check

        shadow = Check(chk.pid, chk.tier, chk.repo)
        shadow.robust |= set(c16.ROBUST)  # only rules that state a positive finding; a pinned form that is merely absent says nothing
        for f in (c16.check_components, c16.check_permutation_greedy, c16.check_product):
            try:
                f(shadow, fi)
            except Exception:
                pass
        found = [o for o in shadow.obligations if o.status == "violation"]
        if found:
            o = found[0]
            return f" [reading of the code: {o.rule} at {o.site.split(' ')[0]}: {o.detail[:300]}]"
    except Exception:
        pass
    return ""


# ---------------------------------------------------------------------------------------------------------------------
# stems


def stem_sequences() -> List[List[Tuple[int, int]]]:
    """5'->3' entry sequences (index, pair): every pattern of (index step, pair step) classes along <= 3 steps."""
    steps = [(1, -1), (1, -2), (2, -1), (1, 1), (2, -2), (3, 2)]
    basic = [(1, -1), (2, -1), (1, -2), (2, 3)]
    out: List[List[Tuple[int, int]]] = [[], [(5, 500)]]
    for n, pool in ((1, steps), (2, steps), (3, basic)):
        for combo in itertools.product(pool, repeat=n):
            seq = [(5, 500)]
            for di, dj in combo:
                seq.append((seq[-1][0] + di, seq[-1][1] + dj))
            out.append(seq)
    return out


def runs_of(seq: Sequence[Tuple[int, int]]) -> List[List[Tuple[int, int]]]:
    out: List[List[Tuple[int, int]]] = []
    for i, j in seq:
        if out and out[-1][-1][0] + 1 == i and out[-1][-1][1] - 1 == j:
            out[-1].append((i, j))
        else:
            out.append([(i, j)])
    return out


def stems_fact(chk) -> Optional[str]:
    repo = chk.repo
    fi = repo.func(MOD, f"{CLS}.__stems_entries")
    chk.note_function(fi)
    it = Interp(repo, MOD)
    problem = None
    src_problem = None
    n_cases = 0
    try:
        for seq in stem_sequences():
            n_cases += 1
            ents = [E(i, "A", j) for i, j in seq]
            calls: List[Tuple[tuple, dict]] = []

            def paired(*a, _e=ents, _c=calls, **k):
                _c.append((a, k))
                return iter(list(_e))

            recv = bpseq(it, list(ents), {"paired": paired})
            kind, val = attempt(lambda: it.call_member(recv, "__stems_entries"))
            want = runs_of(seq)
            if kind != "value":
                problem = problem or (site_of(fi, getattr(val, "lineno", None)), f"BpSeq.__stems_entries {'raises ' + str(val) if kind == 'raise' else 'does not finish'} for the 5'->3' entries {seq}", want, None)
                continue
            if seq and (len(calls) != 1 or not (calls[0] == ((), {"only5to3": True}) or calls[0] == ((True,), {}))):
                src_problem = src_problem or (fi.where, f"stem runs are not built from one pass over self.paired(only5to3=True) (calls of self.paired: {[(list(a), k) for a, k in calls]})", "self.paired(only5to3=True)", [(list(a), k) for a, k in calls])
            try:
                got = [[(e.index_, e.pair) for e in run] for run in val]
                same_objects = all(any(e is x for x in ents) for run in val for e in run)
            except Exception:
                problem = problem or (fi.where, f"BpSeq.__stems_entries does not return a list of lists of entries for {seq}", want, repr(val)[:80])
                continue
            if got != want and problem is None:
                # say which case is mishandled
                flat_w = [len(r) for r in want]
                flat_g = [len(r) for r in got]
                if sum(flat_g) != len(seq):
                    why = "entries are lost or repeated (the last run is not flushed / a pair is dropped)"
                elif len(got) < len(want):
                    why = "a pair that does not continue the run (5' index not +1 or 3' index not -1 of the run's last pair) is appended to it"
                else:
                    why = "a pair with 5' index +1 and 3' index -1 of the run's last pair does not extend the run"
                problem = (fi.where, f"stem runs for the 5'->3' entries {seq} are {got}: {why}", want, got)
            elif not same_objects and problem is None:
                problem = (fi.where, "the runs do not hold the entries handed out by self.paired(...) themselves", None, None)
    except NotEvaluable as ex:
        return str(ex)
    if not problem and not src_problem:
        gap = reached_all(repo, it.cov, [fi])
        if gap:
            return gap
    if problem:
        chk.violation("stems-run-fact", problem[0], problem[1], K(fi, "run-condition"), expected=problem[2], found=problem[3])
    else:
        chk.ok("stems-run-fact", fi.where, f"evaluated on {n_cases} sequences of 5'->3' entries (every pattern of index/pair steps along <= 3 steps): a pair (i,j) extends the current run iff i = k+1 and j = l-1 for the run's last pair (k,l); otherwise it starts the next run; nothing is lost")
    if src_problem:
        chk.violation("stems-source", src_problem[0], src_problem[1], K(fi, "source"), expected=src_problem[2], found=src_problem[3])
    else:
        chk.ok("stems-source", fi.where, "runs are built from one pass over self.paired(only5to3=True)")
    return None


# ---------------------------------------------------------------------------------------------------------------------
# objects: from_dotbracket, __post_init__, removals


class Built:
    """Recorder for `BpSeq(entries)` inside a fragment."""

    _folder_stub = True

    def __init__(self, entries):
        self.entries = entries

    def __repr__(self):
        return f"BpSeq({self.entries!r})"


class _NS:
    _folder_stub = True

    def __init__(self, **kw):
        self.__dict__.update(kw)

    def __repr__(self):
        return "(" + ", ".join(f"{k}={v!r}" for k, v in self.__dict__.items()) + ")"


def from_dotbracket_fact(chk, rule: str = "from-db-fact") -> Optional[str]:
    """BpSeq.from_dotbracket(db): entry t (0-based) is (t+1, the letter of position t unchanged, partner+1 or 0)."""
    repo = chk.repo
    fi = repo.func(MOD, f"{CLS}.from_dotbracket")
    chk.note_function(fi)
    it = Interp(repo, MOD)
    it.override_ctor("Entry", E)
    it.override_ctor(CLS, Built)
    cases = [
        ("", []),
        ("a", []),
        ("AcgU-nN", [(0, 6), (1, 4)]),
        ("?IpX7*.", [(0, 5), (2, 3)]),
        ("gGcC", [(1, 2), (0, 3)]),
        ("ACGUACGUAC", [(0, 9), (2, 5), (3, 4), (6, 8)]),
    ]
    problem = None
    try:
        for seq, pairs in cases:
            db = _NS(sequence=seq, pairs=list(pairs), structure="." * len(seq))
            kind, val = attempt(lambda: it.call_member(it.instance(CLS), "from_dotbracket", db))
            want = [(t + 1, seq[t], 0) for t in range(len(seq))]
            for a, b in pairs:
                want[a] = (a + 1, seq[a], b + 1)
                want[b] = (b + 1, seq[b], a + 1)
            if kind != "value":
                problem = problem or (site_of(fi, getattr(val, "lineno", None)), f"BpSeq.from_dotbracket {'raises ' + str(val) if kind == 'raise' else 'does not finish'} for sequence {seq!r} with pairs {pairs}", want, None)
                continue
            if not isinstance(val, Built):
                problem = problem or (fi.where, f"BpSeq.from_dotbracket does not return BpSeq(<entries>) but {val!r}", None, None)
                continue
            try:
                got = [tuple(e) for e in val.entries]
            except Exception:
                got = None
            if got != want and problem is None:
                if got is not None and len(got) == len(want) and [g[1] for g in got] != [w[1] for w in want]:
                    why = f"the sequence letters are changed ({''.join(str(g[1]) for g in got)!r} instead of {seq!r}): a structure derived through the dot-bracket form does not keep the sequence"
                elif got is not None and len(got) == len(want) and [g[0] for g in got] != [w[0] for w in want]:
                    why = "entry t (0-based) is not numbered t+1"
                else:
                    why = "decoded pairs (a,b) are not written symmetrically as entries[a].pair = b+1 and entries[b].pair = a+1"
                problem = (fi.where, f"BpSeq.from_dotbracket for sequence {seq!r}, pairs {pairs}: {why}", want, got)
    except NotEvaluable as ex:
        return str(ex)
    if not problem:
        gap = reached_all(repo, it.cov, [fi])
        if gap:
            return gap
    if problem:
        chk.violation(rule, problem[0], problem[1], K(fi, "entries"), expected=problem[2], found=problem[3])
    else:
        chk.ok(rule, fi.where, f"evaluated on {len(cases)} notations (upper/lower-case letters, '?', digits and other symbols, nested and crossing pairs): entry t is (t+1, sequence[t] unchanged, partner+1 or 0)")
    return None


def post_init_fact(chk) -> Optional[str]:
    repo = chk.repo
    fi = repo.func(MOD, f"{CLS}.__post_init__")
    chk.note_function(fi)
    it = Interp(repo, MOD)
    problem = None
    cases = [[], [(10, 30, 1)], [(10, 40, 2), (20, 60, 1)], embed(matchings(3)[7])]
    try:
        for regs in cases:
            ents = entries_of(regs)
            recv = it.instance(CLS, attrs={"entries": ents})
            kind, val = attempt(lambda: it.call_member(recv, "__post_init__"))
            want = {e.index_: e.pair for e in ents if e.pair}
            got = recv._attrs.get("pairs")
            if kind != "value":
                problem = problem or (site_of(fi, getattr(val, "lineno", None)), f"BpSeq.__post_init__ {'raises ' + str(val) if kind == 'raise' else 'does not finish'}", None, None)
            elif got != want and problem is None:
                problem = (fi.where, f"BpSeq.pairs for the stems {show(regs)} is {got}, not the symmetric map of every paired entry", want, got)
    except NotEvaluable as ex:
        return str(ex)
    if not problem:
        gap = reached_all(repo, it.cov, [fi])
        if gap:
            return gap
    if problem:
        chk.violation("bpseq-pairs-fact", problem[0], problem[1], K(fi, "pairs"), expected=problem[2], found=problem[3])
    else:
        chk.ok("bpseq-pairs-fact", fi.where, "evaluated: pairs maps both ends of every paired entry, nothing else")
    return None


def _snapshot(recv: Instance) -> Dict[str, Any]:
    out: Dict[str, Any] = {}
    for k, v in recv._attrs.items():
        if k == "entries":
            out[k] = [tuple(e) for e in v]
        elif isinstance(v, dict):
            out[k] = {a: (set(b) if isinstance(b, (set, frozenset)) else b) for a, b in v.items()}
        elif isinstance(v, (list, tuple, str, int)):
            try:
                out[k] = repr(v)
            except Exception:
                pass
    return out


def isolated_fact(chk) -> Optional[str]:
    """BpSeq.without_isolated on small real structures (every set of pairs over <= 6 contiguous residues, incl. pairs of
    neighbouring residues) and on every pattern of stem lengths 1..3 for <= 3 spread-out stems: a new structure with fresh
    entries in which exactly both ends of every stem of length one are unpaired and whose own `pairs` agree with its
    entries; the receiver itself when there is none; the receiver is left as it was."""
    repo = chk.repo
    fi = repo.func(MOD, f"{CLS}.without_isolated")
    chk.note_function(fi)
    it = Interp(repo, MOD)
    it.override_ctor("Entry", E)
    problems: Dict[str, Tuple[str, str, Any, Any]] = {}
    cases: List[Tuple[List[Region], Optional[int]]] = [(list(st), ln) for ln, _, st in dense_structures(6)]  # exact length: the first / last residue may be paired
    for k in range(0, 4):
        for pattern in itertools.product((1, 2, 3), repeat=k):
            for arcs in ([m for m in matchings(k)][:: max(1, len(matchings(k)) // 3)] if k else [()]):
                cases.append((embed(arcs, lengths=list(pattern)), None))
    n = 0
    try:
        for regs, exact in cases:
            n += 1
            ents = entries_of(regs, length=exact)
            pairs = {e.index_: e.pair for e in ents if e.pair}
            stems = [_NS(strand5p=_NS(first=s, last=s + L - 1), strand3p=_NS(first=e - L + 1, last=e)) for s, e, L in regs]
            recv = bpseq(it, ents, {"elements": (stems, [], [], []), "__stems_entries": stems_of(regs, ents), "__regions": [tuple(r) for r in regs]})
            before = _snapshot(recv)
            kind, val = attempt(lambda: it.call_member(recv, "without_isolated"))
            desc = f"stems {[(s, e, L) for s, e, L in regs]} (start, partner, length)"
            if kind != "value":
                problems.setdefault("raise", (site_of(fi, getattr(val, "lineno", None)), f"BpSeq.without_isolated {'raises ' + str(val) if kind == 'raise' else 'does not finish'} for {desc}", None, None))
                continue
            after = _snapshot(recv)
            if after != before:
                changed = [a for a in before if after.get(a) != before[a]] + [a for a in after if a not in before]
                problems.setdefault("receiver", (fi.where, f"BpSeq.without_isolated changes the structure it is called on: `{changed[0]}` is {after.get(changed[0])} afterwards (was {before.get(changed[0])}) for {desc}", before.get(changed[0]), after.get(changed[0])))
            iso = [r for r in regs if r[2] == 1]
            want = [tuple(e) for e in ents]
            for s_, e_, L in iso:
                want[s_ - 1] = (s_, want[s_ - 1][1], 0)
                want[e_ - 1] = (e_, want[e_ - 1][1], 0)
            is_bpseq = isinstance(val, Instance) and val._cls == CLS and "entries" in val._attrs
            if not iso:
                if val is not recv and not (is_bpseq and [tuple(e) for e in val._attrs["entries"]] == want):
                    problems.setdefault("result", (fi.where, f"with no isolated pair the result is {val!r}, neither the structure itself nor an equal one, for {desc}", None, None))
                continue
            if val is recv or not is_bpseq:
                problems.setdefault("select" if val is recv else "result", (fi.where, f"BpSeq.without_isolated returns {'the structure itself' if val is recv else repr(val)[:60]} although {len(iso)} stem(s) of length one exist ({[(r[0], r[1]) for r in iso]}), for {desc}: an isolated pair is kept", want, None))
                continue
            try:
                got = [tuple(e) for e in val._attrs["entries"]]
            except Exception:
                got = None
            if got != want:
                if got is not None and len(got) == len(want):
                    i = next(i for i in range(len(want)) if got[i] != want[i])
                    half = [r for r in iso if want[i][0] in (r[0], r[1])]
                    why = (f"entry {want[i][0]} (an end of the isolated pair {half[0][0]}-{half[0][1]}) keeps pair {got[i][2]}" if half else f"entry {want[i][0]} becomes {got[i]} although it belongs to no isolated pair")
                else:
                    why = "the entry list has another length"
                problems.setdefault("select", (fi.where, f"BpSeq.without_isolated for {desc}: {why}; exactly both ends of every stem of length one must be unpaired", want, got))
                continue
            if any(any(x is y for y in ents) for x in val._attrs["entries"]):
                problems.setdefault("copy", (fi.where, "the derived structure shares Entry objects with the structure it was derived from (a later change of one shows in the other)", None, None))
            own = val._attrs.get("pairs")
            want_pairs = {w[0]: w[2] for w in want if w[2]}
            if own is not None and own != want_pairs:
                stale = sorted(set(own.items()) - set(want_pairs.items()))
                problems.setdefault("stale", (fi.where, f"the structure returned by BpSeq.without_isolated for {desc} answers `pairs` = {own} although its entries pair only {want_pairs}: its entries were changed after it had been constructed, so its own cached state disagrees with them" + (f" (stale: {stale[:2]})" if stale else ""), want_pairs, own))
    except NotEvaluable as ex:
        return str(ex)
    if not problems:
        gap = reached_all(repo, it.cov, [fi])
        if gap:
            return gap
    rules = {"receiver": "receiver-write", "select": "isolated-select", "copy": "isolated-copy", "result": "isolated-result", "raise": "isolated-select", "stale": "derived-consistent"}
    for key, (site, msg, want, got) in problems.items():
        chk.violation(rules[key], site, msg, K(fi, f"isolated-{key}"), expected=want, found=got)
    if not problems:
        chk.ok("isolated-select", fi.where, f"evaluated on {n} structures (every set of pairs over <= 6 contiguous residues; every pattern of stem lengths 1..3 for <= 3 stems): exactly both ends of every stem of length one are unpaired")
        chk.ok("isolated-copy", fi.where, "the derived structure has its own Entry objects (evaluated: identity of every entry)")
        chk.ok("isolated-result", fi.where, "a new BpSeq is returned, the structure itself when nothing is isolated; the receiver is unchanged after the call (evaluated)")
        chk.ok("derived-consistent", fi.where, "the derived structure's own `pairs` agree with its entries (evaluated)")
    return None


def pseudoknots_fact(chk) -> Optional[str]:
    """BpSeq.without_pseudoknots / DotBracket.without_pseudoknots: same sequence (letter by letter), only the pairs the
    notation writes with round brackets are kept; the receiver is left as it was."""
    repo = chk.repo
    fi = repo.func(MOD, f"{CLS}.without_pseudoknots")
    dfi = repo.func(MOD, "DotBracket.without_pseudoknots")
    chk.note_function(fi)
    chk.note_function(dfi)
    it = Interp(repo, MOD)
    it.override_ctor("Entry", E)
    it.override_ctor(CLS, Built)
    n_types = len(REF_OPEN)
    letters = "acgu" + "ACGU" + "nN-" + "?IPx7*" + "acgu" * 20  # also '?' (the library's gap marker) and codes outside the IUPAC set
    structure = "(" + "." + REF_OPEN[1:] + ".." + REF_CLOSE[1:][::-1] + "(.)" + ")"
    seq = (letters * 3)[: len(structure)]
    problems: Dict[str, Tuple[str, str, Any, Any]] = {}
    try:
        dbc = it.class_ref("DotBracket")
        db = dbc(seq, structure)
        pk_entries = [E(i + 1, c, 0) for i, c in enumerate(seq)]
        for a, b in decode_ref(structure) or []:
            pk_entries[a].pair, pk_entries[b].pair = b + 1, a + 1
        recv = bpseq(it, pk_entries, {"dot_bracket": db})
        before = _snapshot(recv)
        kind, val = attempt(lambda: it.call_member(recv, "without_pseudoknots"))
        if kind != "value":
            problems["raise"] = (site_of(fi, getattr(val, "lineno", None)), f"BpSeq.without_pseudoknots {'raises ' + str(val) if kind == 'raise' else 'does not finish'} on a notation using all {n_types} bracket types", None, None)
        elif not isinstance(val, Built):
            problems["result"] = (fi.where, f"BpSeq.without_pseudoknots does not return a new BpSeq but {val!r}", None, None)
        else:
            got = [tuple(e) for e in val.entries]
            want_pairs = {0: len(structure) - 1, len(structure) - 1: 0, len(structure) - 4: len(structure) - 2, len(structure) - 2: len(structure) - 4}
            want = [(t + 1, seq[t], want_pairs.get(t, -1) + 1) for t in range(len(seq))]
            if [g[1] for g in got] != [w[1] for w in want]:
                bad = next(i for i in range(min(len(got), len(want))) if got[i][1] != want[i][1]) if len(got) == len(want) else 0
                problems["sequence"] = (fi.where, f"the structure returned by BpSeq.without_pseudoknots does not keep the sequence: position {bad + 1} is {got[bad][1]!r}, was {seq[bad]!r} (the derivation goes through BpSeq.from_dotbracket / DotBracket.without_pseudoknots)", seq, "".join(str(g[1]) for g in got))
            elif got != want:
                bad = next(i for i in range(len(want)) if got[i] != want[i])
                problems["pairs"] = (dfi.where, f"without_pseudoknots: position {bad + 1} (`{structure[bad]}` in the notation) ends as {got[bad]}, expected {want[bad]}: exactly the pairs written with round brackets are kept", None, None)
            if _snapshot(recv) != before:
                after = _snapshot(recv)
                changed = [a for a in before if after.get(a) != before[a]] + [a for a in after if a not in before]
                problems["receiver-bpseq"] = (fi.where, f"BpSeq.without_pseudoknots changes the structure it is called on: `{changed[0]}` is {str(after.get(changed[0]))[:120]} afterwards (was {str(before.get(changed[0]))[:120]})", None, None)
            if db._attrs.get("structure") != structure or db._attrs.get("sequence") != seq:
                problems["receiver"] = (dfi.where, "DotBracket.without_pseudoknots changes the notation it is called on", structure, db._attrs.get("structure"))
    except NotEvaluable as ex:
        return str(ex)
    if not problems:
        gap = reached_all(repo, it.cov, [fi, dfi])
        if gap:
            return gap
    rules = {"raise": "pk-class", "result": "pk-via-dotbracket", "sequence": "derived-sequence", "pairs": "pk-class", "receiver": "receiver-write", "receiver-bpseq": "receiver-write"}
    for key, (site, msg, want, got) in problems.items():
        chk.violation(rules[key], site, msg, K(fi, f"pk-{key}"), expected=want, found=got)
    if not problems:
        chk.ok("derived-sequence", fi.where, "evaluated on a notation with upper/lower-case and other letters: the structure without pseudoknots has the same sequence, letter by letter")
        chk.ok("pk-class", dfi.where, f"evaluated on a notation using all {n_types} bracket types: exactly the pairs written with round brackets are kept, the other 58 characters become '.'")
    return None


# ---------------------------------------------------------------------------------------------------------------------
# the MILP encoder under every class of solver outcome (C13) and the model it builds (C02)

KNOTTED: List[Region] = [(10, 30, 1), (20, 40, 3)]  # FCFS levels [0, 1]; the optimum is [1, 0]
NESTED: List[Region] = [(10, 40, 2), (20, 30, 1)]

FAULT_STATUSES = [(lp.LpStatusNotSolved, "Not Solved"), (lp.LpStatusInfeasible, "Infeasible"), (lp.LpStatusUnbounded, "Unbounded"), (lp.LpStatusUndefined, "Undefined")]


def _by_name_solution(levels: Sequence[int]) -> Callable[[lp.LpProblem, Any], int]:
    """Solver outcome 'Optimal' that selects x_<i>_<levels[i]> (the library's naming); all other variables 0."""

    def outcome(problem, solver):
        for v in problem.variables():
            parts = v.name.split("_")
            sel = len(parts) == 3 and parts[1].isdigit() and parts[2].isdigit() and int(parts[1]) < len(levels) and levels[int(parts[1])] == int(parts[2])
            v.varValue = 1 if sel else 0
        return lp.LpStatusOptimal

    return outcome


def _status_outcome(status: int) -> Callable[[lp.LpProblem, Any], int]:
    return lambda problem, solver: status


def _raising_outcome(problem, solver):
    raise lp.PulpSolverError("solver failed")


def _value_reads(world: lp.World) -> int:
    return sum(v.reads for p in world.problems for v in p.variables())


def fault_fact(chk) -> Optional[str]:
    """convert_to_dot_bracket / dot_bracket on every class of solver configuration and outcome."""
    repo = chk.repo
    conv = repo.func(MOD, f"{CLS}.convert_to_dot_bracket")
    dotb = repo.func(MOD, f"{CLS}.dot_bracket")
    chk.note_function(conv)
    chk.note_function(dotb)
    seen: Dict[str, bool] = {}
    n = 0
    cov: set = set()

    def report(rule: str, key: str, site: str, msg: str, expected=None, found=None):
        if key in seen:
            return
        seen[key] = True
        chk.violation(rule, site, msg, f"{MOD}:{conv.qualname}:{key}", expected=expected, found=found)

    def run(fi, regs, world, call):
        it = Interp(repo, MOD, {"pulp": lp.Pulp(world)}, cov=cov)
        rec = Recorder()
        recv = receiver(it, regs, rec, fcfs=True)
        kind, val = attempt(lambda: call(it, recv))
        return kind, val, rec

    try:
        for regs, knotted in ((KNOTTED, True), (NESTED, False)):
            what = f"the stems {show(regs)} ({relation_text(regs)})"
            # (a) no solver object
            for has_default in (True, False):
                w = lp.World(_by_name_solution([1, 0]), highs=False, default=has_default)
                kind, val, rec = run(conv, regs, w, lambda it, r: it.call_member(r, "convert_to_dot_bracket", None))
                n += 1
                cfg = "solver=None" + ("" if has_default else ", no PuLP back-end installed (pulp.LpSolverDefault is None)")
                if kind != "value":
                    report("solver-none-guard", "none-raise", site_of(conv, getattr(val, "lineno", None)), f"convert_to_dot_bracket({cfg}) {'raises ' + str(val) if kind == 'raise' else 'does not finish'} for {what}: a missing solver must end in the FCFS notation, not in an exception")
                elif not (rec.is_fcfs(val) or rec.levels_of(val) is not None):
                    report("fallback-is-fcfs", "none-result", conv.where, f"convert_to_dot_bracket({cfg}) returns {val!r} for {what}: neither the FCFS notation nor a notation rendered by the fill")
            # (b) a solver that raises
            w = lp.World(_raising_outcome)
            kind, val, rec = run(conv, regs, w, lambda it, r: it.call_member(r, "convert_to_dot_bracket", w.default_solver))
            n += 1
            if kind == "raise" and knotted:
                report("solve-handled", "raise-escapes", site_of(conv, val.lineno), f"a solver that raises PulpSolverError makes convert_to_dot_bracket raise {val} for {what}: the fault escapes instead of falling back to FCFS")
            elif kind == "loop":
                report("never-raises", "raise-loop", conv.where, f"convert_to_dot_bracket does not finish for {what}")
            elif kind == "value" and knotted and not rec.is_fcfs(val):
                report("fallback-is-fcfs", "raise-result", conv.where, f"after a PulpSolverError convert_to_dot_bracket returns {'the notation with levels ' + str(rec.levels_of(val)) if rec.levels_of(val) is not None else repr(val)} for {what}, not the FCFS notation", "self.fcfs", repr(val))
            elif kind == "value" and not knotted and not (rec.is_fcfs(val) or rec.levels_of(val) == [0] * len(regs)):
                report("returns-dotbracket", "nested-result", conv.where, f"for the pseudoknot-free {what} convert_to_dot_bracket returns {val!r}, not the round-bracket notation")
            # (c) a solver that returns normally with a non-optimal status and no values
            for status, sname in FAULT_STATUSES:
                w = lp.World(_status_outcome(status))
                kind, val, rec = run(conv, regs, w, lambda it, r: it.call_member(r, "convert_to_dot_bracket", w.default_solver))
                n += 1
                if not knotted:
                    if kind != "value" or not (rec.is_fcfs(val) or rec.levels_of(val) == [0] * len(regs)):
                        report("returns-dotbracket", "nested-status", conv.where, f"for the pseudoknot-free {what} and solver status '{sname}' convert_to_dot_bracket gives {val!r}")
                    continue
                if kind == "raise":
                    report("value-before-optimal" if isinstance(val.exc, TypeError) else "never-raises", f"status-raise-{type(val.exc).__name__}", site_of(conv, val.lineno), f"with solver status '{sname}' (no variable has a value) convert_to_dot_bracket raises {val} for {what}: a quantity of the unsolved model is used before the Optimal test")
                    continue
                if kind == "loop":
                    report("never-raises", "status-loop", conv.where, f"convert_to_dot_bracket does not finish for {what}")
                    continue
                reads = _value_reads(w)
                if reads and not rec.is_fcfs(val):
                    report("readback-after-optimal", f"status-readback", conv.where, f"with solver status '{sname}' variable values are read from the unsolved model and convert_to_dot_bracket returns the notation with levels {rec.levels_of(val)} for {what} (crossing stems share a bracket type) instead of the FCFS notation: only `status == LpStatusOptimal` may reach the read-back", "self.fcfs", repr(val))
                elif not rec.is_fcfs(val):
                    report("fallback-is-fcfs", "status-result", conv.where, f"with solver status '{sname}' convert_to_dot_bracket returns {'the notation with levels ' + str(rec.levels_of(val)) if rec.levels_of(val) is not None else repr(val)} for {what}, not the FCFS notation", "self.fcfs", repr(val))
            # (d) optimal
            w = lp.World(_by_name_solution([1, 0]))
            kind, val, rec = run(conv, regs, w, lambda it, r: it.call_member(r, "convert_to_dot_bracket", w.default_solver))
            n += 1
            if kind != "value":
                report("never-raises", "optimal-raise", site_of(conv, getattr(val, "lineno", None)), f"with an optimal solution convert_to_dot_bracket {'raises ' + str(val) if kind == 'raise' else 'does not finish'} for {what}")
            elif rec.levels_of(val) is None:
                report("returns-dotbracket", "optimal-result", conv.where, f"with an optimal solution convert_to_dot_bracket returns {val!r} for {what}: not a notation rendered by the fill")
            # (e) the property that picks the solver, in every configuration of installed back-ends
            for highs in (True, False):
                for has_default in (True, False):
                    for oname, outcome in (("an optimal solve", _by_name_solution([1, 0])), ("a solver raising PulpSolverError", _raising_outcome), ("solver status 'Not Solved'", _status_outcome(lp.LpStatusNotSolved))):
                        w = lp.World(outcome, highs=highs, default=has_default)
                        kind, val, rec = run(dotb, regs, w, lambda it, r: it.call_member(r, "dot_bracket"))
                        n += 1
                        cfg = f"HiGHS {'available' if highs else 'not available'}, pulp.LpSolverDefault {'set' if has_default else 'None'}, {oname}"
                        if kind != "value":
                            rule = "solver-none-guard" if (not highs and not has_default) else "never-raises"
                            report(rule, f"prop-raise-{highs}-{has_default}-{type(getattr(val, 'exc', val)).__name__}", site_of(dotb, getattr(val, "lineno", None)), f"BpSeq.dot_bracket ({cfg}) {'raises ' + str(val) if kind == 'raise' else 'does not finish'} for {what}")
                        elif not (rec.is_fcfs(val) or rec.levels_of(val) is not None):
                            report("returns-dotbracket", "prop-result", dotb.where, f"BpSeq.dot_bracket ({cfg}) returns {val!r}: neither the FCFS notation nor a notation rendered by the fill")
                        elif knotted and not highs and not has_default and not rec.is_fcfs(val):
                            report("fallback-is-fcfs", "prop-none", dotb.where, f"BpSeq.dot_bracket with no back-end at all returns {val!r} for {what}, not the FCFS notation")
    except NotEvaluable as ex:
        return str(ex)
    if not seen:
        gap = reached_all(repo, cov, [conv, dotb])
        if gap:
            return gap
    if not seen:
        for rule, text in (
            ("solve-handled", "a solver raising PulpSolverError ends in the FCFS notation"),
            ("fallback-is-fcfs", "every fault class (no solver, PulpSolverError, status Not Solved / Infeasible / Unbounded / Undefined) returns the FCFS value"),
            ("readback-after-optimal", "variable values are read only after an optimal solve"),
            ("solver-none-guard", "solver=None and a machine without any back-end end in FCFS, no attribute of None is touched"),
            ("returns-dotbracket", "every class returns the FCFS value or a notation rendered by the fill"),
            ("never-raises", "no class of solver outcome makes dot_bracket / convert_to_dot_bracket raise"),
        ):
            chk.ok(rule, conv.where, f"evaluated on {n} (configuration, outcome, structure) classes: {text}")
    return None


# ---------------------------------------------------------------------------------------------------------------------
# call histories


def optimum(regions: Sequence[Region]) -> List[int]:
    """A proper assignment maximising (length on level 0) - sum k * (length on level k); ties broken towards the smallest tuple."""
    n = len(regions)
    adj = adjacency(regions)
    best, best_score = None, None
    for lv in itertools.product(range(max(1, n)), repeat=n):
        if any(lv[i] == lv[j] for i in adj for j in adj[i]):
            continue
        score = sum(r[2] if k == 0 else -k * r[2] for r, k in zip(regions, lv))
        if best_score is None or score > best_score:
            best, best_score = list(lv), score
    return best or [0] * n


def _norm_result(v: Any) -> Any:
    if db_key(v) is not None:
        return ("notation",) + db_key(v)
    if isinstance(v, Built):
        return ("bpseq", tuple(tuple(e) for e in v.entries))
    if isinstance(v, Instance):
        if "entries" in v._attrs:
            return ("bpseq", tuple(tuple(e) for e in v._attrs["entries"]))
        return ("object", v._cls, str(v))
    if isinstance(v, (list, tuple)):
        items = [_norm_result(x) for x in v]
        try:
            return ("list", tuple(sorted(items, key=repr)))
        except Exception:
            return ("list", tuple(items))
    if isinstance(v, (set, frozenset)):
        return ("set", tuple(sorted((_norm_result(x) for x in v), key=repr)))
    if isinstance(v, dict):
        return ("dict", tuple(sorted(((repr(k), _norm_result(x)) for k, x in v.items()))))
    if isinstance(v, (str, int, float, bool, type(None))):
        return v
    return ("value", repr(v))


ENCODER_QUERIES = ("fcfs", "dot_bracket", "all_dot_brackets")
OBJECT_QUERIES = ENCODER_QUERIES + ("elements", "without_isolated", "without_pseudoknots", "sequence", "attr:pairs", "attr:entries")


DERIVATIONS = ("without_isolated", "without_pseudoknots", "elements")


def history_fact(chk, queries: Sequence[str] = ENCODER_QUERIES, rule: str = "history-independent", process: bool = False, actions: Sequence[str] = (), solver_change: bool = False) -> Optional[str]:
    """Every ordered pair of queries on one object answers as on a fresh copy; with process=True also: a solve that faulted
    for one object does not change what a later, healthy solve of an equal structure gives."""
    repo = chk.repo
    anchor = repo.func(MOD, f"{CLS}.all_dot_brackets")
    structures = [
        embed(((0, 2), (1, 3)), lengths=[1, 3]),
        embed(((0, 2), (1, 4), (3, 5)), lengths=[2, 1, 2]),
        embed(((0, 3), (1, 4), (2, 5)), lengths=[1, 2, 3]),
        embed(((0, 3), (1, 5), (2, 4)), lengths=[2, 1, 1]),
        embed(((0, 1), (2, 4), (3, 5)), lengths=[1, 1, 2]),  # has an isolated hairpin stem
    ]
    members = repo.module(MOD).funcs

    def fresh(regs, world):
        it = Interp(repo, MOD, {"pulp": lp.Pulp(world)})
        it.override_ctor("Entry", E)
        rec = Recorder()
        ents = entries_of(regs)
        rec.sequence = "".join(e.sequence for e in ents)
        pairs = {e.index_: e.pair for e in ents if e.pair}
        recv = bpseq(it, ents, {"__make_dot_bracket": rec.fill})
        return it, recv

    def ask(it, recv, q):
        if q.startswith("attr:"):
            return attempt(lambda: it.getattr_(recv, q[5:], None))
        f = members[f"{CLS}.{q}"]
        kind = "property" if any(d in ("property", "cached_property") for d in f.decorators) else "method"
        if kind == "property":
            return attempt(lambda: it.getattr_(recv, q, None))
        return attempt(lambda: it.call(it.getattr_(recv, q, None), (), {}, None))

    usable = [q for q in queries if q.startswith("attr:") or f"{CLS}.{q}" in members]
    only_first = [a for a in actions if f"{CLS}.{a}" in members and a not in usable]  # asked first, their own answers are another rule's
    dropped: List[str] = []
    problems: List[Tuple[str, str, Any, Any]] = []
    n = 0
    try:
        for regs in structures:
            opt = optimum(regs)
            base: Dict[str, Any] = {}
            for q in list(usable):
                try:
                    it, r = fresh(regs, lp.World(_by_name_solution(opt)))
                    kind, val = ask(it, r, q)
                    base[q] = (kind, _norm_result(val) if kind == "value" else str(val))
                except NotEvaluable as ex:
                    usable.remove(q)
                    dropped.append(f"{q} ({str(ex)[:60]})")
            for a in list(only_first):
                try:
                    it, r = fresh(regs, lp.World(_by_name_solution(opt)))
                    ask(it, r, a)
                except NotEvaluable as ex:
                    only_first.remove(a)
                    dropped.append(f"{a} ({str(ex)[:60]})")
            for q1, q2 in list(itertools.permutations(usable, 2)) + [(a, q) for a in only_first for q in usable]:
                if problems:
                    break
                n += 1
                it, r = fresh(regs, lp.World(_by_name_solution(opt)))
                ask(it, r, q1)
                kind, val = ask(it, r, q2)
                got = (kind, _norm_result(val) if kind == "value" else str(val))
                if got != base[q2]:
                    want_q2 = base[q2]
                    # which piece of the object's state differs from a fresh copy after q1?
                    it1, r1 = fresh(regs, lp.World(_by_name_solution(opt)))
                    ask(it1, r1, q1)
                    it0, r0 = fresh(regs, lp.World(_by_name_solution(opt)))
                    state = ""
                    for name in list(r1._attrs):
                        if name == q1:
                            continue
                        try:
                            v0 = r0._attrs[name] if name in r0._attrs else it0.getattr_(r0, name, None)
                        except Exception:
                            continue
                        if _norm_result(r1._attrs[name]) != _norm_result(v0):
                            a1, a0 = r1._attrs[name], v0
                            if isinstance(a1, list) and isinstance(a0, list) and len(a1) == len(a0):
                                k = next((i for i in range(len(a1)) if _norm_result(a1[i]) != _norm_result(a0[i])), 0)
                                state = f"; after `{q1}` element {k} of the object's `{name}` is {_show_state(a1[k])}, on a fresh copy it is {_show_state(a0[k])}"
                            else:
                                state = f"; after `{q1}` the object's `{name}` is {_show_state(a1)}, on a fresh copy it is {_show_state(a0)}"
                            break
                    q1, q2 = q1.replace("attr:", ""), q2.replace("attr:", "")
                    problems.append((anchor.where, f"`{q2}` asked after `{q1}` on the same BpSeq object answers differently than on a fresh copy, for the stems {show(regs)} ({relation_text(regs)}){state}: an earlier query changes state a later one reads", want_q2, got))
            if process and not problems and "convert_to_dot_bracket" in {m.split(".")[-1] for m in members}:
                n += 1
                w = lp.World(_raising_outcome)
                it, a = fresh(regs, w)
                attempt(lambda: it.call_member(a, "convert_to_dot_bracket", w.default_solver))
                for first_fault in ("a solver raising PulpSolverError", "solver status 'Not Solved'"):
                    if first_fault.startswith("solver status"):
                        w = lp.World(_status_outcome(lp.LpStatusNotSolved))
                        it, a = fresh(regs, w)
                        attempt(lambda: it.call_member(a, "convert_to_dot_bracket", w.default_solver))
                    # same interpreter = same process: module-level state survives; a second, equal object and a healthy solver
                    w.outcome = _by_name_solution(opt)
                    rec_b = Recorder()
                    ents = entries_of(regs)
                    rec_b.sequence = "".join(e.sequence for e in ents)
                    b = bpseq(it, ents, {"__make_dot_bracket": rec_b.fill})
                    kind, val = attempt(lambda: it.call_member(b, "convert_to_dot_bracket", w.default_solver))
                    w2 = lp.World(_by_name_solution(opt))
                    it2, c = fresh(regs, w2)
                    kind2, val2 = attempt(lambda: it2.call_member(c, "convert_to_dot_bracket", w2.default_solver))
                    g1 = (kind, _norm_result(val) if kind == "value" else str(val))
                    g2 = (kind2, _norm_result(val2) if kind2 == "value" else str(val2))
                    if g1 != g2 and not problems:
                        conv = repo.func(MOD, f"{CLS}.convert_to_dot_bracket")
                        problems.append((conv.where, f"after {first_fault} for one object, a healthy solve of an equal structure (stems {show(regs)}) in the same process returns {val!r} instead of {val2!r}: the outcome of a faulted solve is remembered beyond the call", g2, g1))
        if solver_change and not problems:
            # the solver fails while the first answer is computed and works afterwards: what the object answers later must agree
            # with what it has already handed out (= what it answers when the solver keeps failing), for every query that consults
            # the optimal notation
            regs = KNOTTED
            dependants = [q for q in ("dot_bracket", "without_pseudoknots", "elements", "without_isolated") if q in usable or q in only_first]
            for first_fault, fault in (("a solver raising PulpSolverError", _raising_outcome), ("solver status 'Not Solved'", _status_outcome(lp.LpStatusNotSolved))):
                for q1 in ("dot_bracket",):
                    if q1 not in dependants:
                        continue
                    for q2 in dependants:
                        if problems:
                            break
                        n += 1
                        w = lp.World(fault)
                        it, r = fresh(regs, w)
                        a1 = ask(it, r, q1)
                        w.outcome = _by_name_solution(optimum(regs))
                        k2, v2 = ask(it, r, q2)
                        w0 = lp.World(fault)
                        it0, r0 = fresh(regs, w0)
                        ask(it0, r0, q1)
                        k0, v0 = ask(it0, r0, q2)
                        g2 = (k2, _norm_result(v2) if k2 == "value" else str(v2))
                        g0 = (k0, _norm_result(v0) if k0 == "value" else str(v0))
                        if g2 != g0:
                            f2 = repo.func(MOD, f"{CLS}.{q2}")
                            problems.append((f2.where, f"`{q1}` was answered while the solver failed ({first_fault}) - the FCFS notation was handed out - and `{q2}` asked afterwards on the same object, with the solver working again, answers {str(g2[1])[:160]} instead of {str(g0[1])[:160]}: a later answer of the object does not agree with the one it has already given (an answer is recomputed instead of kept), for the stems {regs}", g0, g2))
        if process and not problems and f"{CLS}.convert_to_dot_bracket" in members:
            # a healthy solve of structure B after a healthy solve of structure A in the same process: A and B have the same
            # stem anchors (first 5' index, partner) and order type but other stem lengths, so that the optimum differs
            conv = repo.func(MOD, f"{CLS}.convert_to_dot_bracket")
            for arcs in (((0, 2), (1, 3)), ((0, 2), (1, 4), (3, 5)), ((0, 3), (1, 4), (2, 5))):
                for la, lb in (([2, 5, 1], [5, 2, 4]), ([1, 1, 6], [6, 3, 1])):
                    A, B = embed(arcs, scale=2, lengths=la[: len(arcs)]), embed(arcs, scale=2, lengths=lb[: len(arcs)])
                    n += 1

                    def solve(it, regs):
                        rec = Recorder()
                        ents = entries_of(regs)
                        rec.sequence = "".join(e.sequence for e in ents)
                        rec.regions = [tuple(r) for r in regs]
                        obj = bpseq(it, ents, {"__make_dot_bracket": rec.fill})
                        w = it.globals["pulp"].world
                        w.outcome = _by_name_solution(optimum(regs))
                        kind, val = attempt(lambda: it.call_member(obj, "convert_to_dot_bracket", w.default_solver))
                        return (kind, rec.levels_of(val) if kind == "value" else str(val))

                    it = Interp(repo, MOD, {"pulp": lp.Pulp(lp.World())})
                    solve(it, A)
                    after = solve(it, B)
                    alone = solve(Interp(repo, MOD, {"pulp": lp.Pulp(lp.World())}), B)
                    if after != alone and not problems:
                        problems.append((conv.where, f"convert_to_dot_bracket for the stems {B} (start, partner, length) gives levels {after[1]} when the stems {A} - same anchors, other lengths - were converted earlier in the same process, but {alone[1]} in a fresh process: something kept between calls identifies a structure by less than what the assignment depends on (the objective reads the stem lengths)", alone[1], after[1]))
    except NotEvaluable as ex:
        return str(ex)
    for site, msg, want, got in problems[:1]:
        chk.violation(rule, site, msg, f"{MOD}:{CLS}:history", expected=want, found=got)
    if not problems:
        chk.ok(rule, anchor.where, f"evaluated {n} histories (every ordered pair of {', '.join(usable)}" + (f", each also after {', '.join(only_first)}" if only_first else "") + f" on one object, {len(structures)} knotted structures" + (", a faulted solve followed by a healthy one, a solve after a solve of a structure with the same stem anchors and other lengths" if process else "") + "): each answer equals the answer of a fresh copy" + (f"; not evaluable and left out: {dropped}" if dropped else ""))
    return None


def _show_state(v: Any) -> str:
    try:
        if isinstance(v, dict):
            return "{" + ", ".join(f"{k}: {sorted(x) if isinstance(x, (set, frozenset)) else x}" for k, x in sorted(v.items(), key=lambda kv: repr(kv[0]))) + "}"
        return repr(v)[:120]
    except Exception:
        return "<?>"


# ---------------------------------------------------------------------------------------------------------------------
# the MILP model (C02)


def _capture(levels_by_name: Optional[Dict[str, int]] = None, store: Optional[Dict[str, Any]] = None):
    """Solver outcome 'Optimal' with the given 0/1 values by variable name (default 0); remembers the problem."""

    def outcome(problem, solver):
        if store is not None:
            store["problem"] = problem
        for v in problem.variables():
            v.varValue = (levels_by_name or {}).get(v.name, 0)
        return lp.LpStatusOptimal

    return outcome


def model_cases() -> List[List[Region]]:
    primes = [2, 3, 5, 7]
    out = []
    for n in (2, 3):
        for m in matchings(n):
            regs = embed(m, scale=2, lengths=primes[:n])
            if adjacency(regs):
                out.append(regs)
    # four stems: a chain, a star, a cycle, a clique, two independent H-types, a triangle with a pendant stem
    four = [((0, 2), (1, 4), (3, 6), (5, 7)), ((0, 5), (1, 6), (2, 3), (4, 7)), ((0, 3), (1, 5), (2, 6), (4, 7)), ((0, 4), (1, 5), (2, 6), (3, 7)), ((0, 2), (1, 3), (4, 6), (5, 7)), ((0, 3), (1, 4), (2, 6), (5, 7))]
    for m in four:
        out.append(embed(m, scale=2, lengths=[7, 2, 3, 5]))
    return out


def model_fact(chk) -> Optional[str]:
    """The model convert_to_dot_bracket hands to the solver, read through the program's own read-back, is the reference
    model of the statement; the read-back returns the solver's assignment; no crossing -> all stems on level 0, no solve."""
    repo = chk.repo
    fi = repo.func(MOD, f"{CLS}.convert_to_dot_bracket")
    chk.note_function(fi)
    seen: Dict[str, bool] = {}

    def report(rule: str, key: str, msg: str, expected=None, found=None, site: Optional[str] = None):
        if key in seen:
            return
        seen[key] = True
        chk.violation(rule, site or fi.where, msg, K(fi, key), expected=expected, found=found)

    cov: set = set()

    def run(regs, values: Optional[Dict[str, int]], store: Optional[Dict[str, Any]] = None, outcome=None, none_solver: bool = False):
        w = lp.World(outcome or _capture(values, store))
        it = Interp(repo, MOD, {"pulp": lp.Pulp(w)}, cov=cov)
        if none_solver:
            w.default_solver = None
        rec = Recorder()
        recv = receiver(it, regs, rec, fcfs=True)
        if entry[0] == "dot_bracket":
            kind, val = attempt(lambda: it.call_member(recv, "dot_bracket"))
        else:
            kind, val = attempt(lambda: it.call_member(recv, "convert_to_dot_bracket", w.default_solver))
        return kind, val, rec, w

    entry = ["convert_to_dot_bracket"]
    n_models = 0
    names_follow_format = True
    try:
        # no crossing: round brackets, the solver is not touched
        for regs in (embed(((0, 3), (1, 2))), embed(((0, 1), (2, 3), (4, 5))), []):
            kind, val, rec, w = run(regs, None)
            if kind != "value" or rec.levels_of(val) != [0] * len(regs):
                report("milp-empty-graph", "empty-exit", f"for the pseudoknot-free stems {show(regs)} convert_to_dot_bracket gives {val!r}, not every stem on level 0", [0] * len(regs), repr(val))
        # the model is read twice: as convert_to_dot_bracket(solver) builds it, and as the entry point BpSeq.dot_bracket has it
        # built (whatever that property passes on - a cap, another solver - is part of "the" notation of the structure)
        for via, regs in [(v, r) for v in ("convert_to_dot_bracket", "dot_bracket") for r in model_cases()]:
            entry[0] = via
            what = f"the stems {show(regs)} with lengths {[r[2] for r in regs]} ({relation_text(regs)})" + (", model built through the entry point BpSeq.dot_bracket" if via == "dot_bracket" else "")
            adj = adjacency(regs)
            delta = max(len(v) for v in adj.values())
            store: Dict[str, Any] = {}
            kind, val, rec, w = run(regs, None, store)
            if kind != "value":
                report("milp-model-sites", f"raise-{type(getattr(val, 'exc', val)).__name__}", f"building / reading back the model {'raises ' + str(val) if kind == 'raise' else 'does not finish'} for {what}", site=site_of(fi, getattr(val, "lineno", None)))
                continue
            prob = store.get("problem")
            if prob is None:
                report("milp-model-sites", "no-solve", f"no model is handed to the solver for {what} although stems cross")
                continue
            n_models += 1
            variables = prob.variables()
            names = [v.name for v in variables]
            if len(set(names)) != len(names):
                report("milp-name-format", "name-collision", f"variable names collide for {what}: {sorted(n for n in set(names) if names.count(n) > 1)[:4]}")
                continue
            base = rec.levels_of(val)
            if base is None or any(base):
                report("milp-readback", "readback-zero", f"with no variable selected the read-back gives levels {base} for {what}; levels must start as 0 for every stem", [0] * len(regs), base)
                continue
            # what does the program itself take each variable to mean?  one-hot solutions through the read-back
            mu: Dict[str, Tuple[int, int]] = {}
            silent: List[str] = []
            bad_probe = None
            for v in variables:
                k2, val2, rec2, _ = run(regs, {v.name: 1})
                if k2 != "value" or rec2.levels_of(val2) is None:
                    bad_probe = (v.name, str(val2))
                    break
                lv = rec2.levels_of(val2)
                diff = [i for i in range(len(regs)) if lv[i] != 0]
                if len(diff) == 1:
                    mu[v.name] = (diff[0], lv[diff[0]])
                elif not diff:
                    silent.append(v.name)
                else:
                    bad_probe = (v.name, f"levels {lv}")
                    break
            if bad_probe:
                report("milp-readback", "readback-probe", f"selecting only variable {bad_probe[0]} makes the read-back give {bad_probe[1]} for {what}: one selected variable must set the level of exactly one stem")
                continue
            eqs = [c for c in prob.constraints if c.sense == "=="]
            ineqs = [c for c in prob.constraints if c.sense != "=="]
            groups = [sorted(v.name for v in c.expr.terms) for c in eqs]
            split = None
            for g in groups:
                known = {mu[nm][0] for nm in g if nm in mu}
                unk = [nm for nm in g if nm not in mu]
                if len(known) == 1 and len(unk) == 1 and unk[0] in silent:
                    mu[unk[0]] = (next(iter(known)), 0)
                elif len(known) > 1 and split is None:
                    split = g
            if split is not None:
                report("milp-readback", "readback-roles", f"for {what} the variables {split} are bound by one exactly-one-level constraint (the model treats them as the levels of ONE stem) but the read-back takes them for stems {sorted({mu[nm][0] for nm in split if nm in mu})} (" + ", ".join(f"{nm} -> stem {mu[nm][0]} level {mu[nm][1]}" for nm in split if nm in mu) + "): the (stem, level) fields of the variable name are not parsed in the order they were written", found={nm: list(mu[nm]) for nm in split if nm in mu})
                continue
            unmapped = [nm for nm in names if nm not in mu]
            if not eqs:
                report("milp-one-level", "one-level-missing", f"the model for {what} has no `sum of a stem's variables == 1` constraint: a stem may get no level or several", found=[str(c) for c in prob.constraints][:6])
                continue
            if unmapped:
                report("milp-one-level", "one-level-groups", f"the variables {unmapped[:4]} of the model for {what} are not one stem's level-0 variable inside an exactly-one-level constraint (as the read-back interprets them): the exactly-one-level family does not range over the levels of one stem", found=groups[:4])
                continue
            inv = {ik: nm for nm, ik in mu.items()}
            if len(inv) != len(mu):
                report("milp-name-format", "mu-not-injective", f"two variables of the model for {what} are read back as the same (stem, level)")
                continue
            levels = sorted({k for _, k in mu.values()})
            B = len(levels)
            full = levels == list(range(B)) and set(mu.values()) == {(i, k) for i in range(len(regs)) for k in range(B)}
            if not full:
                report("milp-variables", "var-index", f"the variables of the model for {what} are read back as {sorted(mu.values())}: not one variable per (stem, level) over all stems x levels 0..B-1", found=sorted(mu.values()))
                continue
            for nm, (i, k) in mu.items():
                if nm != f"x_{i}_{k}":
                    names_follow_format = False
            if B < delta + 1:
                report("milp-bound", "bound", f"the model for {what} offers {B} level(s) but a stem crosses {delta} others: fewer than max degree + 1 levels can make the model infeasible or exclude the optimum", delta + 1, B)
            for v in variables:
                if not (v.cat == "Integer" and v.lowBound == 0 and v.upBound == 1):
                    report("milp-binary", "var-category", f"decision variable {v.name} is not binary (cat={v.cat}, bounds {v.lowBound}..{v.upBound}): fractional assignments become feasible and the `== 1` read-back can select nothing", found=f"{v.cat} {v.lowBound}..{v.upBound}")
                    break
            # exactly one level per stem
            eq_sets = set()
            for c in eqs:
                terms, sense, rhs = c.normal()
                coefs = {cf for _, cf in terms}
                members_ = sorted(mu[nm] for nm, _ in terms)
                region = {i for i, _ in members_}
                ok = coefs == {1} and rhs == 1 and len(region) == 1 and [k for _, k in members_] == list(range(B))
                if coefs == {-1} and rhs == -1:
                    ok = len(region) == 1 and [k for _, k in members_] == list(range(B))
                if not ok:
                    report("milp-one-level", "one-level", f"constraint `{c}` of the model for {what} is not `sum over all levels of one stem == 1`", found=str(c))
                else:
                    eq_sets.add(next(iter(region)))
            if eq_sets != set(range(len(regs))) and "one-level" not in seen:
                report("milp-one-level", "one-level-cover", f"stems {sorted(set(range(len(regs))) - eq_sets)} of {what} have no exactly-one-level constraint")
            # adjacent stems never share a level
            want_adj = {(min(i, j), max(i, j), k) for i in adj for j in adj[i] for k in range(B)}
            got_adj = set()
            for c in ineqs:
                terms, sense, rhs = c.normal()
                if sense == ">=":
                    terms, sense, rhs = tuple((nm, -cf) for nm, cf in terms), "<=", -rhs
                mem = sorted(mu[nm] for nm, _ in terms)
                ok = sense == "<=" and {cf for _, cf in terms} == {1} and rhs == 1 and len(mem) == 2 and mem[0][1] == mem[1][1] and mem[0][0] != mem[1][0]
                if ok and (mem[0][0], mem[1][0], mem[0][1]) in want_adj:
                    got_adj.add((mem[0][0], mem[1][0], mem[0][1]))
                elif ok:
                    report("milp-adjacency", "adjacency-extra", f"constraint `{c}` of the model for {what} forbids stems #{mem[0][0]} and #{mem[1][0]} to share level {mem[0][1]} although they do not cross: proper assignments are excluded", found=str(c))
                else:
                    report("milp-adjacency", "adjacency-form", f"constraint `{c}` of the model for {what} is not `x[i,k] + x[j,k] <= 1` for two crossing stems i, j and one level k", found=str(c))
            if got_adj != want_adj and "adjacency-form" not in seen:
                i, j, k = sorted(want_adj - got_adj)[0]
                report("milp-adjacency", "adjacency-missing", f"the model for {what} lacks `x[{i},{k}] + x[{j},{k}] <= 1` although stems #{i} and #{j} cross ({len(want_adj - got_adj)} of {len(want_adj)} (edge, level) pairs unconstrained): crossing stems may share a level", found=sorted(got_adj)[:8])
            # objective
            obj = prob.objective
            if obj is None or not obj.terms:
                report("milp-objective-coeff", "objective-missing", f"the model for {what} has no objective: every proper assignment is 'optimal'")
            else:
                coef = {mu[v.name]: c for v, c in obj.terms.items() if v.name in mu}
                sgn = 1 if prob.sense == lp.LpMaximize else -1
                if prob.sense not in (lp.LpMaximize, lp.LpMinimize):
                    report("milp-sense", "sense", f"problem sense is {prob.sense!r}")
                ref = {(i, k): (regs[i][2] if k == 0 else -k * regs[i][2]) for i in range(len(regs)) for k in range(B)}
                lam = None
                c00 = coef.get((0, 0), 0) * sgn
                if c00 > 0:
                    lam = c00 / ref[(0, 0)]
                okc = lam is not None and all(abs(coef.get(ik, 0) * sgn - lam * ref[ik]) < 1e-9 for ik in ref)
                if not okc:
                    flipped = all(abs(coef.get(ik, 0) * -sgn - (abs(coef.get((0, 0), 0)) / ref[(0, 0)]) * ref[ik]) < 1e-9 for ik in ref) and coef.get((0, 0), 0) != 0
                    if flipped:
                        report("milp-sense", "sense", f"the model for {what} {'minimises' if prob.sense == lp.LpMinimize else 'maximises'} an objective whose sign makes level 0 the worst choice: the problem must maximise +len on level 0 and -k*len on level k", "LpMaximize", "LpMinimize" if prob.sense == lp.LpMinimize else "LpMaximize with negated terms")
                    else:
                        worst = next((ik for ik in sorted(ref) if lam is None or abs(coef.get(ik, 0) * sgn - lam * ref[ik]) >= 1e-9), (0, 0))
                        report("milp-objective-coeff", "objective-coeff", f"in the model for {what} the objective coefficient of x[stem {worst[0]}, level {worst[1]}] is {coef.get(worst, 0) * sgn:g}, but {((lam or 1) * ref[worst]):g} is what matches the coefficient {c00:g} that level 0 of stem 0 carries (statement: +len on level 0, -k*len on level k, in one unit): the reward for level 0 and the penalties for higher levels are not weighed as stated, so a non-optimal assignment can win", {f"{i},{k}": ref[(i, k)] for i, k in sorted(ref)}, {f"{i},{k}": coef.get((i, k), 0) * sgn for i, k in sorted(ref)})
            if prob.objectives_set > 1:
                report("milp-model-sites", "objective-twice", f"the objective of the model for {what} is set {prob.objectives_set} times: only the last `problem += <expression>` counts")
            # read-back of complete solutions: the optimum and an assignment that uses the top level
            opt = optimum(regs)
            top = list(range(len(regs))) if B >= len(regs) else opt
            for sol in (opt, top):
                if max(sol) >= B:
                    continue
                k3, val3, rec3, _ = run(regs, {inv[(i, k)]: 1 for i, k in enumerate(sol)})
                if k3 != "value" or rec3.levels_of(val3) != list(sol):
                    report("milp-readback", "readback", f"the solver's assignment {list(sol)} for {what} is read back as {rec3.levels_of(val3) if k3 == 'value' else str(val3)}", list(sol), rec3.levels_of(val3) if k3 == "value" else str(val3))
        entry[0] = "convert_to_dot_bracket"
        # levels and stems with two-digit indices: eleven mutually crossing stems
        ladder = [(10 * (i + 1), 10 * (i + 1) + 500, 1 + i % 3) for i in range(11)]
        if not seen:
            sol = [(3 * i + 10) % 11 for i in range(11)]  # a permutation of 0..10: stem 0 -> level 10, stem 10 -> level 7 ...
            if names_follow_format:
                values = {f"x_{i}_{k}": 1 for i, k in enumerate(sol)}
                k4, val4, rec4, _ = run(ladder, values)
                got = rec4.levels_of(val4) if k4 == "value" else str(val4)
                if got != sol:
                    report("milp-readback", "readback-wide", f"for 11 mutually crossing stems the solver's assignment {sol} (levels and stem numbers above 9) is read back as {got}: the parsing of the variable name loses a digit", sol, got)
            else:
                chk.ok("milp-readback", fi.where, "variable names do not follow x_<stem>_<level>; two-digit indices are not probed")
        # the fault paths belong to the function too (their verdicts are C13's; here they only have to be reached)
        run(KNOTTED, None, outcome=_raising_outcome)
        run(KNOTTED, None, outcome=_status_outcome(lp.LpStatusNotSolved))
        run(KNOTTED, None, outcome=_status_outcome(lp.LpStatusInfeasible))
        run(KNOTTED, None, none_solver=True)
    except NotEvaluable as ex:
        return str(ex)
    if not seen:
        gap = reached_all(repo, cov, [fi])
        if gap:
            return gap
    if not seen:
        chk.ok("milp-empty-graph", fi.where, "evaluated: without crossings every stem gets level 0 and no solver is used")
        for rule, text in (
            ("milp-variables", "one variable per (stem, level) over all stems x levels 0..B-1 (as the read-back itself interprets each variable: one-hot solutions)"),
            ("milp-bound", "B >= max degree + 1"),
            ("milp-binary", "every variable is integer in [0,1]"),
            ("milp-one-level", "exactly the constraints `sum over the levels of a stem == 1`, one per stem"),
            ("milp-adjacency", "exactly the constraints x[i,k] + x[j,k] <= 1 for every crossing pair and every level"),
            ("milp-objective-coeff", "maximise +len on level 0 and -k*len on level k (stems of 2, 3, 5, 7 pairs; one common positive factor)"),
            ("milp-sense", "the problem maximises"),
            ("milp-readback", "complete solver assignments (the optimum, one using the top level, two-digit levels) are read back unchanged; unselected stems stay on level 0"),
            ("milp-name-format", "variable names are distinct and each is read back as the (stem, level) it was created for"),
        ):
            chk.ok(rule, fi.where, f"evaluated on the models built for {n_models // 2} knotted stem sets (order types of 2-4 arcs), each through convert_to_dot_bracket(solver) and through BpSeq.dot_bracket: {text}")
    return None


def regions_fact(chk) -> Optional[str]:
    """BpSeq.__regions: (first 5' index, its partner, length) of every stem, in stem order."""
    repo = chk.repo
    fi = repo.func(MOD, f"{CLS}.__regions")
    chk.note_function(fi)
    it = Interp(repo, MOD)
    problem = None
    cases = [[], [(10, 30, 1)], [(10, 40, 3), (20, 30, 2)], [(20, 60, 2), (10, 40, 1), (30, 50, 3)]]
    try:
        for regs in cases:
            ents = entries_of(regs)
            recv = bpseq(it, ents, {"__stems_entries": stems_of(regs, ents)})
            kind, val = attempt(lambda: it.call_member(recv, "__regions"))
            want = [tuple(r) for r in regs]
            if kind != "value":
                problem = problem or (site_of(fi, getattr(val, "lineno", None)), f"BpSeq.__regions {'raises ' + str(val) if kind == 'raise' else 'does not finish'} for the stems {want}", want, None)
                continue
            try:
                got = [tuple(r) for r in val]
            except Exception:
                got = None
            if got != want and problem is None:
                problem = (fi.where, f"the region list for the stems {want} (first 5' index, partner, length) is {got}: a region does not describe its stem", want, got)
    except NotEvaluable as ex:
        return str(ex)
    if not problem:
        gap = reached_all(repo, it.cov, [fi])
        if gap:
            return gap
    if problem:
        chk.violation("region-triple", problem[0], problem[1], K(fi, "region-triple"), expected=problem[2], found=problem[3])
    else:
        chk.ok("region-triple", fi.where, "evaluated: region = (stem[0].index_, stem[0].pair, len(stem)) for every stem, in stem order")
    return None


def unsolved_readback_fact(chk, rule: str = "milp-readback-optimal") -> Optional[str]:
    """Solution values are consulted only after an optimal solve (every non-optimal status class, values absent)."""
    repo = chk.repo
    conv = repo.func(MOD, f"{CLS}.convert_to_dot_bracket")
    problem = None
    try:
        for status, sname in FAULT_STATUSES:
            w = lp.World(_status_outcome(status))
            it = Interp(repo, MOD, {"pulp": lp.Pulp(w)})
            rec = Recorder()
            recv = receiver(it, KNOTTED, rec, fcfs=True)
            kind, val = attempt(lambda: it.call_member(recv, "convert_to_dot_bracket", w.default_solver))
            reads = _value_reads(w)
            if kind == "value" and reads and not rec.is_fcfs(val) and problem is None:
                problem = (conv.where, f"with solver status '{sname}' variable values are read from the unsolved model and the notation with levels {rec.levels_of(val)} is returned for the crossing stems {show(KNOTTED)}: only `status == LpStatusOptimal` may reach the read-back")
            elif kind == "value" and not rec.is_fcfs(val) and problem is None:
                problem = (conv.where, f"with solver status '{sname}' convert_to_dot_bracket returns {val!r} instead of the FCFS notation")
            elif kind != "value" and problem is None:
                problem = (site_of(conv, getattr(val, "lineno", None)), f"with solver status '{sname}' convert_to_dot_bracket {'raises ' + str(val) if kind == 'raise' else 'does not finish'}")
    except NotEvaluable as ex:
        return str(ex)
    if problem:
        chk.violation(rule, problem[0], problem[1], K(conv, "readback-unguarded"))
    else:
        chk.ok(rule, conv.where, "evaluated on the four non-optimal status classes: no variable value is read, the FCFS value is returned")
    return None


def uses_fill_fact(chk) -> Optional[str]:
    """After an optimal solve convert_to_dot_bracket returns a notation rendered by the (verified) fill from the read-back levels."""
    repo = chk.repo
    fi = repo.func(MOD, f"{CLS}.convert_to_dot_bracket")
    try:
        w = lp.World(_by_name_solution([1, 0]))
        it = Interp(repo, MOD, {"pulp": lp.Pulp(w)})
        rec = Recorder()
        recv = receiver(it, KNOTTED, rec, fcfs=True)
        kind, val = attempt(lambda: it.call_member(recv, "convert_to_dot_bracket", w.default_solver))
    except NotEvaluable as ex:
        return str(ex)
    if kind == "value" and rec.levels_of(val) is not None and rec.calls:
        chk.ok("encoder-result-fact", fi.where, "evaluated: after an optimal solve the result is the notation rendered by the verified fill")
    else:
        chk.violation("encoder-result-fact", site_of(fi, getattr(val, "lineno", None)) if kind != "value" else fi.where, f"after an optimal solve convert_to_dot_bracket {'returns ' + repr(val)[:80] if kind == 'value' else ('raises ' + str(val) if kind == 'raise' else 'does not finish')} for the crossing stems {show(KNOTTED)}: not a notation built by __make_dot_bracket", K(fi, "uses-fill"))
    return None


def fill_fact(chk) -> Optional[str]:
    """BpSeq.__make_dot_bracket(regions, levels) on every level 0..29 and on nested / multi-pair stems, levels given as a
    list or a dict: the notation has one character per residue, stem t-th pair is written at (start-1+t, partner-1-t) with the
    bracket pair of its level, and the library's own decoder reads exactly these pairs back."""
    repo = chk.repo
    fi = repo.func(MOD, f"{CLS}.__make_dot_bracket")
    chk.note_function(fi)
    it = Interp(repo, MOD)
    problems: Dict[str, Tuple[str, str, Any, Any]] = {}
    length = 34
    seq = ("ACGUacgu" * 5)[:length]
    cases: List[Tuple[List[Region], Any]] = [([], [])]
    for k in range(len(REF_OPEN)):
        cases.append(([(3, 20, 2)], [k]))
    cases.append(([(1, 30, 3), (5, 12, 1), (8, 25, 2)], [0, 3, 1]))
    cases.append(([(1, 30, 3), (5, 12, 1), (8, 25, 2)], {0: 2, 1: 0, 2: 29}))
    cases.append(([(2, 34, 1), (10, 15, 3)], {1: 1, 0: 0}))
    try:
        for regs, levels in cases:
            recv = bpseq(it, [E(i + 1, c, 0) for i, c in enumerate(seq)], {"sequence": seq})
            lv = [levels[i] for i in range(len(regs))]
            kind, val = attempt(lambda: it.call_member(recv, "__make_dot_bracket", list(regs), levels if isinstance(levels, dict) else list(levels)))
            want = render(length, regs, lv)
            desc = f"regions {regs} with levels {lv}"
            if kind != "value":
                problems.setdefault("raise", (site_of(fi, getattr(val, "lineno", None)), f"BpSeq.__make_dot_bracket {'raises ' + str(val) if kind == 'raise' else 'does not finish'} for {desc}", want, None))
                continue
            key = db_key(val)
            if key is None:
                problems.setdefault("result", (fi.where, f"BpSeq.__make_dot_bracket returns {val!r}, not a DotBracket built from self.sequence and the written structure", None, None))
                continue
            if key[0] != seq:
                problems.setdefault("result", (fi.where, f"the notation does not carry self.sequence ({key[0]!r})", seq, key[0]))
            got = key[1]
            if not isinstance(got, str) or len(got) != length:
                problems.setdefault("width", (fi.where, f"the notation written for {desc} has {len(got) if isinstance(got, str) else '?'} characters for a sequence of {length}: one character per residue is required", length, len(got) if isinstance(got, str) else None))
                continue
            if got != want:
                i = next(i for i in range(length) if got[i] != want[i])
                stem = next((r for r in regs if r[0] - 1 <= i < r[0] - 1 + r[2] or r[1] - r[2] <= i <= r[1] - 1), None)
                if want[i] != "." and got[i] != "." :
                    why = f"position {i + 1} carries `{got[i]}`, the bracket of the stem's level is `{want[i]}` (encoder table and the statement's 30 bracket types disagree, or the wrong level / side is used)"
                    key_ = "alphabet"
                else:
                    why = f"position {i + 1} is `{got[i]}` but should be `{want[i]}`: the t-th pair of a stem (start, partner, n) belongs at start-1+t and partner-1-t for t in [0, n)"
                    key_ = "stores"
                problems.setdefault(key_, (fi.where, f"BpSeq.__make_dot_bracket for {desc}: {why}", want, got))
                continue
            pairs = val._attrs.get("pairs") if isinstance(val, Instance) else None
            want_pairs = sorted((s - 1 + t, e - 1 - t) for s, e, n in regs for t in range(n))
            if pairs is not None and sorted(tuple(p) for p in pairs) != want_pairs:
                problems.setdefault("roundtrip", (fi.where, f"the library's decoder reads the notation `{got}` written for {desc} back as {sorted(tuple(p) for p in pairs)}, not as the stems' pairs", want_pairs, sorted(tuple(p) for p in pairs)))
    except NotEvaluable as ex:
        return str(ex)
    if not problems:
        gap = reached_all(repo, it.cov, [fi])
        if gap:
            return gap
    rules = {"raise": "fill-stores", "result": "fill-result", "width": "fill-width", "alphabet": "alphabet-agree", "stores": "fill-stores", "roundtrip": "alphabet-agree"}
    for key, (site, msg, want, got) in problems.items():
        chk.violation(rules[key], site, msg, K(fi, f"fill-{key}"), expected=want, found=got)
    if not problems:
        chk.ok("fill-stores", fi.where, f"evaluated on {len(cases)} (regions, levels) inputs: pair t of a stem is written at start-1+t / partner-1-t with the bracket pair of the stem's level, for every level 0..29; levels given as list or dict")
        chk.ok("fill-width", fi.where, "the notation has one character per residue of self.sequence (evaluated)")
        chk.ok("fill-result", fi.where, "the result is a DotBracket of self.sequence and the written structure (evaluated)")
        chk.ok("alphabet-agree", fi.where, "level k is written with the k-th of the statement's 30 bracket types and the library's own decoder reads every such notation back as the stems' pairs (evaluated)")
    return None


# ---------------------------------------------------------------------------------------------------------------------
# decoder and text forms (C01)


def decode_ref(structure: str) -> Optional[List[Tuple[int, int]]]:
    stacks: Dict[str, List[int]] = {c: [] for c in REF_OPEN}
    close = dict(zip(REF_CLOSE, REF_OPEN))
    out = []
    for i, c in enumerate(structure):
        if c in stacks:
            stacks[c].append(i)
        elif c in close:
            if not stacks[close[c]]:
                return None
            out.append((stacks[close[c]].pop(), i))
    if any(stacks.values()):
        return None
    return sorted(out)


def decoder_fact(chk) -> Optional[str]:
    """DotBracket.__post_init__ on every balanced notation of <= 5 characters over two bracket types and on a notation
    using all 30 types: one LIFO stack per type - each closing character is paired with the most recent unmatched opening
    character of its own type."""
    repo = chk.repo
    fi = repo.func(MOD, "DotBracket.__post_init__")
    chk.note_function(fi)
    it = Interp(repo, MOD)
    cases = [""]
    for n in range(1, 6):
        for t in itertools.product(".()[]", repeat=n):
            s = "".join(t)
            if decode_ref(s) is not None:
                cases.append(s)
    cases.append(REF_OPEN + ".." + REF_CLOSE[::-1])
    cases.append("".join(o + c for o, c in zip(REF_OPEN, REF_CLOSE)))
    cases.append("((AA..aa))..<<>>{.}")
    problem = None
    try:
        dbc = it.class_ref("DotBracket")
        for s in cases:
            kind, val = attempt(lambda: dbc("N" * len(s), s))
            want = decode_ref(s)
            if kind != "value":
                problem = problem or (site_of(fi, getattr(val, "lineno", None)), f"decoding the balanced notation `{s}` {'raises ' + str(val) if kind == 'raise' else 'does not finish'}", want, None)
                continue
            try:
                got = sorted(tuple(p) for p in val._attrs.get("pairs"))
            except Exception:
                got = None
            if got != want and problem is None:
                why = ""
                if got is not None and want is not None and len(got) == len(want) and sorted(x for p in got for x in p) == sorted(x for p in want for x in p):
                    why = ": the same positions are paired differently - a closing character is not matched with the most recent unmatched opening character of its own type (one LIFO stack per bracket type)"
                elif got is not None and want is not None and len(got) < len(want):
                    why = ": pairs are lost (a bracket type is not decoded, or the scan stops early)"
                problem = (fi.where, f"the notation `{s}` is decoded as {got}, not as {want}{why}", want, got)
    except NotEvaluable as ex:
        return str(ex)
    if not problem:
        gap = reached_all(repo, it.cov, [fi])
        if gap:
            return gap
    if problem:
        chk.violation("decoder-fact", problem[0], problem[1], K(fi, "decode"), expected=problem[2], found=problem[3])
    else:
        chk.ok("decoder-fact", fi.where, f"evaluated on {len(cases)} balanced notations (every one of <= 5 characters over two bracket types, all 30 types nested and side by side): every closing character is paired with the most recent unmatched opening character of its type, every position is scanned")
    return None


def text_forms_fact(chk) -> Optional[str]:
    """BPSEQ text <-> entries, sequence, DotBracket.from_string, MultiStrandDotBracket.from_string on the classes of their input text."""
    repo = chk.repo
    fs = repo.func(MOD, f"{CLS}.from_string")
    st = repo.func(MOD, f"{CLS}.__str__")
    sq = repo.func(MOD, f"{CLS}.sequence")
    ds = repo.func(MOD, "DotBracket.from_string")
    ms = repo.func(MOD, "MultiStrandDotBracket.from_string")
    for f in (fs, st, sq, ds, ms):
        chk.note_function(f)
    it = Interp(repo, MOD)
    it.override_ctor("Entry", E)
    it.override_ctor(CLS, Built)
    problems: Dict[str, Tuple[str, str, str, Any, Any]] = {}
    try:
        # from_string: one entry per line with three fields, in order; blank lines and lines without three fields are skipped
        texts = [
            ("1 A 3\n2 c 0\n3 U 1\n", [(1, "A", 3), (2, "c", 0), (3, "U", 1)]),
            ("\n  1 A 3  \n\n2\tC\t0\n3 U 1", [(1, "A", 3), (2, "C", 0), (3, "U", 1)]),
            ("1 A 0\nthis line has four fields\n2 G\n3 U 0\n", [(1, "A", 0), (3, "U", 0)]),
            ("12 g 104\n13 n 0\n104 c 12\n", [(12, "g", 104), (13, "n", 0), (104, "c", 12)]),
            # the residue column is a free token: the library's own '?' for a missing residue, gap symbols, digits, multi-letter codes
            ("1 ? 6\n2 - 0\n3 . 0\n4 7 0\n5 PSU 0\n6 * 1\n7 X 0\n", [(1, "?", 6), (2, "-", 0), (3, ".", 0), (4, "7", 0), (5, "PSU", 0), (6, "*", 1), (7, "X", 0)]),
            ("", []),
        ]
        for text, want in texts:
            kind, val = attempt(lambda: it.call_member(it.instance(CLS), "from_string", text))
            got = [tuple(e) for e in val.entries] if kind == "value" and isinstance(val, Built) else None
            if kind != "value" or got != want:
                lost = [w for w in want if got is not None and w not in got]
                problems.setdefault("parse", ("bpseq-text", fs.where, f"BpSeq.from_string({text!r}) gives {got if kind == 'value' else str(val)}, not one Entry(int(index), residue token, int(pair)) per three-field line in order" + (f": the entry {lost[0]} is lost (a line `index token pair` is an entry whatever the residue token is - '?' is what the library itself writes for a missing residue)" if lost else ""), want, got))
        # __str__ and sequence
        ents = [E(1, "A", 3), E(2, "c", 0), E(3, "U", 1), E(14, "n", 0)]
        recv = bpseq(it, ents)
        kind, val = attempt(lambda: it.call_member(recv, "__str__"))
        if kind != "value" or val != "1 A 3\n2 c 0\n3 U 1\n14 n 0":
            problems.setdefault("str", ("bpseq-text", st.where, f"str(bpseq) is {val!r}, not `index letter pair` per entry joined by newlines", "1 A 3\n2 c 0\n3 U 1\n14 n 0", val if kind == "value" else str(val)))
        kind, val = attempt(lambda: it.call_member(recv, "sequence"))
        if kind != "value" or val != "AcUn":
            problems.setdefault("sequence", ("bpseq-sequence", sq.where, f"BpSeq.sequence is {val!r}, not the entries' letters in order", "AcUn", val if kind == "value" else str(val)))
        # DotBracket.from_string refuses different lengths
        kind, val = attempt(lambda: it.call_member(it.instance("DotBracket"), "from_string", "ACGU", "(..)"))
        if kind != "value" or db_key(val) != ("ACGU", "(..)"):
            problems.setdefault("db", ("dotbracket-length", ds.where, f"DotBracket.from_string('ACGU', '(..)') gives {val!r}", None, None))
        for a, b in (("ACGU", "(.)"), ("ACG", "(..)"), ("", ".")):
            kind, val = attempt(lambda: it.call_member(it.instance("DotBracket"), "from_string", a, b))
            if not (kind == "raise" and isinstance(val.exc, ValueError)):
                problems.setdefault("db-len", ("dotbracket-length", ds.where, f"DotBracket.from_string({a!r}, {b!r}) {'returns ' + repr(val) if kind == 'value' else 'raises ' + str(val)}: a notation whose length differs from the sequence must be refused with ValueError", "ValueError", repr(val)))
        # multi-strand text: strands numbered consecutively, concatenated in order
        text = ">strand_A\nACGu\n([.)\n>strand_B\nGG-n\n.]AA\nUU\naa\n"
        kind, val = attempt(lambda: it.call_member(it.instance("MultiStrandDotBracket"), "from_string", text))
        ok = kind == "value" and isinstance(val, Instance) and val._attrs.get("sequence") == "ACGuGG-nUU" and val._attrs.get("structure") == "([.).]AAaa"
        if ok:
            strands = [(s._attrs.get("first"), s._attrs.get("last"), s._attrs.get("sequence"), s._attrs.get("structure")) for s in val._attrs.get("strands", [])]
            ok = strands == [(1, 4, "ACGu", "([.)"), (5, 8, "GG-n", ".]AA"), (9, 10, "UU", "aa")]
        if not ok:
            problems.setdefault("multi", ("multistrand-text", ms.where, f"MultiStrandDotBracket.from_string does not number the strands consecutively and concatenate them in order: {val!r}"[:400], None, None))
        # classes of a line: what it starts with.  A structure line may start with any of the 61 structure characters - '>' (the
        # closing bracket of the 4th type) included -, a header starts with '>' too; with and without header lines
        for c in "." + REF_OPEN + REF_CLOSE:
            for headers in (True, False):
                # two strands, the second one's structure line starts with c; every bracket type balanced over the whole text
                if c == ".":
                    t1, t2 = "(..)", ".(.)"
                elif c in REF_OPEN:
                    t1, t2 = "(..)", c + "." + REF_CLOSE[REF_OPEN.index(c)] + "."
                else:
                    t1, t2 = "(" + REF_OPEN[REF_CLOSE.index(c)] + ").", c + "(.)"
                s1, s2 = "ACGU", "GGCC"
                text = (">strand_A\n" if headers else "") + f"{s1}\n{t1}\n" + (">strand_B\n" if headers else "") + f"{s2}\n{t2}\n"
                kind, val = attempt(lambda: it.call_member(it.instance("MultiStrandDotBracket"), "from_string", text))
                got = None
                if kind == "value" and isinstance(val, Instance):
                    got = (val._attrs.get("sequence"), val._attrs.get("structure"), [(x._attrs.get("first"), x._attrs.get("last"), x._attrs.get("structure")) for x in val._attrs.get("strands", [])])
                want = (s1 + s2, t1 + t2, [(1, 4, t1), (5, 8, t2)])
                if got != want:
                    problems.setdefault("multi-first-char", ("multistrand-text", ms.where, f"MultiStrandDotBracket.from_string loses or mis-pairs lines when a strand's structure line starts with `{c}` ({'with' if headers else 'without'} `>` header lines): {text!r} is read as {got if kind == 'value' else str(val)}", want, got))
    except NotEvaluable as ex:
        return str(ex)
    if not problems:
        gap = reached_all(repo, it.cov, [fs, st, sq, ds, ms])
        if gap:
            return gap
    for key, (rule, site, msg, want, got) in problems.items():
        chk.violation(rule, site, msg, f"{MOD}:text:{key}", expected=want, found=got)
    if not problems:
        chk.ok("bpseq-text", fs.where, "evaluated: a BPSEQ line 'i c j' becomes Entry(int(i), c, int(j)), lines in order, blank / malformed lines skipped; str() writes them back")
        chk.ok("bpseq-sequence", sq.where, "evaluated: sequence = the entries' letters in order")
        chk.ok("dotbracket-length", ds.where, "evaluated: a notation whose length differs from the sequence is refused")
        chk.ok("multistrand-text", ms.where, "evaluated: strands are numbered consecutively (first = previous last + 1) and concatenated in order")
    return None


# ---------------------------------------------------------------------------------------------------------------------
# the list as it is printed (tertiary.Mapping2D3D.all_dot_brackets)


def mapping_list_fact(chk) -> Optional[str]:
    """Mapping2D3D.all_dot_brackets on 1..4 strands of different lengths: one text per member of BpSeq.all_dot_brackets, in
    its order; strand i gets `>strand_<chain>`, its sequence and its own consecutive slice of the member's notation."""
    repo = chk.repo
    T3, MC = "tertiary", "Mapping2D3D"
    if not repo.has_func(T3, f"{MC}.all_dot_brackets"):
        return f"{MC}.all_dot_brackets not found"
    fi = repo.func(T3, f"{MC}.all_dot_brackets")
    chk.note_function(fi)
    it = Interp(repo, T3)
    problem = None
    lengths = [3, 5, 2, 4]
    n = 0
    # sizes the wrapper itself compares something with (a cap on the number of stems, residues ...): the stand-in structure is
    # given just fewer and just more stems than each such constant, so that both sides of the comparison are input classes
    thresholds = set()
    for c in ast.walk(fi.node):
        if isinstance(c, ast.Compare):
            for x in [c.left] + list(c.comparators):
                try:
                    v = it.ev(x, __import__("sa.microeval", fromlist=["Scope"]).Scope(it._module_scope(T3)), T3) if isinstance(x, (ast.Name, ast.Constant, ast.Attribute)) else None
                except Exception:
                    v = None
                if isinstance(v, int) and not isinstance(v, bool) and 1 <= v <= 5000:
                    thresholds.add(v)
    stem_counts = sorted({2} | {t + d for t in thresholds for d in (-1, 1)})
    try:
        for k, n_stems in [(k, 2) for k in range(1, 5)] + [(3, c) for c in stem_counts if c != 2]:
            strands = [("ABCD"[i], "ACGUACGU"[: lengths[i]]) for i in range(k)]
            total = sum(len(s) for _, s in strands)
            marks = "abcdefghijklmnopqrstuvwxyz"[:total]
            members = [_NS(sequence="".join(s for _, s in strands), structure=m) for m in (marks, marks.upper()[::-1])]
            stems = [_NS(strand5p=_NS(first=i + 1, last=i + 1), strand3p=_NS(first=2 * n_stems - i, last=2 * n_stems - i)) for i in range(n_stems)]
            stub = _NS(all_dot_brackets=list(members), dot_bracket=members[0], fcfs=members[0], elements=(stems, [], [], []), entries=[], pairs={}, sequence=members[0].sequence)
            recv = it.instance(MC, attrs={}, over={"bpseq": stub, "strands_sequences": list(strands)}, module=T3)
            kind, val = attempt(lambda: it.call_member(recv, "all_dot_brackets"))
            n += 1

            def text_of(structure: str) -> str:
                out, i = [], 0
                for chain, seq in strands:
                    out += [f">strand_{chain}", seq, structure[i : i + len(seq)]]
                    i += len(seq)
                return "\n".join(out)

            want = [text_of(m.structure) for m in members]
            if kind != "value":
                problem = problem or (site_of(fi, getattr(val, "lineno", None)), f"{MC}.all_dot_brackets {'raises ' + str(val) if kind == 'raise' else 'does not finish'} for {k} strand(s) of lengths {lengths[:k]} and {n_stems} stems", want, None)
            elif val != want and problem is None:
                got = list(val) if isinstance(val, (list, tuple)) else repr(val)
                why = ""
                if isinstance(val, list) and len(val) == len(want):
                    rows_g, rows_w = val[0].split("\n"), want[0].split("\n")
                    bad = next((i for i in range(min(len(rows_g), len(rows_w))) if rows_g[i] != rows_w[i]), None)
                    if bad is not None and bad % 3 == 2:
                        why = f": strand {bad // 3 + 1} of {k} is given `{rows_g[bad]}` instead of its own slice `{rows_w[bad]}` of the notation (slices must be consecutive: each starts where the previous one ended)"
                if isinstance(val, list) and len(val) != len(want):
                    why = f": {len(val)} text(s) for {len(want)} members of BpSeq.all_dot_brackets, for a structure with {n_stems} stems" + (f" (the wrapper compares a size with {sorted(thresholds)})" if thresholds and n_stems > 2 else "") + " - members of the list are dropped"
                problem = (fi.where, f"{MC}.all_dot_brackets for {k} strand(s) of lengths {lengths[:k]} is not one text per member of BpSeq.all_dot_brackets with every strand's own slice{why}", want, got)
    except NotEvaluable as ex:
        return str(ex)
    if not problem:
        ref = getattr(repo, "reference", {}).get(T3)
        for f in [fi] + [g for q, g in repo.module(T3).funcs.items() if q.startswith(MC + ".") and id(g.node) in it.cov and g is not fi and ref is not None and q not in ref.funcs]:
            gaps = coverage_gaps(it.cov, f.node)
            if gaps:
                return f"the input classes do not reach all of {f.qualname}: " + "; ".join(gaps)
    if problem:
        chk.violation("mapping-list-fact", problem[0], problem[1], f"{T3}:{MC}.all_dot_brackets:text", expected=problem[2], found=problem[3])
    else:
        chk.ok("mapping-list-fact", fi.where, f"evaluated on {n} strand sets (1..4 strands of lengths {lengths}, two members): one text per member of BpSeq.all_dot_brackets in its order, strand i with its own consecutive slice")
    return None
