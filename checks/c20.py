"""C20 - mmCIF item editing changes only its target; CLI output equals the library result.

Decided on transformer.py at fact level first (checks/c20e.py): copy_from_to, replace_value and main are evaluated as
whole functions on stub documents / stub command lines in a closed stub world (dict file system with buffering and
truncation, model of the mmcif adapter / container / DataCategory, argparse model, tagged library stubs for the CLI),
one representative per class of the input partition, with a coverage obligation (every statement reached).  The facts:
missing data / category / source item -> the input text itself; every row's target := its source ('.' and '?'
included), new item appended, nothing else changes, the *written* document contains the edit; first-seen mapping that
is returned; an alphabet shorter than the distinct values fails (a normal return cannot be the image of an injective mapping into
the alphabet); no state survives a call and a result belongs to its caller (call sequences in one process against fresh
processes); the tool writes exactly the text component of the library result for the content of the input file and the option
values as they were given (representatives on which reordering, de-duplication, case folding, stripping are visible),
on every path and whatever the result is (a new text / the input text itself / the empty text of an empty file; output
file stale, absent, or the input path itself), and touches nothing when no action is requested.

The pinned-form rules below (statement shapes at the pinned commit) are only the fallback when a function cannot be
evaluated (a construct outside the supported fragment).
"""
from __future__ import annotations

import ast
from typing import Any, Dict, List, Optional

from checks.c03 import K
from checks.c08 import flat
from sa import astq
from sa.flow import FlowMap, facts
from sa.model import AnalysisError, norm
from sa.types import FuncTypes, Types

M = "transformer"


def check_cli_args(chk) -> None:
    repo = chk.repo
    fi = repo.func(M, "main")
    chk.note_function(fi)
    # argparse: input/output are plain paths
    for a in astq.calls(fi.node, "add_argument"):
        if a.args and isinstance(a.args[0], ast.Constant) and a.args[0].value in ("input", "output"):
            ty = [norm(k.value) for k in a.keywords if k.arg == "type"]
            chk.expect(not ty, "cli-path-args", fi.site(a), f"`{a.args[0].value}` is a plain path", f"`{a.args[0].value}` is declared with type={ty[0] if ty else ''}: the file is opened (and an output truncated) while arguments are parsed, before the input was read" , K(fi, f"arg-type:{a.args[0].value}"))


def check_cli(chk) -> None:
    """Pinned-form fallback for main (used only when checks/c20e.py:check_cli cannot evaluate it)."""
    repo = chk.repo
    fi = repo.func(M, "main")
    chk.note_function(fi)
    fm = FlowMap(fi.node)
    # content: read of the input path
    reads = []
    for w in [s for s in ast.walk(fi.node) if isinstance(s, ast.With)]:
        for it in w.items:
            c = it.context_expr
            if isinstance(c, ast.Call) and norm(c.func) == "open" and c.args and norm(c.args[0]) == "args.input" and it.optional_vars is not None:
                mode = norm(c.args[1]) if len(c.args) > 1 else next((norm(k.value) for k in c.keywords if k.arg == "mode"), "'r'")
                fh = norm(it.optional_vars)
                for s in w.body:
                    if isinstance(s, ast.Assign) and norm(s.value) == f"{fh}.read()" and "w" not in mode:
                        reads.append((w, norm(s.targets[0])))
    if len(reads) != 1:
        chk.violation("cli-content", fi.where, "the input file is not read exactly once with open(args.input).read(): the library functions expect the document text, not a path", K(fi, "no-read"))
        content_var = None
    else:
        content_var = reads[0][1]
        chk.ok("cli-content", fi.site(reads[0][0]), f"`{content_var}` holds the text of args.input")
    lib = {}
    for name in ("copy_from_to", "replace_value"):
        for c in astq.calls(fi.node, name):
            lib[name] = c
            first = norm(c.args[0]) if c.args else next((norm(k.value) for k in c.keywords if k.arg == "file_content"), None)
            chk.expect(content_var is not None and first == content_var, "cli-content", fi.site(c), f"{name} receives the document text", f"{name} receives `{first}` as file_content, which is not the text read from args.input", K(fi, f"content:{name}"), found=first)
    # the parser hands an option over as the text that was given: a declaration that can change it (type=, nargs=, action=, const=, choices=, dest=)
    # is not decided by the forms below
    for a in astq.calls(fi.node, "add_argument"):
        odd = [k.arg for k in a.keywords if k.arg not in ("help", "metavar", "required", "default") and not (k.arg == "type" and norm(k.value) == "str")]
        if odd and a.args and isinstance(a.args[0], ast.Constant) and a.args[0].value not in ("input", "output"):
            chk.error("cli-wiring", fi.site(a), f"option `{a.args[0].value}` is declared with {', '.join(str(x) + '=' for x in odd)}: what reaches the library for a given text is not decided by the pinned forms (and main could not be evaluated)")
    # every way out of main except the end of its body: only the 'no action requested' exit (help / usage error) is known to the forms
    def _blocks(node):
        for n in ast.walk(node):
            for field in ("body", "orelse", "finalbody"):
                b = getattr(n, field, None)
                if isinstance(b, list) and b and isinstance(b[0], ast.stmt):
                    yield b
            if isinstance(n, ast.Try):
                for h in n.handlers:
                    yield h.body
    for block in _blocks(fi.node):
        for k, st in enumerate(block):
            leaves = isinstance(st, (ast.Return, ast.Raise)) or (isinstance(st, ast.Expr) and isinstance(st.value, ast.Call) and norm(st.value.func).split(".")[-1] in ("exit", "_exit", "quit", "abort"))
            if leaves and not (k and isinstance(block[k - 1], ast.Expr) and isinstance(block[k - 1].value, ast.Call) and norm(block[k - 1].value.func).split(".")[-1] in ("print_help", "print_usage", "error")):
                chk.error("cli-dispatch", fi.site(st), f"main leaves at `{norm(st)[:60]}` on a path the pinned forms do not know: whether the library result is written on every path is not decided (and main could not be evaluated)")
    chk.expect(set(lib) == {"copy_from_to", "replace_value"}, "cli-dispatch", fi.where, "both library functions are reachable from the CLI", "a library function is no longer called by the CLI", K(fi, "dispatch"))
    # option -> parameter wiring
    if "copy_from_to" in lib:
        a = [norm(x) for x in lib["copy_from_to"].args[1:]]
        chk.expect(a == ["args.category", "args.copy_from", "args.copy_to"], "cli-wiring", fi.site(lib["copy_from_to"]), "copy: (category, copy_from, copy_to)", f"copy_from_to receives {a}", K(fi, "wiring:copy"))
    if "replace_value" in lib:
        a = [norm(x) for x in lib["replace_value"].args[1:]]
        chk.expect(a == ["args.category", "args.replace", "args.values"], "cli-wiring", fi.site(lib["replace_value"]), "replace: (category, item, values)", f"replace_value receives {a}", K(fi, "wiring:replace"))
    # what is written is a str: result of copy (str) or the first component of replace's tuple
    ty = Types(repo)
    ft = FuncTypes(ty, fi)
    writes = [c for c in astq.calls(fi.node, "write") if c.args]
    ok_all = bool(writes)
    for w in writes:
        t = ft.of(w.args[0])
        good = t == "str"
        # name bound on both branches: every binding must be str
        if isinstance(w.args[0], ast.Name):
            good = True
            for st, val in astq.assignments(fi.node, w.args[0].id):
                if isinstance(st, ast.Assign):
                    tgt = st.targets[0]
                    if isinstance(tgt, ast.Name):
                        good = good and ft.of(val) == "str"
                    elif isinstance(tgt, ast.Tuple):
                        vt = ft.of(val)
                        idx = [i for i, e in enumerate(tgt.elts) if isinstance(e, ast.Name) and e.id == w.args[0].id]
                        good = good and isinstance(vt, tuple) and vt[0] == "tuple" and idx and vt[1][idx[0]] == "str"
        chk.expect(good, "cli-writes-str", fi.site(w), f"`{norm(w.args[0])}` written to the output is the str the library returned", f"`{norm(w.args[0])}` written to the output is not (only) the text component of the library result (replace_value returns a (text, mapping) tuple)", K(fi, "write-type"), found=str(t))
    # output opened after the input was read
    outs = []
    for w in [s for s in ast.walk(fi.node) if isinstance(s, ast.With)]:
        for it in w.items:
            c = it.context_expr
            if isinstance(c, ast.Call) and norm(c.func) == "open" and c.args and norm(c.args[0]) == "args.output":
                outs.append(w)
    opens = [c for c in ast.walk(fi.node) if isinstance(c, ast.Call) and norm(c.func) == "open" and c.args and norm(c.args[0]) == "args.output"]
    ok = len(outs) == 1 and len(opens) == 1 and reads and reads[0][0].lineno < outs[0].lineno and all(c.lineno < outs[0].lineno for c in lib.values())
    if not ok and opens and reads:
        # positive evidence: an open of the output path (truncating) is evaluated before, or around, the read of the input
        first_open = min(opens, key=lambda c: (c.lineno, c.col_offset))
        rd = reads[0][0]
        encloses = any(any(rd is n for n in ast.walk(w)) for w in outs)
        before = first_open.lineno < rd.lineno
        late_lib = [c for c in lib.values() if c.lineno > first_open.lineno]
        if encloses or before or late_lib:
            why = "the output is opened around the read of the input" if encloses else ("the output is opened before the input is read" if before else "the output is opened before the result is computed")
            chk.violation("cli-open-order-evidence", fi.site(first_open), f"{why}: opening for writing truncates the file, so with output == input (in-place use) the document is empty when it is read, and a failing transformation leaves an empty output", K(fi, "open-order"))
            ok = True  # reported above with evidence; do not repeat as a form mismatch
    chk.expect(ok, "cli-open-order", fi.where, "the output is opened for writing after the input was read and transformed (in-place use is safe)", "the output file is not opened after the input was read and the result computed: with output == input the document is truncated first", K(fi, "open-order"))
    body = [flat(s) for s in outs[0].body] if outs else []
    chk.expect(body == [flat(f"f.write({norm(writes[0].args[0])})")] if writes else False, "cli-writes-str", fi.where, "the output receives exactly one write of the result", "the output is not written by a single f.write(result)", K(fi, "single-write"))


def check_library(chk, only=None) -> None:
    """Pinned-form fallback for the library functions named in `only` (used only when checks/c20e.py cannot evaluate them)."""
    repo = chk.repo
    for q, is_replace in (("copy_from_to", False), ("replace_value", True)):
        if only is not None and q not in only:
            continue
        fi = repo.func(M, q)
        chk.note_function(fi)
        fm = FlowMap(fi.node)
        p = fi.node.args.args[0].arg
        # early exits return the input itself
        stores = [s for s in ast.walk(fi.node) if isinstance(s, ast.Assign) and isinstance(s.targets[0], ast.Subscript) and norm(s.targets[0].value) == "row"] + [c for c in astq.calls(fi.node, "append") if norm(c.func.value) == "row"]
        first_store = min((getattr(s, "lineno", 10**9) for s in stores), default=10**9)
        early = [r for r in astq.walk_no_nested(fi.node) if isinstance(r, ast.Return) and r.lineno < first_store]
        want = f"({p}, {{}})" if is_replace else p
        chk.expect(len(early) == 2 and all(norm(r.value) == want for r in early), "early-exit-identity", fi.where, f"missing category / item: returns `{want}` - the input untouched", f"an early exit does not return the input itself ({[norm(r.value) for r in early]})", K(fi, "early-exit"), found=[norm(r.value) for r in early])
        conds = sorted(norm(g.test) for r in early for g in fm.of(r).guards[-1:])
        item = "column" if is_replace else "copy_from"
        chk.expect(conds == sorted([f"len(data) == 0 or category not in data[0].getObjNameList()", f"{item} not in attributes"]), "early-exit-identity", fi.where, "the exits are: no data / category absent, source item absent", f"early-exit conditions changed: {conds}", K(fi, "early-conds"))
        # the edit reaches the written document
        attrs = astq.first_assign(fi.node, "attributes")
        rows_loop = [l for l in fi.node.body if isinstance(l, ast.For)]
        # the accessors hand out the category's own lists; a copying constructor around one of them makes the edit private
        accessors = {a: [c for c in ast.walk(fi.node) if isinstance(c, ast.Call) and isinstance(c.func, ast.Attribute) and c.func.attr == a] for a in ("getAttributeList", "getRowList")}
        copied = [c for c in ast.walk(fi.node) if isinstance(c, ast.Call) and c.args and isinstance(c.args[0], ast.Call) and isinstance(c.args[0].func, ast.Attribute) and c.args[0].func.attr in accessors and norm(c.func).split(".")[-1] in ("list", "tuple", "sorted", "copy", "deepcopy")]
        copied += [c for c in ast.walk(fi.node) if isinstance(c, ast.Subscript) and isinstance(c.slice, ast.Slice) and isinstance(c.value, ast.Call) and isinstance(c.value.func, ast.Attribute) and c.value.func.attr in accessors]
        repl = [c for c in astq.calls(fi.node, "DataCategory")]
        effective = any(c.args and norm(c.args[0]) == "category" for c in repl)
        found = [norm(attrs) if attrs is not None else None] + [norm(c)[:60] for c in repl]
        if effective or (not copied and all(accessors.values())):
            chk.ok("edit-reaches-output", fi.where, "rows and attributes are the category's own lists (edited in place), so the written document contains the edit")
        elif copied:
            chk.violation("edit-reaches-output", fi.site(copied[0]), f"`{norm(copied[0])[:70]}` is a private copy of the category's list and the category is 'replaced' by DataCategory(<object>, ...), which does not install it: the written document lacks the edit (e.g. a new target item)", K(fi, "in-place"), found=found)
        else:
            chk.error("edit-reaches-output", fi.where, "how the rows / attributes of the category are reached is not recognised (no getAttributeList() / getRowList() accessor)")
        wr = [c for c in astq.calls(fi.node, "writeFile")]
        rets = [r for r in astq.walk_no_nested(fi.node) if isinstance(r, ast.Return) and r.lineno > first_store]
        want_ret = "(f.read(), mapping)" if is_replace else "f.read()"
        chk.expect(len(wr) == 1 and norm(wr[0]) == "adapter.writeFile(f.name, data)" and len(rets) == 1 and norm(rets[0].value) == want_ret, "result", fi.where, f"the edited document is serialised and returned ({want_ret})", "the result is not the re-serialised document" + (" together with the mapping" if is_replace else ""), K(fi, "result"))
        if len(rows_loop) != 1:
            chk.error("row-stores", fi.where, "row loop not found")
            continue
        loop = rows_loop[0]
        body = [flat(s) for s in loop.body]
        if not is_replace:
            want_body = [flat("i = attributes.index(copy_from)"), flat("j = attributes.index(copy_to)"), flat("if j >= len(row):\n    row.append(row[i])\nelse:\n    row[j] = row[i]"), flat("transformed.append(row)")]
            chk.expect(body == want_body, "row-stores", fi.site(loop), "each row: target column := source column (append when the target item is new); nothing else is written", "the per-row edit is not `row[index(copy_to)] = row[index(copy_from)]` (append for a new item) - another column or direction is written", K(fi, "row-body"), expected=want_body, found=body)
            new = [s for s in fi.node.body if isinstance(s, ast.If) and norm(s.test) == "copy_to not in attributes"]
            chk.expect(len(new) == 1 and [norm(s) for s in new[0].body] == ["attributes.append(copy_to)"] and new[0].lineno < loop.lineno, "new-item", fi.where, "a new target item is appended to the attribute list before the rows are edited", "a missing target item is not appended to the attributes", K(fi, "new-item"))
        else:
            want_body = [flat("i = attributes.index(column)"), flat("if row[i] not in mapping:\n    mapping[row[i]] = values[len(mapping)]"), flat("row[i] = mapping[row[i]]"), flat("transformed.append(row)")]
            chk.expect(body == want_body, "row-stores", fi.site(loop), "each row: target := image under a first-seen mapping (next unused symbol of `values`)", "the per-row replacement is not `row[i] = mapping[row[i]]` with mapping[new value] = values[len(mapping)] - the mapping is not first-seen/injective or another column is written", K(fi, "row-body"), expected=want_body, found=body)
            mi = astq.first_assign(fi.node, "mapping")
            chk.expect(mi is not None and norm(mi) == "{}", "row-stores", fi.where, "the mapping starts empty", "mapping is not initialised empty", K(fi, "mapping-init"))


def check_library_eval(chk, only=None) -> None:
    """Fallback: the editing fragment of a library function (from the attribute list to the re-serialisation) evaluated on small categories:
    only the target column changes, a new target item is appended to every row, the mapping is first-seen and injective."""
    from sa.blockeval import BlockEval, Unknown

    repo = chk.repo
    only = ("copy_from_to", "replace_value") if only is None else only

    class _Cat:
        _folder_stub = True

        def __init__(s2, attrs, rows):
            s2.attrs, s2.rows = attrs, rows

        def getAttributeList(s2):
            return s2.attrs

        def getRowList(s2):
            return s2.rows

    def fragment(fi):
        body = fi.node.body
        a = [k for k, st in enumerate(body) if isinstance(st, ast.Assign) and norm(st.targets[0]) == "attributes"]
        b = [k for k, st in enumerate(body) if any(isinstance(c2, ast.Call) and isinstance(c2.func, ast.Attribute) and c2.func.attr in ("replace", "writeFile") for c2 in ast.walk(st))]
        if not a or not b or b[0] <= a[0]:
            return None
        return body[a[0] : b[0]]

    # ---- copy_from_to ------------------------------------------------------------------------------------
    fi = repo.func(M, "copy_from_to")
    frag = fragment(fi)
    if "copy_from_to" not in only:
        pass
    elif frag is None:
        chk.error("edit-eval", fi.where, "editing fragment of copy_from_to not found")
    else:
        cases = [
            ("existing target", ["a", "b", "c"], [["1", "2", "3"], ["4", "5", "6"]], "a", "c", ["a", "b", "c"], [["1", "2", "1"], ["4", "5", "4"]]),
            ("new target", ["a", "b", "c"], [["1", "2", "3"], ["4", "5", "6"]], "b", "d", ["a", "b", "c", "d"], [["1", "2", "3", "2"], ["4", "5", "6", "5"]]),
            ("target before source", ["a", "b", "c"], [["1", "2", "3"]], "c", "a", ["a", "b", "c"], [["3", "2", "3"]]),
            ("source = target", ["a", "b"], [["1", "2"]], "b", "b", ["a", "b"], [["1", "2"]]),
        ]
        bad = []
        try:
            for tag, attrs, rows, src, dst, want_attrs, want_rows in cases:
                attrs2, rows2 = list(attrs), [list(r) for r in rows]
                ev = BlockEval(repo, M, {"category_obj": _Cat(attrs2, rows2), "file_content": "DOC", "copy_from": src, "copy_to": dst, "category": "cat"})
                kind, val = ev.run(frag)
                if kind != "fall":
                    bad.append(f"{tag}: the fragment leaves early ({kind} {val!r})")
                elif attrs2 != want_attrs or rows2 != want_rows:
                    bad.append(f"{tag} ({src} -> {dst}): category becomes {attrs2} {rows2}, expected {want_attrs} {want_rows}")
            chk.expect(not bad, "edit-eval", fi.where, f"copy_from_to: {len(cases)} categories evaluated - each row's target := its source (appended when the item is new), nothing else changes, edits are made on the category's own lists", "copy_from_to edits wrongly: " + "; ".join(bad[:2]), K(fi, "edit-eval"), found=bad[:4])
        except Unknown as ex:
            chk.error("edit-eval", fi.where, f"copy_from_to fragment not evaluable: {ex}")
        except Exception as ex:
            chk.violation("edit-eval", fi.where, f"copy_from_to raises {type(ex).__name__} ({ex}) on a small category", K(fi, "edit-raises"))
    # ---- replace_value ------------------------------------------------------------------------------------
    fi = repo.func(M, "replace_value")
    frag = fragment(fi)
    if "replace_value" not in only:
        pass
    elif frag is None:
        chk.error("edit-eval", fi.where, "editing fragment of replace_value not found")
    else:
        cases = [
            ("repeated values", ["a", "b", "c"], [["1", "p", "3"], ["4", "q", "6"], ["7", "p", "9"]], "b", "XYZ", [["1", "X", "3"], ["4", "Y", "6"], ["7", "X", "9"]], {"p": "X", "q": "Y"}),
            ("first column", ["a", "b"], [["u", "1"], ["v", "2"], ["u", "3"], ["w", "4"]], "a", "0123", [["0", "1"], ["1", "2"], ["0", "3"], ["2", "4"]], {"u": "0", "v": "1", "w": "2"}),
            ("value equal to a symbol", ["a"], [["Y"], ["X"]], "a", "XY", [["X"], ["Y"]], {"Y": "X", "X": "Y"}),
        ]
        bad = []
        try:
            for tag, attrs, rows, col, values, want_rows, want_map in cases:
                attrs2, rows2 = list(attrs), [list(r) for r in rows]
                ev = BlockEval(repo, M, {"category_obj": _Cat(attrs2, rows2), "file_content": "DOC", "column": col, "values": values, "category": "cat"})
                kind, val = ev.run(frag)
                if kind != "fall":
                    bad.append(f"{tag}: the fragment leaves early ({kind} {val!r})")
                elif attrs2 != attrs or rows2 != want_rows or ev.env.get("mapping") != want_map:
                    bad.append(f"{tag} (item {col}): rows become {rows2} with mapping {ev.env.get('mapping')}, expected {want_rows} with {want_map}")
            chk.expect(not bad, "edit-eval", fi.where, f"replace_value: {len(cases)} categories evaluated - the item's values are replaced through a first-seen injective mapping (next unused symbol), nothing else changes", "replace_value edits wrongly: " + "; ".join(bad[:2]), K(fi, "edit-eval"), found=bad[:4])
        except Unknown as ex:
            chk.error("edit-eval", fi.where, f"replace_value fragment not evaluable: {ex}")
        except Exception as ex:
            chk.violation("edit-eval", fi.where, f"replace_value raises {type(ex).__name__} ({ex}) on a small category", K(fi, "edit-raises"))


def check_memo(chk) -> None:
    """Pinned-form fallback (used only when the library functions cannot be evaluated; otherwise checks/c20e.py:_repeat_calls
    decides on the code whether a memo leaks an edited object): no memoisation of parsed (mutable) documents."""
    repo = chk.repo
    n = 0
    for q, g in sorted(repo.modules[M].funcs.items()):
        decs = [d for d in g.decorators if d.split("(")[0].split(".")[-1] in ("cache", "lru_cache")]
        if decs:
            n += 1
            chk.violation("memo-mutable", g.where, f"`@{decs[0]}` memoises {q}: the library edits the parsed containers in place, so a second call with the same text starts from the already edited document (and the cached object keeps changing)", K(g, "memo"))
    chk.ok("memo-mutable", f"src/rnapolis/{M}.py", "no function of the module is memoised")


def _fact_level(chk, fn, fi) -> "str | None":
    """Runs a fact-level rule group of checks/c20e.py; an internal failure is a reason to fall back, never a verdict."""
    try:
        return fn(chk, fi)
    except AnalysisError:
        raise
    except Exception as ex:  # pragma: no cover - defensive
        return f"internal {type(ex).__name__}: {ex}"


def run(chk) -> None:
    from checks import c20e

    chk.explanation = (
        "transformer.py decided by evaluating copy_from_to, replace_value and main as whole functions (ast interpreted by sa/blockeval.py + checks/c20e.py; nothing of rnapolis is imported or run) on one "
        "representative per class of their input partition in a closed stub world: documents with no block / without the category / without the source item / with '.', '?', quoted and repeated values / a new "
        "target item / a category without rows / a second untouched block; alphabets longer than, exactly as long as and shorter than the number of distinct values; sequences of calls on one text in one process (other source / same source, "
        "other target / identical call, results emptied by the caller) against the same calls in fresh processes; command lines with each option group complete, partial, absent, both, option values not in code-point "
        "order / with a repeated symbol / with capitals, blanks and punctuation, each with distinct paths (stale output file / output path that does not exist yet) and with output path == input path, and each for every class of the "
        "library result (a text naming the arguments / the input text itself, as the library returns it when the category or item is missing / the empty text of an empty input file). Stubs: dict file system (buffered writes, truncation at open-for-write, temporary files deleted on close), "
        "IoAdapterPy.readFile/writeFile, data container (replace installs only under an existing name), DataCategory (deep-copying constructor, getValueOrDefault returning the default for '.', '?', None), argparse "
        "(FileType opens while parsing), and for the CLI the library functions as stubs returning a text that names the arguments they received. Every statement of the evaluated functions must be reached by a "
        "representative. The pinned-form rules are only a fallback for a function that cannot be evaluated."
    )
    chk.trusted = ["CPython ast", "mmcif IoAdapterPy re-serialises untouched categories faithfully", "the stub model of mmcif DataCategory / DataContainer / IoAdapterPy in checks/c20e.py follows the library's documented behaviour"]
    chk.assumptions = ["values has enough symbols for the distinct values (an exception otherwise is the caller's contract; a normal return is a violation: no injective mapping into an alphabet with fewer symbols exists)", "only the first data block is edited (the rules use no document where the category also occurs in a later block)"]
    chk.robust |= {"cli-path-args", "cli-content", "cli-writes-str", "cli-wiring", "edit-eval", "memo-mutable", "cli-open-order-evidence", "edit-reaches-output", "early-exit-eval", "mapping-total", "repeat-eval", "default-alphabet", "cli-eval", "cli-inplace-eval"}
    chk.superseded.update({"row-stores": "edit-eval", "new-item": "edit-eval"})
    repo = chk.repo
    check_cli_args(chk)
    fi = repo.func(M, "main")
    chk.note_function(fi)
    why = cli_why = _fact_level(chk, c20e.check_cli, fi)
    if why is None:
        for rule, n in (("cli-eval", 60), ("cli-inplace-eval", 45)):
            chk.floor(rule, n)
    else:
        chk.ok("cli-facts", fi.where, f"fact-level reading of main not possible ({why[:160]}); falling back to the pinned forms")
        check_cli(chk)
        for rule, n in (("cli-content", 3), ("cli-writes-str", 2)):
            chk.floor(rule, n)
    fallback = []
    for q, fn in (("copy_from_to", c20e.check_copy), ("replace_value", c20e.check_replace)):
        fi = repo.func(M, q)
        chk.note_function(fi)
        why = _fact_level(chk, fn, fi)
        if why is not None:
            chk.ok("library-facts", fi.where, f"fact-level reading of {q} not possible ({why[:160]}); falling back to the pinned forms")
            fallback.append(q)
    if fallback:
        check_library(chk, fallback)
        check_library_eval(chk, fallback)
    else:
        for rule, n in (("early-exit-eval", 12), ("edit-eval", 17), ("mapping-total", 3), ("repeat-eval", 6), ("eval-coverage", 3 if cli_why is None else 2)):
            chk.floor(rule, n)
    if fallback:
        check_memo(chk)  # pinned form (any memoising decorator) only when the calls cannot be evaluated
    else:
        memo = sorted(q for q, g in repo.modules[M].funcs.items() if any(d.split("(")[0].split(".")[-1] in ("cache", "lru_cache") for d in g.decorators))
        chk.ok("memo-mutable", f"src/rnapolis/{M}.py", ("memoised: " + ", ".join(memo) if memo else "no function of the module is memoised") + " - whether a memo hands an edited object to a later call is decided by repeat-eval (call sequences in one process against fresh processes, results owned by the caller)")


MANIFEST_ENTRY = {
    "text": "Static decision on the current source of transformer.py: copy_from_to, replace_value and main are evaluated from their ast (nothing is imported or run) on one representative per class of their inputs in a stub world "
    "(dict file system, model of the mmcif adapter / container / DataCategory, argparse model). Facts decided: a missing block / category / source item returns the input text itself; every row's target becomes its source "
    "('.' and '?' included), a new item is appended, nothing else changes and the written document contains the edit; the first-seen mapping is applied and returned, and a call with an alphabet of too few symbols fails (a normal return "
    "cannot be an injective mapping into the alphabet); no state survives a call and a result belongs to its caller; the CLI writes exactly the text component of the library result for the content of the input file and the option values as given, on every path and whatever that result is (also the unchanged input text), also when output and input are the same path, and touches nothing without an action. "
    "The frame condition and the CLI path are never executed by the suite; here they are facts about every statement of the code (coverage obligation).",
    "note": "Trusted: mmcif library re-serialisation of untouched categories and its list-returning accessors.",
    "technique": "static analysis: whole-function evaluation of the ast on input-class representatives in a stub world (files, mmcif objects, argparse), coverage obligation; pinned-form rules as fallback",
}
