"""C01 - BPSEQ <-> dot-bracket conversion is lossless for every encoder.

Lemmas L1-L8 of DESIGN.md §4 C01, each decided on the current source of common.py:
  L1 stems are maximal stacked runs           (affine normal form of the run condition)
  L2 a region triple describes its stem       (def-use roles)
  L3 the conflict test is arc crossing        (truth table over all orderings; three consumers)
  L4 FCFS is first-fit over all earlier stems (loop shape + L3)
  L5 the fill writes exactly the stem         (affine loop summary)
  L6 encoder/decoder alphabets agree          (constant folding, sibling agreement)
  L7 the decoder keeps one LIFO stack per type
  L8 from_dotbracket writes pairs symmetrically with the +1 shift
"""
from __future__ import annotations

import ast
import re
import string
from typing import Any, Dict, List, Optional, Tuple

from sa import astq, ordertypes
from sa.consteval import Folder, NotConst
from sa.defuse import Inliner
from sa.flow import FlowMap, facts
from sa.model import AnalysisError, FuncInfo, norm
from sa.sym import Aff, SymEnv, atom_of, compare_atoms, normalise_rel, show_atom

MOD = "common"
N_LEVELS = 30
REF_OPEN = "([{<" + string.ascii_uppercase
REF_CLOSE = ")]}>" + string.ascii_lowercase


def K(fi: FuncInfo, what: str) -> str:
    return f"{fi.module.name}:{fi.qualname}:{what}"


def fact_first(chk, tag: str, where: str, why: Optional[str]) -> bool:
    """Fact-level rules (checks/c01e.py) run first; True when they decided.  Otherwise a note is recorded and the caller
    falls back to the pinned-form reading."""
    decided = chk.__dict__.setdefault("facts_decided", set())
    if why is None:
        decided.add(tag)
        return True
    chk.ok("fact-level", where, f"{tag}: fact-level evaluation not possible ({why[:160]}); falling back to the pinned forms")
    return False


def decided(chk, tag: str) -> bool:
    return tag in chk.__dict__.get("facts_decided", set())


# ------------------------------------------------------------------------------------------------
# L6 alphabets
# ------------------------------------------------------------------------------------------------
def local_value(chk, fi: FuncInfo, name: str) -> Any:
    """Fold the single assignment `name = <literal expr>` inside fi."""
    e = astq.single_def(fi.node, name)
    if e is None:
        raise AnalysisError(f"{fi.qualname}: local `{name}` is not bound exactly once by a simple assignment")
    try:
        return Folder(chk.repo, fi.module.name).fold(e)
    except NotConst as ex:
        raise AnalysisError(f"{fi.qualname}: `{name} = {norm(e)[:60]}` does not fold to a constant ({ex})")


def check_alphabet(chk) -> None:
    """L6: what the tables do is decided by value first - the fill on every level with the library's decoder reading it back,
    the decoder on every balanced notation, the multi-strand text on every structure character (checks/c01e.py).  The folded
    tables below are the fallback when one of these cannot be evaluated."""
    check_fill(chk)
    check_decoder(chk)
    check_text_forms(chk)
    if decided(chk, "fill") and decided(chk, "decoder") and decided(chk, "text-forms"):
        return
    try:
        check_alphabet_pinned(chk)
    except AnalysisError as ex:
        chk.error("alphabet-encoder", chk.repo.func(MOD, "BpSeq.__make_dot_bracket").where, f"bracket tables not readable: {ex}")


def check_alphabet_pinned(chk) -> None:
    repo = chk.repo
    mk = repo.func(MOD, "BpSeq.__make_dot_bracket")
    post = repo.func(MOD, "DotBracket.__post_init__")
    fcfs = repo.func(MOD, "BpSeq.fcfs")
    for fi in (mk, post, fcfs):
        chk.note_function(fi)
    brackets = local_value(chk, mk, "brackets")
    if isinstance(brackets, list) and all(isinstance(b, (tuple, list)) and len(b) == 2 and all(isinstance(c, str) and len(c) == 1 for c in b) for b in brackets):
        brackets = ["".join(b) for b in brackets]  # (opening, closing) pairs are the same table
    opening = local_value(chk, post, "opening")
    closing = local_value(chk, post, "closing")
    ok = (
        isinstance(brackets, list)
        and all(isinstance(b, str) and len(b) == 2 for b in brackets)
        and len(brackets) >= N_LEVELS
        and len(set("".join(brackets))) == 2 * len(brackets)
    )
    chk.expect(
        ok,
        "alphabet-encoder",
        mk.where,
        f"encoder table folds to {len(brackets) if isinstance(brackets, list) else '?'} distinct two-character bracket pairs",
        "encoder bracket table is not a list of >= 30 two-character pairs with all 60 characters distinct",
        K(mk, "brackets"),
        expected="30 pairs, 60 distinct characters",
        found=brackets,
    )
    enc_open = "".join(b[0] for b in brackets) if ok else None
    enc_close = "".join(b[1] for b in brackets) if ok else None
    chk.expect(
        enc_open == opening and enc_close == closing,
        "alphabet-agree",
        post.where,
        "decoder opening/closing strings equal the encoder table position by position",
        "encoder brackets and decoder opening/closing disagree: a level written by the encoder is read back as another type (or not at all)",
        K(post, "opening/closing"),
        expected={"opening": enc_open, "closing": enc_close},
        found={"opening": opening, "closing": closing},
    )
    chk.expect(
        enc_open == REF_OPEN and enc_close == REF_CLOSE,
        "alphabet-30",
        mk.where,
        "alphabet is ()[]{}<> followed by Aa..Zz (the 30 bracket types of the statement)",
        "bracket alphabet differs from the 30 types of the statement",
        K(mk, "alphabet"),
        expected=REF_OPEN + " / " + REF_CLOSE,
        found=f"{enc_open} / {enc_close}",
    )
    # matches: closing -> opening, position-wise
    m_expr = astq.single_def(post.node, "matches")
    if m_expr is None:
        raise AnalysisError("DotBracket.__post_init__: `matches` not bound once")
    try:
        matches = Folder(repo, MOD, {"opening": opening, "closing": closing}).fold(m_expr)
    except NotConst as ex:
        raise AnalysisError(f"matches does not fold: {ex}")
    want = {c: o for o, c in zip(opening, closing)} if isinstance(opening, str) and isinstance(closing, str) else None
    chk.expect(
        matches == want,
        "alphabet-matches",
        post.site(m_expr),
        "matches maps every closing character to the opening character at the same position",
        "matches does not pair closing and opening characters position-wise",
        K(post, "matches"),
        expected=want,
        found=matches,
    )
    # begins: one fresh list per opening character
    b_expr = astq.single_def(post.node, "begins")
    fresh = (
        isinstance(b_expr, ast.DictComp)
        and astq.match(b_expr.generators[0].iter, "opening") is not None
        and astq.same(b_expr.key, b_expr.generators[0].target)
        and (astq.match(b_expr.value, "list()") is not None or astq.match(b_expr.value, "[]") is not None)
    )
    shared = b_expr is not None and (astq.match(b_expr, "dict.fromkeys(opening, X_)") is not None or (isinstance(b_expr, ast.DictComp) and isinstance(b_expr.value, ast.Name)))
    if fresh:
        chk.ok("decoder-stacks-fresh", post.where, "begins holds one fresh list per opening character")
    elif shared:
        chk.violation("decoder-stacks-fresh", post.where, "all bracket types share one stack object: positions of different bracket types are mixed", K(post, "begins"), found=norm(b_expr))
    else:
        chk.error("decoder-stacks-fresh", post.where, f"construction of the per-type stacks not recognised: {norm(b_expr) if b_expr is not None else None}")
    # MultiStrandDotBracket structure class = '.' + all bracket characters
    ms = repo.func(MOD, "MultiStrandDotBracket.from_string")
    chk.note_function(ms)
    pats = [c.args[0] for c in astq.calls(ms.node, "finditer") if c.args]
    if not pats or not isinstance(pats[0], ast.Constant):
        chk.error("alphabet-multistrand", ms.where, "regular expression of from_string not found")
    else:
        classes = regex_classes(pats[0].value)
        want_cls = set("." + REF_OPEN + REF_CLOSE)
        hit = [c for c in classes if c == want_cls]
        chk.expect(
            bool(hit),
            "alphabet-multistrand",
            ms.site(pats[0]),
            "structure character class of MultiStrandDotBracket.from_string = '.' + the 60 bracket characters",
            "no character class of the regular expression equals '.' + the 60 bracket characters: some notation produced by the library would not be read back",
            K(ms, "structure-class"),
            found=["".join(sorted(c)) for c in classes],
        )


def check_fcfs_levels_pinned(chk) -> None:
    """Pinned form: the FCFS availability table is as long as the encoder's bracket table."""
    repo = chk.repo
    mk = repo.func(MOD, "BpSeq.__make_dot_bracket")
    fcfs = repo.func(MOD, "BpSeq.fcfs")
    try:
        brackets = local_value(chk, mk, "brackets")
    except AnalysisError:
        brackets = None
    ok = isinstance(brackets, list)
    av = astq.single_def(fcfs.node, "available")
    n_av = None
    if av is not None:
        _st = [st for st, v in astq.assignments(fcfs.node, "available") if v is av]
        if _st:
            av = Inliner(fcfs.node).inline(av, _st[0], stop=("regions",))
    if isinstance(av, ast.ListComp) and len(av.generators) == 1:
        try:
            n_av = len(Folder(repo, MOD).fold(av.generators[0].iter))
        except Exception:
            n_av = None
    elif av is not None:
        try:
            n_av = len(Folder(repo, MOD).fold(av))
        except Exception:
            n_av = None
    if n_av is None:
        chk.error("alphabet-fcfs-levels", fcfs.where, "length of `available` does not fold to a constant")
    else:
        chk.expect(
            n_av == len(brackets) if ok else False,
            "alphabet-fcfs-levels",
            fcfs.where,
            f"FCFS offers {n_av} levels = size of the encoder table",
            f"FCFS offers {n_av} levels but the encoder table has {len(brackets) if ok else '?'}: a level beyond the table raises IndexError / a usable level is never offered",
            K(fcfs, "available-length"),
            expected=len(brackets) if ok else None,
            found=n_av,
        )


def regex_classes(pattern: str) -> List[set]:
    """Character classes ([...]) of a regular expression as sets of characters (via re's own parser)."""
    import re._parser as sp  # type: ignore

    out: List[set] = []

    def walk(items):
        for op, av in items:
            name = str(op)
            if name == "IN":
                s = set()
                neg = False
                for o2, a2 in av:
                    n2 = str(o2)
                    if n2 == "LITERAL":
                        s.add(chr(a2))
                    elif n2 == "RANGE":
                        s.update(chr(c) for c in range(a2[0], a2[1] + 1))
                    elif n2 == "NEGATE":
                        neg = True
                if not neg:
                    out.append(s)
            elif name in ("MAX_REPEAT", "MIN_REPEAT"):
                walk(av[2])
            elif name == "SUBPATTERN":
                walk(av[3])
            elif name == "BRANCH":
                for b in av[1]:
                    walk(b)

    walk(sp.parse(pattern))
    return out


# ------------------------------------------------------------------------------------------------
# L3 conflict predicate (shared with C02, C16)
# ------------------------------------------------------------------------------------------------
def region_roles(env: SymEnv, test: ast.expr) -> Tuple[Dict[int, Tuple[Any, int]], List[Any]]:
    """Map every Name leaf of a comparison predicate to (region base atom, component)."""
    roles: Dict[int, Tuple[Any, int]] = {}
    bases: List[Any] = []
    for n in ast.walk(test):
        if isinstance(n, ast.Compare):
            for leaf in [n.left] + list(n.comparators):
                v = env.ev(leaf)
                a = atom_of(v) if isinstance(v, Aff) else None
                if not (isinstance(a, tuple) and a[0] == "item" and a[1] in (0, 1)):
                    raise ordertypes.NotOrderPredicate(f"operand `{norm(leaf)}` is not the first or second component of a region")
                roles[id(leaf)] = (a[2], a[1])
                if a[2] not in bases:
                    bases.append(a[2])
    return roles, bases


def crossing_table(env: SymEnv, test: ast.expr) -> Tuple[Tuple[bool, ...], List[Any]]:
    roles, bases = region_roles(env, test)
    if len(bases) != 2:
        raise ordertypes.NotOrderPredicate(f"predicate mentions {len(bases)} region(s), expected two")
    table = []
    for a0, a1, b0, b1 in ordertypes.crossing_orderings():
        rank = {(0, 0): a0, (0, 1): a1, (1, 0): b0, (1, 1): b1}

        def val(e, rank=rank):
            r = roles.get(id(e))
            return None if r is None else rank[(bases.index(r[0]), r[1])]

        table.append(ordertypes.evaluate(test, val))
    return tuple(table), bases


REF_TABLE = tuple(ordertypes.crossing_reference(*o) for o in ordertypes.crossing_orderings())


def check_conflict_test(chk, fi: FuncInfo, test: ast.expr, env: SymEnv, regions_atom: Any) -> Optional[List[Any]]:
    """The expression `test` decides adjacency of two regions: must equal arc crossing on all orderings."""
    site = fi.site(test)
    try:
        table, bases = crossing_table(env, test)
    except ordertypes.NotOrderPredicate as ex:
        chk.error("conflict-predicate", site, f"conflict test `{norm(test)[:80]}` not understood: {ex}")
        return None
    for b in bases:
        if not (isinstance(b, tuple) and b[0] == "item" and b[2] == regions_atom):
            chk.error("conflict-predicate", site, f"operand base {show_atom(b)} is not an element of the region list")
            return None
    chk.expect(
        table == REF_TABLE,
        "conflict-predicate",
        site,
        "conflict test is true exactly on the two crossing orderings of (k,l),(m,n) out of 6",
        f"conflict test `{norm(test)}` is not arc crossing: truth table over the 6 orderings of two arcs differs",
        K(fi, "conflict-predicate"),
        expected=dict(zip(map(str, ordertypes.crossing_orderings()), REF_TABLE)),
        found=dict(zip(map(str, ordertypes.crossing_orderings()), table)),
    )
    return bases


def regions_term(chk, fi: FuncInfo) -> Tuple[SymEnv, Any]:
    """Symbolic environment of fi and the atom naming its region list (local `regions`)."""
    env = SymEnv(fi.node)
    if not astq.assignments(fi.node, "regions"):
        raise AnalysisError(f"{fi.qualname}: no local `regions`")
    return env, atom_of(env.name("regions"))


def check_conflict_graph(chk, fi: FuncInfo) -> None:
    """The conflict graph of an encoder: fact level first (checks/c01e.py), pinned form as the fallback."""
    from checks import c01e

    if fact_first(chk, f"conflict-graph:{fi.qualname}", fi.where, c01e.graph_fact(chk, fi)):
        return
    check_conflict_graph_pinned(chk, fi)


def check_conflict_graph_pinned(chk, fi: FuncInfo) -> None:
    """convert_to_dot_bracket / all_dot_brackets: all unordered region pairs examined, edge iff crossing, both directions."""
    chk.note_function(fi)
    env, R = regions_term(chk, fi)
    # the If whose body adds to graph
    adds = [c for c in astq.calls(fi.node, "add") if isinstance(c.func.value, ast.Subscript) and astq.dotted(c.func.value.value) == "graph"]
    if len(adds) < 1:
        # the graph may be built elsewhere or in another way; what a missing / wrong graph does to the results is decided by the
        # evaluated rules of the consumers (enumeration-fact, milp-adjacency, fcfs-first-fit) - here the idiom is just not readable
        chk.error("conflict-graph", fi.where, "no `graph[i].add(j)` insertion found: construction of the conflict graph not recognised")
        return
    fm = FlowMap(fi.node)
    tests = []
    for a in adds:
        st = fm.stmt_of(a)
        gs = [g for g in fm.of(st).guards if g.kind == "if"]
        tests.append((a, st, gs))
    # all adds under the same single test
    inner = [gs[-1] for _, _, gs in tests if gs]
    if len(inner) != len(adds) or any(not astq.same(inner[0].test, g.test) or g.polarity is not True for g in inner):
        chk.error("conflict-graph", fi.where, "graph insertions are not all guarded by one positive conflict test")
        return
    # names are resolved in the scope of the pair loop (index names are commonly reused by later loops)
    scope = fm.of(fm.stmt_of(adds[0])).loops
    if scope:
        env = SymEnv(scope[0], parent=env)
    bases = check_conflict_test(chk, fi, inner[0].test, env, R)
    if bases is None:
        return
    idx = [b[1] for b in bases]  # atoms of the region indices
    edges = set()
    for a, _, _ in tests:
        src = atom_of(env.ev(a.func.value.slice))
        dst = atom_of(env.ev(a.args[0])) if a.args else None
        edges.add((src, dst))
    want = {(idx[0], idx[1]), (idx[1], idx[0])}
    chk.expect(
        edges == want,
        "conflict-graph",
        fi.site(adds[0]),
        "a crossing pair (i, j) is inserted as i->j and j->i",
        "the conflict graph is not symmetric / does not connect the two tested regions",
        K(fi, "graph-edges"),
        expected=sorted(f"{show_atom(a)}->{show_atom(b)}" for a, b in want),
        found=sorted(f"{show_atom(a)}->{show_atom(b)}" for a, b in edges),
    )
    # pairs enumerated: combinations(range(len(regions)), 2)
    loops = [l for l in fm.of(fm.stmt_of(adds[0])).loops]
    if not loops:
        chk.error("conflict-pairs", fi.where, "graph insertion is not inside a loop")
        return
    outer = loops[0]
    it = atom_of(env.ev(outer.iter)) if len(loops) == 1 else None
    want_it = ("call", "itertools.combinations", ("call", "range", ("len", R)), ("const", 2))
    if it is not None and isinstance(it, tuple) and it[:2] == ("call", "itertools.combinations"):
        chk.expect(
            it == want_it or it == ("call", "itertools.combinations", ("call", "enumerate", R), ("const", 2)),
            "conflict-pairs",
            fi.site(outer),
            "all unordered pairs of regions are examined: combinations(range(len(regions)), 2)",
            f"not all pairs of regions are examined: `{norm(outer.iter)}`",
            K(fi, "pairs"),
            expected="itertools.combinations(range(len(regions)), 2)",
            found=norm(outer.iter),
        )
        if any(isinstance(n, (ast.Break, ast.Continue, ast.Return)) for b in outer.body for n in ast.walk(b)):
            chk.violation("conflict-pairs", fi.site(outer), "the pair loop contains break/continue/return: some pairs may be skipped", K(fi, "pairs-skip"))
    else:
        chk.error("conflict-pairs", fi.site(outer), f"pair enumeration idiom not recognised: {norm(outer.iter) if len(loops) == 1 else 'nested loops'}")


# ------------------------------------------------------------------------------------------------
# L1 stems, L2 regions
# ------------------------------------------------------------------------------------------------
def check_stems(chk) -> None:
    repo = chk.repo
    st = repo.func(MOD, "BpSeq.__stems_entries")
    paired = repo.func(MOD, "BpSeq.paired")
    chk.note_function(st)
    chk.note_function(paired)
    # paired(only5to3=True): pair != 0 and index_ < pair
    conds = []
    for lam in [n for n in ast.walk(paired.node) if isinstance(n, ast.Lambda)]:
        env = SymEnv(lam)
        env.params = [a.arg for a in lam.args.args]
        atoms = compare_atoms(env, lam.body)
        if atoms is None:
            chk.error("stems-filter", paired.site(lam), f"filter `{norm(lam.body)}` not understood")
            return
        conds.extend((a.show(), r) for a, r in atoms)
    want = {("e[2]", "!="), ("e[2] - e[0]", ">")}
    got = set()
    for s, r in conds:
        got.add((re.sub(r"\b\w+\[", "e[", s), r))
    got_norm = set()
    for s, r in got:
        if s in ("e[0] - e[2]",):
            s, r = "e[2] - e[0]", {"<": ">", ">": "<", "<=": ">=", ">=": "<=", "==": "==", "!=": "!="}[r]
        got_norm.add((s, r))
    chk.expect(
        got_norm == want,
        "stems-filter",
        paired.where,
        "paired(only5to3=True) keeps entries with pair != 0 and index < pair",
        "paired(only5to3=True) does not select exactly the 5'->3' halves of pairs (pair != 0 and index < pair)",
        K(paired, "filter"),
        expected=sorted(want),
        found=sorted(got_norm),
    )
    from checks import c01e

    if fact_first(chk, "stems", st.where, c01e.stems_fact(chk)):
        return
    # iteration source
    fors = [n for n in astq.walk_no_nested(st.node) if isinstance(n, ast.For)]
    if len(fors) != 1:
        chk.error("stems-run", st.where, "expected one loop over the paired entries")
        return
    loop = fors[0]
    src_ok = astq.match(loop.iter, "self.paired(only5to3=True)") is not None or astq.match(loop.iter, "self.paired(True)") is not None
    chk.expect(
        src_ok,
        "stems-source",
        st.site(loop),
        "runs are built from self.paired(only5to3=True) (ascending index: list order of entries)",
        f"runs are built from `{norm(loop.iter)}`, not from the 5'->3' halves of all pairs",
        K(st, "source"),
        found=norm(loop.iter),
    )
    # the extension condition, read path by path through the loop body
    from sa import paths as P

    env = SymEnv(st.node)
    if not isinstance(loop.target, ast.Name):
        chk.error("stems-run", st.site(loop), "loop target is not a name")
        return
    cand_name = loop.target.id
    cand = atom_of(env.name(cand_name))
    pushes = [c for c in astq.calls(loop, "append") if c.args and norm(c.args[0]) == cand_name and isinstance(c.func.value, ast.Name)]
    runs = {c.func.value.id for c in pushes}
    if len(runs) != 1:
        chk.error("stems-run", st.site(loop), f"the run in progress is not one list receiving the candidate (found {sorted(runs)})")
        return
    R = next(iter(runs))
    closes = [c for c in astq.calls(loop, "append") if c.args and norm(c.args[0]) == R and isinstance(c.func.value, ast.Name)]
    S = closes[0].func.value.id if closes else None
    run = atom_of(env.name(R))
    last = ("item", -1, run)
    want_atoms = {
        normalise_rel(Aff.of(("item", 0, cand)) - Aff.of(("item", 0, last)) - Aff.c(1), "=="),
        normalise_rel(Aff.of(("item", 2, last)) - Aff.of(("item", 2, cand)) - Aff.c(1), "=="),
    }
    try:
        all_paths = P.paths(loop.body)
    except P.TooManyPaths as ex:
        chk.error("stems-run", st.site(loop), str(ex))
        return
    problems, unknown = [], []
    n_ext = n_restart = n_start = 0
    for events, exit_ in all_paths:
        nonempty = None
        atoms_true, atoms_false, foreign = set(), set(), []
        for ev in events:
            if ev[0] != "test":
                continue
            t, val, node = ev[1], ev[2], ev[3]
            if t in (R, f"len({R}) > 0", f"len({R}) != 0", f"len({R}) >= 1"):
                nonempty = val
            elif t in (f"len({R}) == 0", f"not {R}"):
                nonempty = not val
            else:
                at = compare_atoms(env, node)
                if at and len(at) == 1:
                    (atoms_true if val else atoms_false).add(at[0])
                    if at[0] not in want_atoms:
                        foreign.append((t, node))
                else:
                    unknown.append(t)
        eff = []
        for ev in events:
            if ev[0] != "stmt":
                continue
            tx = norm(ev[1])
            if S and tx == f"{S}.append({R})":
                eff.append("close")
            elif tx == f"{R} = []" or tx == f"{R} = list()":
                eff.append("empty")
            elif tx == f"{R} = [{cand_name}]":
                eff.append("restart")
            elif tx == f"{R}.append({cand_name})":
                eff.append("push")
        if nonempty is None:
            unknown.append("emptiness of the run undecided on a path")
            continue
        if nonempty is False:
            n_start += 1
            if eff not in (["push"], ["restart"]):
                problems.append((loop, f"with no run in progress the candidate is handled as {eff or 'nothing'}, not as the start of a run", "start"))
            continue
        if foreign:
            problems.append((foreign[0][1], f"run-extension test `{foreign[0][0]}` is not one of `i == k + 1`, `j == l - 1` against the last pair (k, l) of the run", "run-condition"))
            continue
        stacked = want_atoms <= atoms_true
        broken = bool(atoms_false & want_atoms)
        if stacked and not broken:
            n_ext += 1
            if eff != ["push"]:
                problems.append((loop, f"a pair with i = k+1 and j = l-1 is handled as {eff}: it must extend the run (append, no close)", "extend"))
        elif broken:
            n_restart += 1
            if eff not in (["close", "restart"], ["close", "empty", "push"]):
                problems.append((loop, f"a pair that does not continue the run (i != k+1 or j != l-1) is handled as {eff}: the run must be closed and a new one started with the pair", "restart"))
        else:
            unknown.append(f"path decides only {sorted(a.show() + r for a, r in atoms_true)}")
    if unknown and not problems:
        chk.error("stems-run", st.site(loop), f"run construction not understood: {unknown[:2]}")
        return
    seen_k = set()
    for node, msg, key in problems:
        if key in seen_k:
            continue
        seen_k.add(key)
        chk.violation("stems-run", st.site(node), msg, K(st, f"run-{key}"))
    if not problems:
        chk.expect(
            n_ext >= 1 and n_restart >= 1 and n_start >= 1,
            "stems-run",
            st.site(loop),
            f"{len(all_paths)} paths: a pair (i,j) extends the current run iff i = k+1 and j = l-1 for the run's last pair (k,l); otherwise the run is closed and the pair starts the next one",
            "some case of the run construction (start / extend / restart) has no path",
            K(st, "run-condition"),
            found={"start": n_start, "extend": n_ext, "restart": n_restart},
        )
    # a run that is not extended is closed and a new one started with the candidate; last run flushed
    body_text = [norm(s) for s in ast.walk(st.node) if isinstance(s, ast.stmt)]
    flush = [s for s in st.node.body if isinstance(s, ast.If) and any(astq.callee_name(c) == "append" for c in astq.calls(s))]
    chk.expect(
        bool(flush),
        "stems-flush",
        st.where,
        "the last run is appended after the loop",
        "the run in progress is not flushed after the loop: the last stem is lost",
        K(st, "flush"),
    )


def region_triple_ok(env: SymEnv, elt: ast.expr, stem_atom: Any) -> Tuple[bool, Any]:
    v = env.ev(elt)
    want = ("tuple", Aff.of(("item", 0, ("item", 0, stem_atom))), Aff.of(("item", 2, ("item", 0, stem_atom))), Aff.of(("len", stem_atom)))
    return v == want, v


def check_regions(chk, with_fcfs: bool = True) -> None:
    """L2: every region triple is (first 5' index, its partner, length) of one stem.  with_fcfs=False reads only BpSeq.__regions
    (for a property that does not depend on the FCFS encoder, which builds its own region list)."""
    repo = chk.repo
    n = 0
    from checks import c01e

    todo = ["BpSeq.__regions", "BpSeq.fcfs"] if with_fcfs else ["BpSeq.__regions"]
    if fact_first(chk, "regions", repo.func(MOD, "BpSeq.__regions").where, c01e.regions_fact(chk)):
        todo.remove("BpSeq.__regions")
    if with_fcfs and (decided(chk, "fcfs") or (not chk.__dict__.get("fcfs_tried") and fact_first(chk, "fcfs", repo.func(MOD, "BpSeq.fcfs").where, _fcfs_fact_once(chk)))):
        todo.remove("BpSeq.fcfs")
    for q in todo:
        fi = repo.func(MOD, q)
        chk.note_function(fi)
        comps = [
            c
            for c in ast.walk(fi.node)
            if isinstance(c, ast.ListComp) and isinstance(c.elt, ast.Tuple) and len(c.elt.elts) == 3 and "stems_entries" in norm(c.generators[0].iter)
        ]
        for comp in comps:
            n += 1
            g = comp.generators[0]
            src_ok = astq.dotted(g.iter) is not None and astq.dotted(g.iter).startswith("self.") and astq.dotted(g.iter).endswith("__stems_entries")
            env = SymEnv(comp)
            stem = ("stem",)
            env.over[g.target.id] = Aff.of(stem) if isinstance(g.target, ast.Name) else None
            ok, v = region_triple_ok(env, comp.elt, stem)
            chk.expect(
                ok and src_ok and not g.ifs and len(comp.generators) == 1,
                "region-triple",
                fi.site(comp),
                "region = (stem[0].index_, stem[0].pair, len(stem)) for every stem",
                f"region triple `{norm(comp.elt)}` does not describe its stem (first 5' index, its partner, length) for every stem",
                K(fi, "region-triple"),
                expected="(stem[0].index_, stem[0].pair, len(stem)) for stem in self.__stems_entries",
                found=norm(comp),
            )
        # other ways a function gets its regions: the cached property, or a loop that appends the triple
        if not comps:
            alias = [v for st, v in astq.assignments(fi.node, "regions") if v is not None and norm(v).startswith("self.") and norm(v).endswith("__regions")]
            apps = [c for c in astq.calls(fi.node, "append") if astq.dotted(c.func.value) == "regions" and c.args and isinstance(c.args[0], ast.Tuple) and len(c.args[0].elts) == 3]
            if alias and q != "BpSeq.__regions":
                n += 1
                chk.ok("region-triple", fi.where, "regions are the verified self.__regions")
            elif len(apps) == 1:
                fmx = FlowMap(fi.node)
                lps = fmx.of(fmx.stmt_of(apps[0])).loops
                if len(lps) == 1 and isinstance(lps[0].target, ast.Name) and (astq.dotted(lps[0].iter) or "").endswith("__stems_entries") and not fmx.guards_within(fmx.stmt_of(apps[0]), lps[0]) and not any(isinstance(x, (ast.Break, ast.Continue)) for x in ast.walk(lps[0])):
                    n += 1
                    env = SymEnv(lps[0])
                    stem = ("stem",)
                    env.over[lps[0].target.id] = Aff.of(stem)
                    ok, v = region_triple_ok(env, apps[0].args[0], stem)
                    chk.expect(ok, "region-triple", fi.site(apps[0]), "region = (stem[0].index_, stem[0].pair, len(stem)) appended for every stem", f"region triple `{norm(apps[0].args[0])}` does not describe its stem (first 5' index, its partner, length)", K(fi, "region-triple"), found=norm(apps[0].args[0]))
                else:
                    chk.error("region-triple", fi.where, "regions are appended outside a plain loop over the stems")
            else:
                chk.error("region-triple", fi.where, "construction of the region list not recognised")
    chk.floor("region-triple", 2 if with_fcfs else 1)


def _fcfs_fact_once(chk) -> Optional[str]:
    """BpSeq.fcfs is evaluated once per run (first-fit, regions, result, number of levels)."""
    from checks import c01e

    if "fcfs_why" not in chk.__dict__:
        chk.__dict__["fcfs_tried"] = True
        chk.__dict__["fcfs_why"] = c01e.fcfs_fact(chk, N_LEVELS)
    return chk.__dict__["fcfs_why"]


# ------------------------------------------------------------------------------------------------
# L5 fill
# ------------------------------------------------------------------------------------------------
def loop_steps(loop: ast.AST) -> Dict[str, int]:
    """Loop-carried counters: names changed exactly once per iteration by a constant, at the top level of the body."""
    steps: Dict[str, int] = {}
    seen: Dict[str, int] = {}
    for st in loop.body:
        nm, k = None, None
        if isinstance(st, ast.AugAssign) and isinstance(st.target, ast.Name) and isinstance(st.value, ast.Constant) and isinstance(st.value.value, int):
            if isinstance(st.op, ast.Add):
                nm, k = st.target.id, st.value.value
            elif isinstance(st.op, ast.Sub):
                nm, k = st.target.id, -st.value.value
        elif isinstance(st, ast.Assign) and len(st.targets) == 1 and isinstance(st.targets[0], ast.Name):
            t = st.targets[0].id
            m = astq.match(st.value, f"{t} + C_") or astq.match(st.value, f"{t} - C_")
            if m and isinstance(m["C_"], ast.Constant) and isinstance(m["C_"].value, int):
                nm, k = t, m["C_"].value if isinstance(st.value.op, ast.Add) else -m["C_"].value
        if nm is not None:
            seen[nm] = seen.get(nm, 0) + 1
            steps[nm] = k
    # names assigned elsewhere (nested) are not counters
    for nm in list(steps):
        total = sum(1 for st2, _ in astq.assignments(loop, nm))
        if seen[nm] != 1 or total != 1:
            del steps[nm]
    return steps


T = ("iter",)


def summarise_fill_loop(fi: FuncInfo, loop: ast.AST, env: SymEnv, target: str) -> Tuple[Optional[Aff], List[Tuple[Aff, Any]], List[str]]:
    """Affine summary of a counting loop: (trip count, [(index(T), value term)] stores into `target`, problems)."""
    problems: List[str] = []
    stores: List[Tuple[Aff, Any]] = []
    trips: Optional[Aff] = None
    cur: Dict[str, Any] = {}
    if isinstance(loop, ast.While):
        steps = loop_steps(loop)
        init = {nm: env.name(nm) for nm in steps}
        # SymEnv sees counters as ('var', nm) because of the in-loop update; take the binding before the loop
        for nm in steps:
            pre = [v for s, v in astq.assignments(fi.node, nm) if s is not None and not _inside(loop, s) and s.lineno < loop.lineno]
            if len(pre) != 1 or pre[0] is None:
                problems.append(f"counter {nm} has no unique initial binding before the loop")
                return None, [], problems
            stp, val = [(s, v) for s, v in astq.assignments(fi.node, nm) if not _inside(loop, s) and s.lineno < loop.lineno][0]
            tgt = stp.targets[0] if isinstance(stp, ast.Assign) else None
            e2 = SymEnv(fi.node, env.over)
            init[nm] = e2._bind_component(tgt, nm, e2.ev(val)) if tgt is not None else e2.ev(val)
        cur = {nm: init[nm] + Aff.of(T).scale(steps[nm]) for nm in steps}
        atoms = compare_atoms(env.with_(**cur), loop.test)
        if not atoms or len(atoms) != 1:
            problems.append(f"loop guard `{norm(loop.test)}` is not a single affine comparison")
            return None, [], problems
        diff, rel = atoms[0]
        k = diff.coef(T)
        rest = diff.drop(T)
        # k*T + rest rel 0  with T = 0,1,2,...: continue while true
        if k == -1 and rel in (">", ">="):  # rest - T > 0  <=> T < rest ; >= : T <= rest
            trips = rest if rel == ">" else rest + Aff.c(1)
        elif k == 1 and rel in ("<", "<="):  # T + rest < 0 <=> T < -rest
            trips = -rest if rel == "<" else -rest + Aff.c(1)
        elif k in (1, -1) and rel == "!=":
            trips = rest if k == -1 else -rest
        else:
            problems.append(f"loop guard `{norm(loop.test)}` does not bound the iteration count")
            return None, [], problems
        body_env_over = dict(cur)
    elif isinstance(loop, ast.For):
        m = astq.match(loop.iter, "range(N_)") or astq.match(loop.iter, "range(0, N_)")
        if not m or not isinstance(loop.target, ast.Name):
            problems.append(f"for-loop `{norm(loop.iter)}` is not range(n)")
            return None, [], problems
        nv = env.ev(m["N_"])
        if not isinstance(nv, Aff):
            problems.append("range bound not affine")
            return None, [], problems
        trips = nv
        steps = loop_steps(loop)
        body_env_over = {loop.target.id: Aff.of(T)}
        for nm in steps:
            pre = [(s, v) for s, v in astq.assignments(fi.node, nm) if not _inside(loop, s) and s.lineno < loop.lineno]
            if len(pre) != 1:
                problems.append(f"counter {nm} has no unique initial binding")
                return None, [], problems
            stp, val = pre[0]
            tgt = stp.targets[0] if isinstance(stp, ast.Assign) else None
            e2 = SymEnv(fi.node, env.over)
            iv = e2._bind_component(tgt, nm, e2.ev(val)) if tgt is not None else e2.ev(val)
            body_env_over[nm] = iv + Aff.of(T).scale(steps[nm])
    else:
        problems.append("not a loop")
        return None, [], problems
    # walk the body in order
    over = dict(body_env_over)
    for st in loop.body:
        e = env.with_(**over)
        if isinstance(st, ast.Assign) and len(st.targets) == 1 and isinstance(st.targets[0], ast.Subscript) and astq.dotted(st.targets[0].value) == target:
            idx = e.ev(st.targets[0].slice)
            if not isinstance(idx, Aff):
                problems.append(f"store index `{norm(st.targets[0].slice)}` not affine")
                continue
            stores.append((idx, atom_of(e.ev(st.value))))
        elif isinstance(st, ast.AugAssign) and isinstance(st.target, ast.Name) and st.target.id in over:
            k = steps.get(st.target.id)
            over[st.target.id] = over[st.target.id] + Aff.c(k)
        elif isinstance(st, ast.Assign) and len(st.targets) == 1 and isinstance(st.targets[0], ast.Name) and st.targets[0].id in steps:
            over[st.targets[0].id] = over[st.targets[0].id] + Aff.c(steps[st.targets[0].id])
        elif isinstance(st, (ast.Expr, ast.Pass)):
            continue
        else:
            problems.append(f"statement `{norm(st)[:60]}` in the fill loop is outside the counting-loop idiom")
    return trips, stores, problems


def _inside(outer: ast.AST, node: ast.AST) -> bool:
    return any(n is node for n in ast.walk(outer))


def check_fill(chk) -> None:
    """The fill: fact level first (every level, nested stems, the decoder reads it back), affine loop summary as the fallback."""
    from checks import c01e

    fi = chk.repo.func(MOD, "BpSeq.__make_dot_bracket")
    if chk.__dict__.get("fill_done"):
        return
    chk.__dict__["fill_done"] = True
    if decided(chk, "fill") or fact_first(chk, "fill", fi.where, c01e.fill_fact(chk)):
        return
    check_fill_pinned(chk)


def check_fill_pinned(chk) -> None:
    repo = chk.repo
    fi = repo.func(MOD, "BpSeq.__make_dot_bracket")
    chk.note_function(fi)
    params = [a.arg for a in fi.node.args.args]
    if len(params) != 3:
        raise AnalysisError("__make_dot_bracket: expected (self, regions, orders)")
    p_regions, p_orders = params[1], params[2]
    # structure initialised with one dot per sequence position
    s_binds = astq.assignments(fi.node, "structure")
    init = s_binds[0][1] if s_binds else None
    env = SymEnv(fi.node)
    seq_atom = atom_of(env.name("sequence")) if astq.assignments(fi.node, "sequence") else None
    init_ok = False
    if isinstance(init, ast.ListComp) and isinstance(init.elt, ast.Constant) and init.elt.value == ".":
        it = atom_of(env.ev(init.generators[0].iter))
        init_ok = it == ("call", "range", ("len", seq_atom)) and seq_atom == ("attr", "sequence", ("param", "self"))
    elif init is not None:
        m = astq.match(init, '["."] * len(X_)')
        init_ok = bool(m) and atom_of(env.ev(m["X_"])) == ("attr", "sequence", ("param", "self")) if m else False
    chk.expect(
        init_ok,
        "fill-init",
        fi.where,
        "structure starts as one '.' per position of self.sequence",
        "structure is not initialised to len(self.sequence) dots: length of the notation differs from the sequence",
        K(fi, "structure-init"),
        found=norm(init) if init is not None else None,
    )
    # only subscript stores change `structure` (no append/insert/del) before the join
    muts = [c for c in ast.walk(fi.node) if isinstance(c, ast.Call) and isinstance(c.func, ast.Attribute) and astq.dotted(c.func.value) == "structure" and c.func.attr in ("append", "insert", "pop", "extend", "remove", "clear")]
    dels = [d for d in ast.walk(fi.node) if isinstance(d, ast.Delete) and "structure" in norm(d)]
    chk.expect(
        not muts and not dels,
        "fill-width",
        fi.where,
        "the structure list is only written by index: its length stays len(sequence)",
        "the structure list is resized (append/insert/pop/del): notation length can differ from the sequence",
        K(fi, "structure-resize"),
    )
    # outer loop over regions with enumerate index
    outers = [n for n in fi.node.body if isinstance(n, ast.For)]
    if len(outers) != 1:
        chk.error("fill-loop", fi.where, "expected one top-level loop over the regions")
        return
    outer = outers[0]
    el = env.iter_elem(outer.iter, outer)
    m = astq.match(outer.iter, f"enumerate({p_regions})")
    if m is None or not isinstance(outer.target, ast.Tuple) or len(outer.target.elts) != 2:
        chk.error("fill-loop", fi.site(outer), f"outer loop `{norm(outer.iter)}` is not enumerate(regions)")
        return
    idx_name = outer.target.elts[0].id
    stem_tgt = outer.target.elts[1]
    idx_atom = atom_of(env.name(idx_name))
    region = ("item", idx_atom, ("param", p_regions))
    inners = [n for n in outer.body if isinstance(n, (ast.While, ast.For))]
    if len(inners) != 1:
        chk.error("fill-loop", fi.site(outer), "expected exactly one inner counting loop per region")
        return
    trips, stores, problems = summarise_fill_loop(fi, inners[0], env, "structure")
    for p in problems:
        chk.error("fill-loop", fi.site(inners[0]), p)
    if trips is None:
        return
    bracket = ("item", ("item", idx_atom, ("param", p_orders)), atom_of(env.name("brackets")))
    r0, r1, r2 = (Aff.of(("item", k, region)) for k in (0, 1, 2))
    want_stores = {(r0 - Aff.c(1) + Aff.of(T), ("item", 0, bracket)), (r1 - Aff.c(1) - Aff.of(T), ("item", 1, bracket))}
    chk.expect(
        trips == r2,
        "fill-trips",
        fi.site(inners[0]),
        "the inner loop runs exactly n = region length times",
        f"the inner loop runs {trips.show()} times, not the region length: the stem is written too short or too long",
        K(fi, "fill-trips"),
        expected=r2.show(),
        found=trips.show(),
    )
    got = set(stores)
    chk.expect(
        got == want_stores,
        "fill-stores",
        fi.site(inners[0]),
        "iteration t writes brackets[orders[i]][0] at start-1+t and [1] at partner-1-t (0-based positions of the stem's pairs)",
        "the fill does not write the opening bracket at start-1+t and the closing bracket at partner-1-t with the bracket of the region's own level",
        K(fi, "fill-stores"),
        expected=sorted(f"structure[{i.show()}] = {show_atom(v)}" for i, v in want_stores),
        found=sorted(f"structure[{i.show()}] = {show_atom(v)}" for i, v in got),
    )
    # result: DotBracket.from_string(sequence, "".join(structure))
    rets = [r for r in astq.walk_no_nested(fi.node) if isinstance(r, ast.Return)]
    good = False
    for r in rets:
        if r.value is not None:
            m = astq.match(r.value, "DotBracket.from_string(A_, B_)") or astq.match(r.value, "DotBracket(A_, B_)")
            if m:
                a = atom_of(env.ev(m["A_"]))
                b_e = m["B_"]
                joined = astq.match(b_e, '"".join(structure)') is not None
                if isinstance(b_e, ast.Name):
                    bs = [v for s, v in astq.assignments(fi.node, b_e.id) if v is not None]
                    joined = any(astq.match(v, '"".join(structure)') is not None for v in bs)
                good = a == ("attr", "sequence", ("param", "self")) and joined
    chk.expect(
        good and len(rets) == 1,
        "fill-result",
        fi.where,
        "returns DotBracket(self.sequence, ''.join(structure))",
        "the result is not DotBracket built from self.sequence and the joined structure list",
        K(fi, "fill-result"),
    )


# ------------------------------------------------------------------------------------------------
# L7 decoder, L8 from_dotbracket
# ------------------------------------------------------------------------------------------------
def check_decoder(chk) -> None:
    """The decoder: fact level first (every balanced notation of <= 5 characters over two types, all 30 types), pinned form as the fallback."""
    from checks import c01e

    fi = chk.repo.func(MOD, "DotBracket.__post_init__")
    if chk.__dict__.get("decoder_done"):
        return
    chk.__dict__["decoder_done"] = True
    if fact_first(chk, "decoder", fi.where, c01e.decoder_fact(chk)):
        return
    check_decoder_pinned(chk)


def check_decoder_pinned(chk) -> None:
    repo = chk.repo
    fi = repo.func(MOD, "DotBracket.__post_init__")
    chk.note_function(fi)
    fm = FlowMap(fi.node)
    env = SymEnv(fi.node)
    loops = [n for n in fi.node.body if isinstance(n, ast.For)]
    if len(loops) != 1:
        chk.error("decoder", fi.where, "expected one loop over the structure")
        return
    loop = loops[0]
    it = atom_of(env.ev(loop.iter))
    struct = ("attr", "structure", ("param", "self"))
    by_index = it == ("call", "range", ("len", struct))
    by_enum = astq.match(loop.iter, "enumerate(self.structure)") is not None
    chk.expect(
        by_index or by_enum,
        "decoder-scan",
        fi.site(loop),
        "the decoder scans every position of self.structure left to right",
        f"the decoder does not scan all positions of self.structure: `{norm(loop.iter)}`",
        K(fi, "scan"),
        found=norm(loop.iter),
    )
    if by_index:
        pos = atom_of(env.name(loop.target.id))
        ch = ("item", pos, struct)
    elif by_enum and isinstance(loop.target, ast.Tuple):
        pos = atom_of(env.name(loop.target.elts[0].id))
        ch = atom_of(env.name(loop.target.elts[1].id))
    else:
        return
    pushes = [c for c in astq.calls(loop, "append") if isinstance(c.func.value, ast.Subscript) and astq.dotted(c.func.value.value) == "begins"]
    pops = astq.calls(loop, "pop")
    if len(pushes) != 1 or len(pops) != 1:
        chk.violation("decoder-stack", fi.where, f"expected one push and one pop on the per-type stacks, found {len(pushes)} / {len(pops)}", K(fi, "push-pop"))
        return
    push, pop = pushes[0], pops[0]
    pst = fm.stmt_of(push)
    pf = facts(fm.of(pst).guards)
    push_ok = (
        any(g.polarity and astq.match(g.test, "C_ in opening") and atom_of(env.ev(astq.match(g.test, "C_ in opening")["C_"])) == ch for g in pf)
        and atom_of(env.ev(push.func.value.slice)) == ch
        and len(push.args) == 1
        and atom_of(env.ev(push.args[0])) == pos
    )
    chk.expect(
        push_ok,
        "decoder-push",
        fi.site(push),
        "an opening character c at position i pushes i on the stack of c",
        "push is not `begins[c].append(i)` under `c in opening` for the scanned character c at position i",
        K(fi, "push"),
        found=norm(pst),
    )
    qst = fm.stmt_of(pop)
    qf = facts(fm.of(qst).guards)
    in_closing = any(g.polarity and astq.match(g.test, "C_ in closing") and atom_of(env.ev(astq.match(g.test, "C_ in closing")["C_"])) == ch for g in qf)
    stack_key = atom_of(env.ev(pop.func.value.slice)) if isinstance(pop.func.value, ast.Subscript) and astq.dotted(pop.func.value.value) == "begins" else None
    key_ok = stack_key == ("item", ch, atom_of(env.name("matches")))
    lifo = len(pop.args) == 0 or (len(pop.args) == 1 and isinstance(pop.args[0], ast.UnaryOp) and norm(pop.args[0]) == "-1")
    chk.expect(
        in_closing and key_ok,
        "decoder-pop",
        fi.site(pop),
        "a closing character c pops the stack of matches[c]",
        "pop is not taken from begins[matches[c]] under `c in closing`",
        K(fi, "pop"),
        found=norm(qst),
    )
    chk.expect(
        lifo,
        "decoder-lifo",
        fi.site(pop),
        "the most recent opening position is popped (LIFO)",
        f"`{norm(pop)}` does not pop the most recent opening position: nested pairs of one type are mismatched",
        K(fi, "lifo"),
        found=norm(pop),
    )
    # recorded pair = (popped, i)
    recs = [c for c in astq.calls(loop, "append") if astq.dotted(c.func.value) == "self.pairs"]
    rec_ok = False
    if len(recs) == 1 and recs[0].args and isinstance(recs[0].args[0], ast.Tuple) and len(recs[0].args[0].elts) == 2:
        a, b = recs[0].args[0].elts
        a_is_pop = a is pop or (isinstance(a, ast.Name) and any(v is pop for _, v in astq.assignments(fi.node, a.id)))
        rec_ok = a_is_pop and atom_of(env.ev(b)) == pos and fm.stmt_of(recs[0]) is not None and any(
            g.polarity and astq.match(g.test, "C_ in closing") for g in facts(fm.of(fm.stmt_of(recs[0])).guards)
        )
    chk.expect(
        rec_ok,
        "decoder-record",
        fi.where,
        "each closing character records the pair (popped opening position, own position)",
        "the decoder does not record exactly (popped opening position, current position) per closing character",
        K(fi, "record"),
    )
    exits = [n for n in astq.walk_no_nested(fi.node) if isinstance(n, (ast.Return, ast.Break, ast.Continue, ast.Raise))]
    chk.expect(not exits, "decoder-early-exit", fi.site(exits[0]) if exits else fi.where, "the scan has no early exit: every position of the structure is decoded", f"`{norm(exits[0])}` leaves the decoder early: the rest (or all) of the notation is not decoded" if exits else "", K(fi, "early-exit"), found=[norm(e) for e in exits])
    # pairs starts empty
    inits = [s for s in fi.node.body if astq.match(s, "self.pairs = []") is not None]
    chk.expect(bool(inits), "decoder-init", fi.where, "self.pairs starts empty", "self.pairs is not initialised to an empty list", K(fi, "init"))


def check_from_dotbracket(chk) -> None:
    repo = chk.repo
    fi = repo.func(MOD, "BpSeq.from_dotbracket")
    chk.note_function(fi)
    from checks import c01e

    if fact_first(chk, "from-dotbracket", fi.where, c01e.from_dotbracket_fact(chk)):
        return
    env = SymEnv(fi.node)
    p = fi.node.args.args[0].arg
    seq = ("attr", "sequence", ("param", p))
    e_expr = astq.single_def(fi.node, "entries")
    ok = False
    if isinstance(e_expr, ast.ListComp) and len(e_expr.generators) == 1 and not e_expr.generators[0].ifs:
        g = e_expr.generators[0]
        it = atom_of(env.ev(g.iter))
        if it == ("call", "range", ("len", seq)) and isinstance(g.target, ast.Name):
            e2 = env.with_(**{g.target.id: Aff.of(T)})
            m = astq.match(e_expr.elt, "Entry(A_, B_, C_)")
            if m:
                a, b, c = e2.ev(m["A_"]), atom_of(e2.ev(m["B_"])), e2.ev(m["C_"])
                ok = a == Aff.of(T) + Aff.c(1) and b == ("item", T, seq) and c == Aff.c(0)
    chk.expect(
        ok,
        "from-db-entries",
        fi.where,
        "entry t (0-based) is Entry(t+1, sequence[t], 0) for every position",
        "entries are not Entry(t+1, sequence[t], 0) for t in range(len(sequence))",
        K(fi, "entries"),
        found=norm(e_expr) if e_expr is not None else None,
    )
    loops = [n for n in fi.node.body if isinstance(n, ast.For)]
    if len(loops) != 1 or not isinstance(loops[0].target, ast.Tuple) or len(loops[0].target.elts) != 2:
        chk.error("from-db-pairs", fi.where, "expected `for i, j in <pairs>`")
        return
    loop = loops[0]
    src_ok = atom_of(env.ev(loop.iter)) == ("attr", "pairs", ("param", p))
    a_name, b_name = loop.target.elts[0].id, loop.target.elts[1].id
    A, B = ("A",), ("B",)
    e2 = env.with_(**{a_name: Aff.of(A), b_name: Aff.of(B)})
    stores = set()
    other = []
    for st in loop.body:
        m = astq.match(st, "entries[I_].pair = V_")
        if m:
            stores.add((e2.ev(m["I_"]), e2.ev(m["V_"])))
        else:
            other.append(norm(st))
    want = {(Aff.of(A), Aff.of(B) + Aff.c(1)), (Aff.of(B), Aff.of(A) + Aff.c(1))}
    chk.expect(
        src_ok and stores == want and not other,
        "from-db-pairs",
        fi.site(loop),
        "every decoded pair (a,b) sets entries[a].pair = b+1 and entries[b].pair = a+1",
        "decoded pairs are not written symmetrically with the +1 shift from 0-based positions to 1-based BPSEQ numbers",
        K(fi, "pair-stores"),
        expected=["entries[a].pair = b + 1", "entries[b].pair = a + 1"],
        found=[norm(s) for s in loop.body],
    )
    rets = [r for r in ast.walk(fi.node) if isinstance(r, ast.Return)]
    chk.expect(
        len(rets) == 1 and astq.match(rets[0].value, "BpSeq(entries)") is not None,
        "from-db-result",
        fi.where,
        "returns BpSeq(entries)",
        "does not return BpSeq(entries)",
        K(fi, "result"),
    )


# ------------------------------------------------------------------------------------------------
# L4 FCFS
# ------------------------------------------------------------------------------------------------
def least_available_ok(expr: ast.expr, avail: str) -> bool:
    """expr picks the least index k with avail[k] true."""
    pats = [
        f"next(filter(lambda X_: {avail}[X_] is True, range(len({avail}))))",
        f"next(filter(lambda X_: {avail}[X_], range(len({avail}))))",
        f"next(filter(lambda X_: {avail}[X_] == True, range(len({avail}))))",
        f"{avail}.index(True)",
        f"min(X_ for X_ in range(len({avail})) if {avail}[X_])",
        f"min(X_ for X_ in range(len({avail})) if {avail}[X_] is True)",
        f"next(X_ for X_ in range(len({avail})) if {avail}[X_])",
        f"next(X_ for X_ in range(len({avail})) if {avail}[X_] is True)",
        f"next(X_ for X_, Y_ in enumerate({avail}) if Y_)",
        f"next(X_ for X_, Y_ in enumerate({avail}) if Y_ is True)",
    ]
    return any(astq.match(expr, p) is not None for p in pats)


def least_available_verdict(repo, expr: ast.expr, avail: str, n: int, extra: Optional[Dict[str, Any]] = None):
    """Evaluate `expr` on availability tables of n flags (every False/True pattern of the first five flags, the rest True).
    True: always the index of the first True flag;  (False, table, value): a table on which it is not;  None: not evaluable."""
    k = min(n, 5)
    for mask in range(2 ** k):
        table = [not (mask >> b & 1) for b in range(k)] + [True] * (n - k)
        if True not in table:
            continue
        try:
            val = Folder(repo, MOD, {avail: table, **(extra or {})}).fold(expr)
        except Exception:
            return None
        if val != table.index(True) or isinstance(val, bool):
            return (False, table[: k + 1], val)
    return True


def judge_choice(chk, fi: FuncInfo, rule: str, site_node: ast.AST, expr: ast.expr, avail: str, n: int, key: str, extra: Optional[Dict[str, Any]] = None) -> None:
    v = least_available_verdict(chk.repo, expr, avail, n, extra)
    if v is True:
        chk.ok(rule, fi.site(site_node), f"`{norm(expr)[:80]}` evaluates to the least available level on all 31 patterns of the first five flags ({n} flags)")
    elif v is None:
        if least_available_ok(expr, avail):
            chk.ok(rule, fi.site(site_node), "the least level still available is chosen (idiom)")
        else:
            chk.error(rule, fi.site(site_node), f"choice `{norm(expr)[:90]}` of the level is neither evaluable nor a known idiom")
    else:
        _, table, val = v
        chk.violation(rule, fi.site(site_node), f"`{norm(expr)[:90]}` does not choose the least available level: for flags {table}... it gives {val!r}, the first free level is {table.index(True)}", K(fi, key), expected={"available": table, "least": table.index(True)}, found={"expression": norm(expr), "value": repr(val)})


def covers_all_earlier(it: ast.expr, i_name: str) -> bool:
    pats = [f"range({i_name})", f"range(0, {i_name})", f"reversed(range({i_name}))", f"range({i_name} - 1, -1, -1)", f"reversed(range(0, {i_name}))"]
    return any(astq.match(it, p) is not None for p in pats)


def check_fcfs(chk) -> None:
    """FCFS: fact level first (first-fit on every order type of a few arcs), pinned form as the fallback."""
    fi = chk.repo.func(MOD, "BpSeq.fcfs")
    if decided(chk, "fcfs"):
        return
    if not chk.__dict__.get("fcfs_tried") and fact_first(chk, "fcfs", fi.where, _fcfs_fact_once(chk)):
        return
    check_fcfs_levels_pinned(chk)
    check_fcfs_pinned(chk)


def check_fcfs_pinned(chk) -> None:
    repo = chk.repo
    fi = repo.func(MOD, "BpSeq.fcfs")
    chk.note_function(fi)
    env, R = regions_term(chk, fi)
    fm = FlowMap(fi.node)
    # orders initialised to zeros of len(regions)
    o_init = astq.assignments(fi.node, "orders")
    init_ok = False
    if o_init and isinstance(o_init[0][1], ast.ListComp):
        lc = o_init[0][1]
        init_ok = isinstance(lc.elt, ast.Constant) and lc.elt.value == 0 and atom_of(env.ev(lc.generators[0].iter)) == ("call", "range", ("len", R))
    elif o_init and o_init[0][1] is not None:
        init_ok = astq.match(o_init[0][1], "[0] * len(regions)") is not None
    chk.expect(init_ok, "fcfs-init", fi.where, "orders starts as one 0 per region", "orders is not initialised to len(regions) zeros", K(fi, "orders-init"))
    outers = [n for n in fi.node.body if isinstance(n, ast.For) and "orders" in {x.id for b in n.body for x in ast.walk(b) if isinstance(x, ast.Name)}]
    if len(outers) != 1 or not isinstance(outers[0].target, ast.Name):
        chk.error("fcfs-loop", fi.where, "expected one outer loop over region indices")
        return
    outer = outers[0]
    i_name = outer.target.id
    m = astq.match(outer.iter, "range(1, len(regions))") or astq.match(outer.iter, "range(len(regions))") or astq.match(outer.iter, "range(0, len(regions))")
    chk.expect(
        m is not None,
        "fcfs-outer",
        fi.site(outer),
        "every region after the first is assigned in list order",
        f"outer loop `{norm(outer.iter)}` does not visit every region index from 1 to len(regions)-1",
        K(fi, "outer-range"),
        found=norm(outer.iter),
    )
    if any(isinstance(s, (ast.Break, ast.Continue, ast.Return)) for s in outer.body):
        chk.violation("fcfs-outer", fi.site(outer), "outer loop body leaves early at top level", K(fi, "outer-exit"))
    # available reset per region
    av_assign = [s for s in outer.body if isinstance(s, ast.Assign) and any(isinstance(t, ast.Name) and t.id == "available" for t in s.targets)]
    inners = [n for n in outer.body if isinstance(n, ast.For)]
    if len(inners) != 1 or not isinstance(inners[0].target, ast.Name):
        chk.error("fcfs-loop", fi.site(outer), "expected one inner loop over earlier regions")
        return
    inner = inners[0]
    all_av = [st for st, _ in astq.assignments(fi.node, "available")]
    if not all_av:
        chk.error("fcfs-available-reset", fi.site(outer), "no availability table `available` found (idiom not recognised)")
    elif len(av_assign) == 1 and outer.body.index(av_assign[0]) < outer.body.index(inner) and len(all_av) == 1:
        chk.ok("fcfs-available-reset", fi.site(outer), "the availability table is rebuilt (all True) for every region before the scan")
    elif not av_assign and all(not any(st is n for n in ast.walk(outer)) for st in all_av):
        chk.violation("fcfs-available-reset", fi.site(all_av[0]), "`available` is built once, outside the loop over regions: levels blocked for one stem stay blocked for the next", K(fi, "available-reset"))
    else:
        chk.error("fcfs-available-reset", fi.site(outer), "placement of the availability table not recognised")
    if av_assign:
        v = av_assign[0].value
        all_true = (isinstance(v, ast.ListComp) and isinstance(v.elt, ast.Constant) and v.elt.value is True) or astq.match(v, "[True] * N_") is not None
        chk.expect(all_true, "fcfs-available-reset", fi.site(av_assign[0]), "every level starts available", "the availability table does not start all True", K(fi, "available-init"), found=norm(v))
    j_name = inner.target.id
    chk.expect(
        covers_all_earlier(inner.iter, i_name),
        "fcfs-earlier",
        fi.site(inner),
        "the scan covers all earlier regions 0..i-1",
        f"inner loop `{norm(inner.iter)}` does not cover all earlier regions 0..i-1",
        K(fi, "inner-range"),
        expected=f"range({i_name})",
        found=norm(inner.iter),
    )
    exits = [n for b in inner.body for n in ast.walk(b) if isinstance(n, (ast.Break, ast.Continue, ast.Return))]
    chk.expect(
        not exits,
        "fcfs-scan-exit",
        fi.site(inner),
        "the scan has no early exit",
        "the scan over earlier regions contains break/continue/return: a crossing earlier stem can be missed and its level reused",
        K(fi, "inner-exit"),
        found=[norm(e) for e in exits],
    )
    # marking under the conflict predicate
    marks = [s for s in ast.walk(inner) if isinstance(s, ast.Assign) and astq.match(s, "available[orders[J_]] = False") is not None]
    if len(marks) != 1:
        if chk.repo.shape_status(MOD, fi.qualname) == "shape":
            chk.error("fcfs-mark", fi.site(inner), "marking idiom `available[orders[j]] = False` not found")
        else:
            chk.violation("fcfs-mark", fi.site(inner), "the level of a crossing earlier region is not marked unavailable exactly once (`available[orders[j]] = False`)", K(fi, "mark"))
        return
    mark = marks[0]
    jm = astq.match(mark, "available[orders[J_]] = False")["J_"]
    chk.expect(
        isinstance(jm, ast.Name) and jm.id == j_name,
        "fcfs-mark",
        fi.site(mark),
        "the marked level is the level of the scanned earlier region j",
        f"`{norm(mark)}` marks the level of another region than the scanned one",
        K(fi, "mark-index"),
        found=norm(mark),
    )
    gs = [g for g in fm.of(mark).guards if g.kind == "if"]
    if len(gs) != 1 or gs[0].polarity is not True:
        chk.error("fcfs-mark", fi.site(mark), "marking is not guarded by exactly one positive test")
        return
    test = gs[0].test
    if isinstance(test, ast.Name):
        d = [v for s, v in astq.assignments(inner, test.id) if v is not None]
        if len(d) != 1:
            chk.error("fcfs-mark", fi.site(mark), f"`{test.id}` has no unique definition in the scan")
            return
        test = d[0]
    bases = check_conflict_test(chk, fi, test, env, R)
    if bases is not None:
        idxs = {b[1] for b in bases}
        want = {atom_of(env.name(i_name)), atom_of(env.name(j_name))}
        chk.expect(
            idxs == want,
            "fcfs-mark",
            fi.site(test),
            "the conflict test compares the region being assigned with the scanned earlier region",
            "the conflict test does not compare regions[i] with regions[j]",
            K(fi, "conflict-operands"),
        )
    # choice and store
    stores = [s for s in outer.body if astq.match(s, f"orders[{i_name}] = V_") is not None]
    if len(stores) != 1:
        chk.violation("fcfs-choice", fi.site(outer), "orders[i] is not assigned exactly once per region", K(fi, "store"))
        return
    inl = Inliner(fi.node)
    v = inl.inline(astq.match(stores[0], f"orders[{i_name}] = V_")["V_"], stores[0], stop=("available", "orders", "regions", i_name))
    n_flags = 30
    if av_assign:
        av_v = inl.inline(av_assign[0].value, av_assign[0], stop=("regions",))
        mm = astq.match(av_v, "[True] * N_") or astq.match(av_v, "N_ * [True]") or (astq.match(av_v.generators[0].iter, "range(N_)") if isinstance(av_v, ast.ListComp) and len(av_v.generators) == 1 else None)
        nn = Folder(repo, MOD).try_fold(mm["N_"]) if mm else None
        if isinstance(nn, int) and 1 <= nn <= 200:
            n_flags = nn
    if outer.body.index(stores[0]) < outer.body.index(inner):
        chk.violation("fcfs-choice", fi.site(stores[0]), "the level is chosen before the scan over the earlier regions", K(fi, "choice-order"))
    else:
        judge_choice(chk, fi, "fcfs-choice", stores[0], v, "available", n_flags, "choice")
    rets = [r for r in astq.walk_no_nested(fi.node) if isinstance(r, ast.Return)]
    chk.expect(
        len(rets) == 1 and astq.match(rets[0].value, "self.__make_dot_bracket(regions, orders)") is not None,
        "fcfs-result",
        fi.where,
        "returns the fill of (regions, orders)",
        "does not return self.__make_dot_bracket(regions, orders)",
        K(fi, "result"),
    )


def check_text_forms(chk) -> None:
    """BPSEQ text <-> entries, sequence, multi-strand text (observe points from_string / __str__ / MultiStrandDotBracket.from_string)."""
    repo = chk.repo
    from checks import c01e

    if chk.__dict__.get("text_forms_done"):
        return
    chk.__dict__["text_forms_done"] = True
    pi = repo.func(MOD, "BpSeq.__post_init__")
    chk.note_function(pi)
    if not fact_first(chk, "bpseq-pairs", pi.where, c01e.post_init_fact(chk)):
        t = norm(pi.node)
        chk.expect("for i, _, j in self.entries:" in t and "if j != 0:" in t and "self.pairs[i] = j" in t and "self.pairs[j] = i" in t, "bpseq-pairs", pi.where, "pairs maps both ends of every paired entry", "BpSeq.pairs is not filled symmetrically from the paired entries", K(pi, "pairs"))
    if fact_first(chk, "text-forms", repo.func(MOD, "BpSeq.from_string").where, c01e.text_forms_fact(chk)):
        return
    fs = repo.func(MOD, "BpSeq.from_string")
    st = repo.func(MOD, "BpSeq.__str__")
    sq = repo.func(MOD, "BpSeq.sequence")
    for fi in (fs, st, sq):
        chk.note_function(fi)
    cons = [c for c in astq.calls(fs.node, "Entry")]
    ok = len(cons) == 1 and norm(cons[0]) == "Entry(int(fields[0]), fields[1], int(fields[2]))" and "fields = line.split()" in norm(fs.node) and "for line in bpseq_str.splitlines():" in norm(fs.node)
    rets = [r for r in fs.node.body if isinstance(r, ast.Return)]
    chk.expect(ok and len(rets) == 1 and norm(rets[0].value) == "BpSeq(entries)", "bpseq-text", fs.where, "a BPSEQ line 'i c j' becomes Entry(int(i), c, int(j)), lines in order", "BpSeq.from_string does not read (index, letter, pair) from columns 1-3 of every line in order", K(fs, "parse"))
    rets = [r for r in st.node.body if isinstance(r, ast.Return)]
    ok = len(rets) == 1 and norm(rets[0].value).replace(" ", "") in ("'\\n'.join(('{}{}{}'.format(i,c,j)fori,c,jinself.entries))", "'\\n'.join(('{} {} {}'.format(i, c, j) for i, c, j in self.entries))".replace(" ", ""))
    chk.expect(ok, "bpseq-text", st.where, "str(bpseq) writes 'index letter pair' per entry, newline separated, in entry order", "BpSeq.__str__ does not write `index letter pair` for every entry in order", K(st, "format"), found=[norm(r.value) for r in rets])
    rets = [r for r in sq.node.body if isinstance(r, ast.Return)]
    chk.expect(len(rets) == 1 and norm(rets[0].value) in ("''.join((entry.sequence for entry in self.entries))", "''.join([entry.sequence for entry in self.entries])"), "bpseq-sequence", sq.where, "sequence = the entries' letters in order", "BpSeq.sequence is not the join of entry.sequence over self.entries", K(sq, "sequence"))
    ds = repo.func(MOD, "DotBracket.from_string")
    chk.note_function(ds)
    t = norm(ds.node)
    chk.expect("if len(sequence) != len(structure):" in t and "raise ValueError" in t and "return DotBracket(sequence, structure)" in t, "dotbracket-length", ds.where, "a notation whose length differs from the sequence is refused", "DotBracket.from_string no longer refuses sequence/structure of different lengths", K(ds, "length"))
    ms = repo.func(MOD, "MultiStrandDotBracket.from_string")
    body = {norm(s.targets[0]): norm(s.value) for s in ast.walk(ms.node) if isinstance(s, ast.Assign) and isinstance(s.targets[0], ast.Name)}
    ok = body.get("sequence") == "match.group(3)" and body.get("structure") == "match.group(4)" and body.get("last") == "first + len(sequence) - 1"
    firsts = [norm(v) for s2, v in astq.assignments(ms.node, "first") if v is not None]
    ok = ok and firsts == ["1", "last + 1"] and "strands.append(Strand(first, last, sequence, structure))" in norm(ms.node)
    rets = [r for r in ms.node.body if isinstance(r, ast.Return)]
    ok = ok and len(rets) == 1 and norm(rets[0].value).replace(" ", "") == "MultiStrandDotBracket(''.join((strand.sequenceforstrandinstrands)),''.join((strand.structureforstrandinstrands)),strands)"
    chk.expect(ok, "multistrand-text", ms.where, "strands are numbered consecutively (first = previous last + 1) and concatenated in order", "MultiStrandDotBracket.from_string does not number strands consecutively and concatenate them in order", K(ms, "strands"))


# ------------------------------------------------------------------------------------------------
def run(chk) -> None:
    chk.explanation = (
        "Compositional static argument on common.py: stems are maximal stacked runs (affine normal form of the run test), region "
        "triples describe their stem (def-use roles), the three conflict tests equal arc crossing on all 6 orderings of two arcs "
        "(exhaustive truth table), FCFS is first-fit over all earlier stems, the fill writes exactly start-1+t / partner-1-t for "
        "t in [0,n) with the bracket pair of the stem's level (affine loop summary), encoder table = decoder strings position by "
        "position (constant folding), the decoder keeps one LIFO stack per type, from_dotbracket writes pairs symmetrically with +1. "
        "Each lemma is decided at fact level first (checks/c01e.py): the fragment is interpreted from the ast on one representative per class of a "
        "finite input partition (order types of <= 4 arcs, levels 0..29, step classes of consecutive pairs, balanced notations of <= 5 characters, "
        "small contiguous structures) and compared with the definition; it abstains when its classes do not reach every statement of the fragment. "
        "Call histories: every ordered pair of encoder queries on one object answers as a fresh copy."
    )
    chk.trusted = ["CPython ast and re._parser", "paper argument composing L1-L8 (DESIGN.md §4 C01)"]
    chk.assumptions = ["valid BPSEQ: symmetric pairing, positions of different pairs distinct", "at most 30 bracket levels"]
    repo = chk.repo
    chk.robust |= ROBUST
    check_alphabet(chk)
    check_stems(chk)
    check_regions(chk)
    for q in ("BpSeq.convert_to_dot_bracket", "BpSeq.all_dot_brackets"):
        check_conflict_graph(chk, repo.func(MOD, q))
    check_fcfs(chk)
    # third encoder: the enumeration (components, permutations, first-fit, product) - shared with C16
    from checks import c16

    c16.check_enumeration_stages(chk)
    check_fill(chk)
    check_decoder(chk)
    check_from_dotbracket(chk)
    check_text_forms(chk)
    # an encoder must read the same conflict graph / regions whatever was asked of the object before
    from checks import c01e

    why = c01e.history_fact(chk, c01e.ENCODER_QUERIES, actions=c01e.DERIVATIONS)
    if why is not None:
        chk.ok("history-independent", "-", f"call histories not evaluable ({why[:120]}); writes to shared state are C12's effect analysis")
    n_pred = 3 - sum(1 for t in ("conflict-graph:BpSeq.convert_to_dot_bracket", "conflict-graph:BpSeq.all_dot_brackets", "fcfs") if decided(chk, t))
    if n_pred > 0:
        chk.floor("conflict-predicate", n_pred)
    chk.floor("fill-stores", 1)
    chk.floor("alphabet-agree", 1)
    # a solve that ends without an optimum must not be read back (all stems would land on level 0: crossing stems share '()')
    if not fact_first(chk, "unsolved", repo.func(MOD, "BpSeq.convert_to_dot_bracket").where, c01e.unsolved_readback_fact(chk, "encoder-unsolved")):
        pass  # C13 / C02 read the pinned form of the status test
    # every encoder returns through the verified fill
    for q, tag in (("BpSeq.convert_to_dot_bracket", "uses-fill"), ("BpSeq.all_dot_brackets", "enumeration")):
        fi = repo.func(MOD, q)
        if tag == "enumeration" and decided(chk, tag):
            continue
        if tag == "uses-fill" and fact_first(chk, tag, fi.where, c01e.uses_fill_fact(chk)):
            continue
        n = len([c for c in ast.walk(fi.node) if isinstance(c, ast.Call) and isinstance(c.func, ast.Attribute) and c.func.attr.endswith("__make_dot_bracket")])
        chk.expect(n >= 1, "encoder-uses-fill", fi.where, f"{n} notation(s) built by the verified fill", "no notation is built by __make_dot_bracket", K(fi, "uses-fill"))


# rules whose failure is positive evidence (evaluated facts, closed-world findings); the others read a pinned idiom
ROBUST = {
    "alphabet-encoder", "alphabet-agree", "alphabet-30", "alphabet-matches", "alphabet-fcfs-levels", "alphabet-multistrand", "decoder-stacks-fresh",
    "conflict-predicate", "conflict-graph", "conflict-pairs", "stems-filter", "stems-run", "region-triple", "fill-width", "fill-trips", "fill-stores",
    "decoder-lifo", "decoder-early-exit", "fcfs-scan-exit", "fcfs-available-reset", "fcfs-mark", "fcfs-choice", "greedy-choice",
    "components-walk", "greedy-perms", "greedy-earlier-exit", "greedy-mark", "product", "product-skip",
    # fact-level rules (checks/c01e.py): evaluated on every class of a finite input partition
    "fcfs-first-fit", "fcfs-levels", "conflict-graph-fact", "enumeration-fact", "stems-run-fact", "stems-source", "from-db-fact", "bpseq-pairs-fact", "history-independent", "encoder-result-fact", "encoder-unsolved", "fill-result", "decoder-fact", "bpseq-text", "bpseq-sequence", "dotbracket-length", "multistrand-text",
}


MANIFEST_ENTRY = {
    "text": "Static decision of eight lemmas (L1-L8, DESIGN.md §4 C01) on the current source of common.py whose composition is losslessness: "
    "exhaustive truth tables of the three conflict tests over all orderings of two arcs, affine normal forms of the stem-run test, "
    "of the fill loop's index/trip-count summary and of from_dotbracket's stores, constant-folded agreement of encoder and decoder "
    "alphabets, LIFO-per-type shape of the decoder, first-fit shape of FCFS. Each lemma is a necessary condition; a change of any of "
    "these facts changes the produced or decoded notation for some structure.",
    "note": "Trusted: CPython ast, the fragment interpreter's closed table of builtins/stdlib, the paper argument composing the lemmas. Evaluated classes are bounded (<= 4 stems, <= 6 contiguous residues); a part of a function that no class reaches makes the fact rule abstain (pinned form or ANALYSIS-ERROR). Not decided: the composition itself, behaviour beyond 30 levels. The MILP encoder's level assignment is C02, the enumeration is C16.",
    "technique": "static analysis: constant folding + truth tables over finite input partitions (the encoder fragments are interpreted from the ast - sa/microeval.py, nothing of the library is imported or run - on every order type of <= 4 arcs, every level, every class of 5'->3' step, every balanced notation of <= 5 characters, with statement coverage of the fragment required); fallback: def-use role resolution + order-type truth tables + affine loop summaries over the pinned idioms",
}
