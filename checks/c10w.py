"""C09/C10, round 4: the write paths of the command-line tools (observation points splitter.main, unifier.main).

Fact decided on every path of the loop (or function) body that reaches a `write_pdb(T, ...)` call, by path enumeration
(sa/paths.py: `x = a if t else b`, flags stored in names, try/with are followed):

* `fit-before-write`: T is the value of `fit_to_pdb(X)`, or it is a table X for which `can_write_pdb(X)` was tested - and was
  True - *on that same path after X got its value*.  A decision taken for another table (an earlier round of the loop, a flag
  that survives the rounds, a test of the whole file instead of the model at hand) does not count: that table is written
  with whatever serials / chain ids / residue numbers it has, and the 80-column layout holds only for values within the limits.
* `write-format-tag`: the table the output is made from carries the input's format tag (`X.attrs['format'] = ...` on the path)
  when it is a piece of a larger table (a group of `groupby`, a concatenation), since such pieces do not inherit `attrs`.

Nothing is evaluated; the rule reads assignments and tests along paths, so it does not matter whether the decision is written
as if/else, a conditional expression, a flag, or with the write inside `with open(...)`.
"""
from __future__ import annotations

import ast
from typing import Any, Dict, List, Optional, Set, Tuple

from checks.c03 import K
from sa import astq
from sa import paths as PT
from sa.model import AnalysisError, norm

WRITER, FITTER, TESTER = "write_pdb", "fit_to_pdb", "can_write_pdb"


def _callee(c: ast.Call) -> Optional[str]:
    return c.func.id if isinstance(c.func, ast.Name) else (c.func.attr if isinstance(c.func, ast.Attribute) else None)


def _innermost_loop(fn: ast.AST, node: ast.AST) -> Optional[ast.AST]:
    best = None
    for l in ast.walk(fn):
        if isinstance(l, (ast.For, ast.While)) and any(n is node for b in l.body for n in ast.walk(b)):
            best = l
    return best


def _stmt_calls(ev) -> List[ast.Call]:
    st = ev[1]
    if isinstance(st, (ast.With, ast.AsyncWith)):
        return [c for it in st.items for c in ast.walk(it.context_expr) if isinstance(c, ast.Call)]
    return [c for c in ast.walk(st) if isinstance(c, ast.Call)]


def _table_arg(call: ast.Call, argpos: int, kwname: Optional[str]) -> Optional[ast.AST]:
    if len(call.args) > argpos and not any(isinstance(a, ast.Starred) for a in call.args[: argpos + 1]):
        return call.args[argpos]
    for k in call.keywords:
        if kwname is not None and k.arg == kwname:
            return k.value
    return None


def write_facts(fi, writer: str = WRITER, argpos: int = 0, kwname: Optional[str] = "df") -> List[Dict[str, Any]]:
    """One record per (write call, path): how the written table was obtained on that path.  `writer` is write_pdb or a helper of
    the module that hands its parameter number `argpos` (keyword `kwname`) on to write_pdb."""
    out: List[Dict[str, Any]] = []
    # local names that may stand for the writer (`writer = write_pdb if as_pdb else write_cif`, `save = write_pdb`): a call through
    # such a name is a call of the writer on the paths where the name holds it
    aliases: Set[str] = set()
    grew = True
    while grew:
        grew = False
        for st in astq.walk_no_nested(fi.node):
            if isinstance(st, ast.Assign) and len(st.targets) == 1 and isinstance(st.targets[0], ast.Name) and st.targets[0].id not in aliases:
                if not isinstance(st.value, (ast.Name, ast.IfExp)):
                    continue
                leaves = [x for x in ast.walk(st.value) if isinstance(x, ast.Name) and isinstance(x.ctx, ast.Load)]
                if any(x.id == writer or x.id in aliases for x in leaves if x is st.value or isinstance(st.value, ast.IfExp) and (x is st.value.body or x is st.value.orelse)):
                    aliases.add(st.targets[0].id)
                    grew = True
    calls = [c for c in astq.walk_no_nested(fi.node) if isinstance(c, ast.Call) and (_callee(c) == writer or (isinstance(c.func, ast.Name) and c.func.id in aliases)) and _table_arg(c, argpos, kwname) is not None]
    for call in calls:
        loop = _innermost_loop(fi.node, call)
        block = loop.body if loop is not None else fi.node.body
        for events, exit_ in PT.paths(block):
            k_call = next((k for k, ev in enumerate(events) if ev[0] == "stmt" and any(c is call or (norm(c) == norm(call) and getattr(c, "lineno", 0) == call.lineno) for c in _stmt_calls(ev))), None)
            if k_call is None:
                continue
            defs: Dict[str, List[Tuple[int, ast.AST]]] = {}
            tests: List[Tuple[int, str, bool]] = []
            tags: List[Tuple[int, str]] = []
            for k, ev in enumerate(events[: k_call + 1]):
                if ev[0] == "test":
                    t = ev[3]
                    if isinstance(t, ast.Call) and _callee(t) == TESTER and len(t.args) == 1 and isinstance(t.args[0], ast.Name):
                        tests.append((k, t.args[0].id, bool(ev[2])))
                elif ev[0] == "stmt":
                    st = ev[1]
                    if isinstance(st, ast.Assign) and len(st.targets) == 1 and isinstance(st.targets[0], ast.Name):
                        defs.setdefault(st.targets[0].id, []).append((k, st.value))
                    elif isinstance(st, ast.AnnAssign) and isinstance(st.target, ast.Name) and st.value is not None:
                        defs.setdefault(st.target.id, []).append((k, st.value))
                    elif isinstance(st, ast.Assign) and len(st.targets) == 1:
                        m = astq.match(st.targets[0], "X_.attrs['format']")
                        if m and isinstance(m["X_"], ast.Name):
                            tags.append((k, m["X_"].id))

            def last_def(name: str, before: int) -> Optional[Tuple[int, ast.AST]]:
                ds = [d for d in defs.get(name, []) if d[0] < before]
                return ds[-1] if ds else None

            # what the path knows about conditions: outcomes of its tests, and of names that store such a condition
            truth: Dict[str, bool] = {}
            for k, ev in enumerate(events[: k_call + 1]):
                if ev[0] == "test":
                    truth[norm(ev[3])] = bool(ev[2])
            for nm, ds in defs.items():
                for k_def, val in ds:
                    if norm(val) in truth:
                        truth[nm] = truth[norm(val)]
                    elif isinstance(val, ast.UnaryOp) and isinstance(val.op, ast.Not) and norm(val.operand) in truth:
                        truth[nm] = not truth[norm(val.operand)]
            if isinstance(call.func, ast.Name) and call.func.id in aliases:
                f: ast.AST = call.func
                for _ in range(6):
                    if isinstance(f, ast.IfExp):
                        t = norm(f.test)
                        if t in truth:
                            f = f.body if truth[t] else f.orelse
                            continue
                        break
                    if isinstance(f, ast.Name) and f.id != writer:
                        d = last_def(f.id, k_call)
                        if d is None:
                            break
                        f = d[1]
                        continue
                    break
                if isinstance(f, ast.Name) and f.id != writer and f.id not in aliases:
                    continue  # on this path the name holds another function (write_cif): not a PDB write
            rec: Dict[str, Any] = {"call": call, "loop": loop, "events": events, "how": None, "table": None, "tested": None, "tagged": None, "carried": None}
            # resolve the written table: through fit_to_pdb(...), `.copy()` and plain names, along this path
            e: ast.AST = _table_arg(call, argpos, kwname)
            at = k_call
            fitted = False
            born = -1
            for _ in range(12):
                if isinstance(e, ast.IfExp):
                    t = norm(e.test)
                    neg = isinstance(e.test, ast.UnaryOp) and isinstance(e.test.op, ast.Not) and norm(e.test.operand) in truth
                    if t in truth or neg:
                        e = e.body if (truth[t] if t in truth else not truth[norm(e.test.operand)]) else e.orelse  # the branch this path takes
                        continue
                    break
                if isinstance(e, ast.Call) and _callee(e) == FITTER and len(e.args) == 1:
                    fitted, e = True, e.args[0]
                    continue
                if isinstance(e, ast.Call) and isinstance(e.func, ast.Attribute) and e.func.attr == "copy" and not e.args:
                    e = e.func.value  # a copy keeps the values (and attrs)
                    continue
                if isinstance(e, ast.Name):
                    d = last_def(e.id, at)
                    if d is None:
                        break
                    if isinstance(d[1], (ast.Name, ast.Call)) and (isinstance(d[1], ast.Name) or _callee(d[1]) == FITTER or (isinstance(d[1].func, ast.Attribute) and d[1].func.attr == "copy" and not d[1].args)):
                        at, e = d
                        continue
                    born = d[0]  # computed here from something else (pd.concat(...), a selection, ...): this is the table
                    break
                break
            rec["how"] = "fitted" if fitted else "raw"
            if isinstance(e, ast.Name):
                rec["table"] = e.id
                rec["tested"] = any(name == e.id and val and k > born for k, name, val in tests)
                rec["tagged"] = any(name == e.id and k > born for k, name in tags)
                # a decision about tables exists in the function, but not on this path: it was taken elsewhere (another round)
                rec["carried"] = (not fitted) and not rec["tested"] and any(isinstance(c, ast.Call) and _callee(c) == TESTER for c in astq.walk_no_nested(fi.node))
                rec["piece"] = isinstance(loop, ast.For) and any(isinstance(n, ast.Name) and n.id == e.id for n in ast.walk(loop.target))
            else:
                rec["expr"] = norm(e)[:60]
            out.append(rec)
    return out


def _fitted_whole(fi, r) -> Optional[str]:
    """The written table is a piece (loop target) of a table that went through fit_to_pdb before the loop: text of that fit."""
    loop = r.get("loop")
    if not r.get("piece") or not isinstance(loop, ast.For):
        return None
    roots = {x.id for x in ast.walk(loop.iter) if isinstance(x, ast.Name)}
    for _ in range(3):
        for st in astq.walk_no_nested(fi.node):
            if isinstance(st, ast.Assign) and len(st.targets) == 1 and isinstance(st.targets[0], ast.Name) and st.targets[0].id in roots:
                roots |= {x.id for x in ast.walk(st.value) if isinstance(x, ast.Name)}
    for st in astq.walk_no_nested(fi.node):
        if isinstance(st, ast.Assign) and len(st.targets) == 1 and isinstance(st.targets[0], ast.Name) and st.targets[0].id in roots and isinstance(st.value, ast.Call) and _callee(st.value) == FITTER and getattr(st, "lineno", 0) < getattr(loop, "lineno", 0):
            return norm(st)[:60]
    return None


def check_fit_before_write(chk, entries, rule: str = "fit-before-write") -> bool:
    """entries: [(module, qualname)].  Returns False when an entry has no readable write path (the caller may fall back)."""
    repo = chk.repo
    chk.robust.add(rule)
    ok_all = True
    for module, q in entries:
        if not repo.has_func(module, q):
            chk.error(rule, f"src/rnapolis/{module}.py", f"observation point {module}.{q} not found")
            ok_all = False
            continue
        fi = repo.func(module, q)
        chk.note_function(fi)
        # the observation point and the helpers of its module that write
        fis = [fi] + [g for qq, g in sorted(repo.module(module).funcs.items()) if g is not fi and any(isinstance(c, ast.Call) and _callee(c) == WRITER for c in astq.walk_no_nested(g.node))]
        try:
            facts = [(g, r) for g in fis for r in write_facts(g)]
            # a helper that writes the table it is handed: what matters is what its callers hand it (followed for two levels)
            for _ in range(2):
                grown: List[Tuple[Any, Dict[str, Any]]] = []
                for g, r in facts:
                    params = [a.arg for a in g.node.args.args]
                    if g is not fi and r["how"] == "raw" and not r["tested"] and r["table"] in params:
                        pos = params.index(r["table"]) - (1 if params and params[0] in ("self", "cls") else 0)
                        callers = [(h, r2) for h in [fi] + [x for x in repo.module(module).funcs.values() if x is not fi and x is not g] for r2 in write_facts(h, g.node.name, pos, r["table"])]
                        # no caller in the module: the helper is dead, or it was inlined into its caller by the source model
                        # (sa/inline.py) and is read there; a function that writes what it is handed is not itself at fault
                        grown += callers
                        continue
                    grown.append((g, r))
                facts = grown
        except AnalysisError as ex:
            chk.error(rule, fi.where, f"write paths of {module}.{q} not enumerable: {ex}")
            ok_all = False
            continue
        if not facts:
            chk.error(rule, fi.where, f"no call write_pdb(<table>, ...) found in {module}.py: how {module}.{q} writes PDB output is not established")
            ok_all = False
            continue
        bad: Dict[str, Tuple[Any, Any, str]] = {}
        n_ok = 0
        for g, r in facts:
            if r["how"] == "fitted" or r["tested"]:
                n_ok += 1
                continue
            if r["table"] is None:
                bad.setdefault("expr", (g, r, f"`{norm(r['call'])[:60]}` writes `{r.get('expr')}`, which is neither fit_to_pdb(<table>) nor a table tested with can_write_pdb on this path"))
                continue
            t = r["table"]
            whole = _fitted_whole(g, r)
            if whole:
                msg = (
                    f"`{norm(r['call'])[:60]}` writes the piece `{t}` of a table that was fitted as a whole (`{whole}`) before it was split: the limits - 99999 atoms and TER lines, 62 chains, 9999 residues per chain - "
                    "are then applied to all pieces together, so a model that fits on its own is renumbered or refused because of the others (and serials no longer start at 1 in each file); every table has to be fitted by itself"
                )
            elif r["carried"]:
                msg = (
                    f"on one path `{norm(r['call'])[:60]}` writes the table `{t}` as it is, without fit_to_pdb({t}) and without can_write_pdb({t}) having been tested for it on that path: the decision was taken for another table "
                    f"({'an earlier round of the loop - a flag that survives the rounds' if r['loop'] is not None else 'elsewhere'}), but serials, chain ids and residue numbers differ from table to table "
                    "(mmCIF atom ids run on across models), so a table beyond the PDB limits is written with over-wide fields - the 80-column records are broken and do not read back"
                )
            else:
                msg = f"`{norm(r['call'])[:60]}` writes the table `{t}` without fit_to_pdb({t}): values beyond the PDB limits (serial > 99999, long chain ids, residue numbers > 9999) reach the fixed-width writer"
            bad.setdefault(f"{g.qualname}:{t}", (g, r, msg))
        for key, (g, r, msg) in sorted(bad.items())[:3]:
            chk.violation(rule, g.site(r["call"]), msg, K(g, f"fit-before-write:{key}"))
        if not bad:
            chk.ok(rule, fi.where, f"{n_ok} path(s) to write_pdb in {module}.py: the table written is fit_to_pdb(<table>) (or was tested with can_write_pdb on the same path)")
    return ok_all


MODEL_COLUMNS = {"pdbx_PDB_model_num", "model"}


def check_split_by_model(chk, rule: str = "splitter-wiring") -> bool:
    """splitter.main: the tables written are the groups of `<table>.groupby(<model column of the input format>)`, and every
    group carries the input's format tag when it reaches write_pdb / write_cif (groups do not inherit `attrs`).
    Returns False when the shape is not readable (the caller falls back to the pinned form)."""
    repo = chk.repo
    if not repo.has_func("splitter", "main"):
        return False
    fi = repo.func("splitter", "main")
    recs = []
    try:
        for w in (WRITER, "write_cif"):
            recs += [(w, r) for r in write_facts(fi, w)]
    except AnalysisError:
        return False
    if not recs or any(r["table"] is None for _, r in recs):
        return False
    loops = {id(r["loop"]): r["loop"] for _, r in recs}
    if len(loops) != 1 or None in loops.values():
        return False
    loop = next(iter(loops.values()))
    if not isinstance(loop, ast.For):
        return False
    it = loop.iter
    if isinstance(it, ast.Name):
        vals = [s.value for s in astq.walk_no_nested(fi.node) if isinstance(s, ast.Assign) and len(s.targets) == 1 and isinstance(s.targets[0], ast.Name) and s.targets[0].id == it.id]
        if len(vals) != 1:
            return False
        it = vals[0]
    m = astq.match(it, "T_.groupby(C_)")
    if not m:
        return False
    col = m["C_"]
    if isinstance(col, ast.Name):
        cols = {s.value.value for s in astq.walk_no_nested(fi.node) if isinstance(s, ast.Assign) and len(s.targets) == 1 and isinstance(s.targets[0], ast.Name) and s.targets[0].id == col.id and isinstance(s.value, ast.Constant)}
        n_defs = sum(1 for s in astq.walk_no_nested(fi.node) if isinstance(s, ast.Assign) and len(s.targets) == 1 and isinstance(s.targets[0], ast.Name) and s.targets[0].id == col.id)
        if n_defs != len(cols) and n_defs != 2:
            return False
    elif isinstance(col, ast.Constant):
        cols = {col.value}
    else:
        return False
    from checks.c08e import evidence

    with evidence(chk, rule):
        chk.expect(cols == MODEL_COLUMNS, rule, fi.site(loop), "the file is split by the model column of its format (pdbx_PDB_model_num / model)", f"the table is split by {sorted(cols)}, not by the model column of the input format (pdbx_PDB_model_num for mmCIF, model for PDB)", K(fi, "split-column"), found=sorted(cols))
        written = {r["table"] for _, r in recs}
        group_vars = {n.id for n in ast.walk(loop.target) if isinstance(n, ast.Name)}
        chk.expect(written <= group_vars, rule, fi.site(loop), "every output file is made from the group of its model", f"an output file is made from `{sorted(written - group_vars)[0] if written - group_vars else ''}`, which is not the group of the model at hand", K(fi, "split-table"), found=sorted(written))
        untagged = [(w, r) for w, r in recs if r["piece"] and not r["tagged"]]
        if untagged:
            w, r = untagged[0]
            chk.violation(rule, fi.site(r["call"]), f"on one path the group `{r['table']}` reaches {w} without `{r['table']}.attrs['format']` having been set: whether a group of groupby carries the table's attrs is left to pandas (attrs propagation is experimental there); without the tag fit_to_pdb refuses the table and write_pdb assumes PDB columns", K(fi, "format-tag"))
        else:
            chk.ok(rule, fi.where, f"{len(recs)} write path(s): every model's table is tagged with the input format before it is fitted / written")
    return True
