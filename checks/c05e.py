"""C05 - `the same annotation for both formats`: the PDB reader and the mmCIF reader hand the same atoms to the duplicate filter.

parser.parse_pdb and parser.parse_cif are interpreted (sa/fragment.py; stand-ins and drivers of checks/c08e.py) on the *same* atom
written in the two formats, once per class of the alternate-location indicator (blank / 'A' / 'B'), of the record name (ATOM /
HETATM) and of the occupancy: which of the records becomes an atom must not depend on the format.  Choosing among alternate
locations is the business of the common filter_clashing_atoms (highest occupancy wins), which both readers feed; a reader that
drops records of its own by a field the other reader keeps makes the two formats of one structure give different atoms.
"""
from __future__ import annotations

from typing import Any, Dict, List, Optional, Tuple

from checks.c03 import K, spec
from sa.blockeval import Unknown
from sa.fragment import Obj, Raised, func_callable, module_callables

P = "parser"


def _cif_atoms(repo, rows: List[Dict[str, str]]) -> List[Dict[str, Any]]:
    from checks import c08e

    fi = repo.func(P, "parse_cif")
    atom_fields = c08e.dataclass_fields(repo, "tertiary", "Atom")
    attrs: List[str] = []
    for r in rows:
        for k in r:
            if k not in attrs:
                attrs.append(k)
    cat = c08e._Category(attrs, [[r.get(a, "?") for a in attrs] for r in rows])
    reader = Obj("io_adapter", readFile=lambda *a, **k: [c08e._Container({"atom_site": cat})])
    env: Dict[str, Any] = {
        "IoAdapterPy": lambda *a, **k: reader,
        "IoAdapterCore": lambda *a, **k: reader,
        "Atom": lambda *a: ("Atom",) + tuple(a),
        "ResidueAuth": lambda *a: ("ResidueAuth",) + tuple(a),
        "ResidueLabel": lambda *a: ("ResidueLabel",) + tuple(a),
        "filter_clashing_atoms": lambda atoms, *a: list(atoms),
    }
    names = {"try_parse_int"} | {g.node.name for g in c08e.new_helpers(repo, P)}
    env.update(module_callables(repo, P, names=names, outer=env))
    call = func_callable(repo, P, fi.node, env, max_steps=20000)
    f = c08e.Lines([])
    f.name = "/nonexistent/representative.cif"
    res = call(f)
    atoms = res[0] if isinstance(res, tuple) else res
    out = []
    for a in atoms:
        if not (isinstance(a, tuple) and a and a[0] == "Atom" and len(a) == len(atom_fields) + 1):
            raise Unknown("parse_cif does not return Atom(...) records")
        out.append(dict(zip(atom_fields, a[1:])))
    return out


def check_format_agreement(chk) -> None:
    from checks import c08e

    repo = chk.repo
    sp = spec("pdb_columns.json")
    fa, fb = repo.func(P, "parse_pdb"), repo.func(P, "parse_cif")
    chk.note_function(fa)
    chk.note_function(fb)
    rule = "format-same-atoms"
    cases: List[Tuple[str, Dict[str, str], Dict[str, str]]] = []
    for rec in ("ATOM", "HETATM"):
        for alt, occ in ((" ", "1.00"), ("A", "0.60"), ("B", "0.40"), ("B", "0.70"), ("C", "0.20")):
            pdb = dict(c08e.ATOM_FIELDS, altLoc=alt, occupancy=occ.rjust(6))
            cif = dict(c08e.CIF_FULL, group_PDB=rec, label_alt_id="." if alt == " " else alt, occupancy=occ)
            cases.append((f"{rec} record, alternate location {alt!r}, occupancy {occ}", {"record": rec, **pdb}, cif))
    # the atom name, one case per class of the name language: plain, primed, starred (pre-remediation), old phosphate oxygens
    for nm in ("N1", "C4'", "C5*", "O1P", "OP1"):
        pdb = dict(c08e.ATOM_FIELDS, name=(" " + nm).ljust(4)[:4])
        cif = dict(c08e.CIF_FULL, label_atom_id=nm, auth_atom_id=nm)
        cases.append((f"ATOM record, atom name {nm!r}", {"record": "ATOM", **pdb}, cif))
    diffs: Dict[str, str] = {}
    n = 0
    try:
        rd = c08e.V1Reader(repo)
        for tag, pdb, cif in cases:
            rec = pdb.pop("record")
            line = c08e.pdb_line(sp, rec, pdb)
            try:
                a = rd.read([line])
            except (Raised, Exception) as ex:
                if isinstance(ex, Unknown):
                    raise
                a = f"raises {getattr(ex, 'name', type(ex).__name__)}"
            try:
                b = _cif_atoms(repo, [cif])
            except (Raised, Exception) as ex:
                if isinstance(ex, Unknown):
                    raise
                b = f"raises {getattr(ex, 'name', type(ex).__name__)}"
            n += 1
            na = len(a) if isinstance(a, list) else a
            nb = len(b) if isinstance(b, list) else b
            if na != nb:
                diffs[tag] = f"PDB reader: {na} atom(s), mmCIF reader: {nb} atom(s)"
            elif "atom name" in tag and isinstance(a, list) and isinstance(b, list) and len(a) == 1 and a[0].get("name") != b[0].get("name"):
                diffs[tag] = f"PDB reader: atom named {a[0].get('name')!r}, mmCIF reader: atom named {b[0].get('name')!r}"
    except Unknown as ex:
        chk.error(rule, fa.where, f"the two readers are not evaluable on representative records: {str(ex)[:120]}")
        return
    chk.expect(
        not diffs,
        rule,
        fa.where,
        f"the same atom record written as a PDB line and as an mmCIF row is kept or dropped alike by parse_pdb and parse_cif ({n} cases: ATOM / HETATM x alternate location blank, A, B, C x occupancy); choosing among alternate locations is left to the common filter_clashing_atoms",
        f"the PDB reader and the mmCIF reader do not hand the same atoms to filter_clashing_atoms: {dict(list(diffs.items())[:3])} - one reader filters or rewrites records on its own (alternate-location indicator, atom names) while the other takes them as they are, so the PDB and the mmCIF file of one structure give different atoms and therefore different annotations",
        K(fa, "format-same-atoms"),
        found=diffs,
    )
