"""C15, evaluated rules (round 3): the grouping key of tertiary_v2.Structure.residues on one table per class of (format, columns present)."""
from __future__ import annotations

import ast
from typing import Any, Dict, List, Optional, Tuple

from checks.c03 import K
from checks.c08e import evidence
from sa.blockeval import Unknown
from sa.fragment import Obj, Raised, func_callable, module_callables

T2 = "tertiary_v2"

CIF_BASE = ["group_PDB", "id", "label_atom_id", "label_comp_id", "Cartn_x", "Cartn_y", "Cartn_z"]
TABLE_CLASSES: List[Tuple[str, str, List[str]]] = [
    ("PDB table with insertion codes", "PDB", ["record_type", "serial", "name", "resName", "chainID", "resSeq", "iCode", "x", "y", "z"]),
    ("PDB table without the iCode column", "PDB", ["record_type", "serial", "name", "resName", "chainID", "resSeq", "x", "y", "z"]),
    ("mmCIF table with author and label items and insertion codes", "mmCIF", CIF_BASE + ["label_asym_id", "label_seq_id", "auth_asym_id", "auth_seq_id", "pdbx_PDB_ins_code"]),
    ("mmCIF table with author and label items, no insertion code column", "mmCIF", CIF_BASE + ["label_asym_id", "label_seq_id", "auth_asym_id", "auth_seq_id"]),
    ("mmCIF table with label items only and insertion codes", "mmCIF", CIF_BASE + ["label_asym_id", "label_seq_id", "pdbx_PDB_ins_code"]),
    ("mmCIF table with label items only, no insertion code column", "mmCIF", CIF_BASE + ["label_asym_id", "label_seq_id"]),
    ("mmCIF table with auth_asym_id but no auth_seq_id", "mmCIF", CIF_BASE + ["label_asym_id", "label_seq_id", "auth_asym_id", "pdbx_PDB_ins_code"]),
    ("mmCIF table with auth_seq_id but no auth_asym_id", "mmCIF", CIF_BASE + ["label_asym_id", "label_seq_id", "auth_seq_id", "pdbx_PDB_ins_code"]),
    ("table of unknown format", "XYZ", ["a", "b"]),
]


def _want(fmt: str, cols: List[str]) -> Optional[List[str]]:
    if fmt == "PDB":
        return [c for c in ("chainID", "resSeq", "iCode") if c in cols]
    if fmt == "mmCIF":
        base = ["auth_asym_id", "auth_seq_id"] if "auth_asym_id" in cols and "auth_seq_id" in cols else ["label_asym_id", "label_seq_id"]
        return base + (["pdbx_PDB_ins_code"] if "pdbx_PDB_ins_code" in cols else [])
    return None


def check_group_columns_eval(chk, rs) -> bool:
    repo = chk.repo
    problems: List[Tuple[str, str, Any]] = []
    n = 0
    try:
        for tag, fmt, cols in TABLE_CLASSES:
            calls: List[Tuple[Any, Dict[str, Any]]] = []

            def groupby(by=None, *a, **kw):
                calls.append((by, kw))
                return []

            atoms = Obj("atoms", columns=list(cols), groupby=groupby)
            me = Obj("self", format=fmt, atoms=atoms)
            env: Dict[str, Any] = {"Residue": lambda df: Obj("residue")}
            env.update(module_callables(repo, T2, outer=env))
            call = func_callable(repo, T2, rs.node, env)
            n += 1
            try:
                res = call(me)
            except Raised as ex:
                problems.append(("raise", f"{tag}: raises {ex.name}", None))
                continue
            except Unknown:
                raise
            except Exception as ex:
                problems.append(("raise", f"{tag}: raises {type(ex).__name__}", None))
                continue
            want = _want(fmt, cols)
            if want is None:
                if calls or res != []:
                    problems.append(("unknown", f"{tag}: expected an empty list without grouping, got {len(calls)} groupby call(s)", None))
                continue
            if len(calls) != 1:
                problems.append(("calls", f"{tag}: {len(calls)} groupby calls on the atom table, expected one", None))
                continue
            by, kw = calls[0]
            by = list(by) if isinstance(by, (list, tuple)) else by
            if by != want:
                why = ""
                if isinstance(by, list) and "pdbx_PDB_ins_code" in want and "pdbx_PDB_ins_code" not in by or (isinstance(by, list) and "iCode" in want and "iCode" not in by):
                    why = ": residues that differ only by insertion code are merged"
                elif isinstance(by, list) and by[:1] != want[:1]:
                    why = ": the wrong (or a missing) chain/number item identifies the residue"
                problems.append((f"cols:{fmt}:{want}", f"{tag}: residues are grouped by {by}, expected {want}{why}", by))
            if kw.get("dropna") is not False:
                problems.append(("dropna", f"{tag}: groupby drops rows whose key has a missing value (dropna is not False): residues without an insertion code vanish", kw))
    except Unknown as ex:
        chk.ok("group-columns-eval", rs.where, f"Structure.residues is not evaluable on representative tables ({str(ex)[:80]}): the path rule decides")
        return False
    with evidence(chk, "group-columns"):
        seen = set()
        for key, msg, found in problems:
            if key in seen:
                continue
            seen.add(key)
            chk.violation("group-columns", rs.where, msg, K(rs, f"group:{key}"), found=found)
        if not problems:
            chk.ok("group-columns", rs.where, f"evaluated on {n} classes of table: residues are grouped by (chain, number, insertion code), author items first (both must exist), insertion code whenever the column exists, unknown formats give no residues")
            chk.ok("group-columns", rs.where, "the insertion code joins the grouping key when present")
            chk.ok("group-columns", rs.where, "groups with a missing insertion code are kept (dropna=False)")
    return True
