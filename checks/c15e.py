"""C15, evaluated rules (round 3): the grouping key of tertiary_v2.Structure.residues on one table per class of (format, columns present)."""
from __future__ import annotations

import ast
from typing import Any, Dict, List, Optional, Tuple

from checks.c03 import K
from checks.c08e import evidence
from sa.blockeval import Unknown
from sa.fragment import Obj, Raised, func_callable, module_callables

T2 = "tertiary_v2"

CIF_BASE = ["group_PDB", "id", "label_atom_id", "label_comp_id", "Cartn_x", "Cartn_y", "Cartn_z"]
TABLE_CLASSES: List[Tuple[str, str, List[str]]] = [
    ("PDB table with insertion codes", "PDB", ["record_type", "serial", "name", "resName", "chainID", "resSeq", "iCode", "x", "y", "z"]),
    ("PDB table without the iCode column", "PDB", ["record_type", "serial", "name", "resName", "chainID", "resSeq", "x", "y", "z"]),
    ("mmCIF table with author and label items and insertion codes", "mmCIF", CIF_BASE + ["label_asym_id", "label_seq_id", "auth_asym_id", "auth_seq_id", "pdbx_PDB_ins_code"]),
    ("mmCIF table with author and label items, no insertion code column", "mmCIF", CIF_BASE + ["label_asym_id", "label_seq_id", "auth_asym_id", "auth_seq_id"]),
    ("mmCIF table with label items only and insertion codes", "mmCIF", CIF_BASE + ["label_asym_id", "label_seq_id", "pdbx_PDB_ins_code"]),
    ("mmCIF table with label items only, no insertion code column", "mmCIF", CIF_BASE + ["label_asym_id", "label_seq_id"]),
    ("mmCIF table with auth_asym_id but no auth_seq_id", "mmCIF", CIF_BASE + ["label_asym_id", "label_seq_id", "auth_asym_id", "pdbx_PDB_ins_code"]),
    ("mmCIF table with auth_seq_id but no auth_asym_id", "mmCIF", CIF_BASE + ["label_asym_id", "label_seq_id", "auth_seq_id", "pdbx_PDB_ins_code"]),
    ("mmCIF table with author atom and residue names that differ from the label ones", "mmCIF", CIF_BASE + ["auth_atom_id", "auth_comp_id", "label_asym_id", "label_seq_id", "auth_asym_id", "auth_seq_id", "pdbx_PDB_ins_code"]),
    ("table of unknown format", "XYZ", ["a", "b"]),
]


def _want(fmt: str, cols: List[str]) -> Optional[List[str]]:
    if fmt == "PDB":
        return [c for c in ("chainID", "resSeq", "iCode") if c in cols]
    if fmt == "mmCIF":
        base = ["auth_asym_id", "auth_seq_id"] if "auth_asym_id" in cols and "auth_seq_id" in cols else ["label_asym_id", "label_seq_id"]
        return base + (["pdbx_PDB_ins_code"] if "pdbx_PDB_ins_code" in cols else [])
    return None


# (chain, number, insertion code) per atom: insertion codes on some residues only, one number with and without a code, two chains
GROUP_ROWS = [("A", 5, None), ("A", 5, None), ("A", 5, "A"), ("A", 5, "A"), ("A", 6, None), ("B", 5, None), ("B", 5, None), ("B", -1, None)]


def _table(fmt: str, cols: List[str]):
    """A table of the class (sa/frame.py, the stand-in for pandas): category columns with NaN for absent insertion codes, as the readers build it."""
    from sa.frame import frame_from_rows

    rows = []
    for k, (chain, num, ic) in enumerate(GROUP_ROWS):
        full = {
            "record_type": "ATOM", "group_PDB": "ATOM", "serial": k + 1, "id": k + 1, "name": ["P", "C4'", "N1"][k % 3], "label_atom_id": ["P", "C4'", "N1"][k % 3], "resName": "G", "label_comp_id": "G", "auth_comp_id": "GTP", "auth_atom_id": ["P", "C4*", "N1"][k % 3],
            "chainID": chain, "label_asym_id": chain.lower(), "auth_asym_id": chain, "resSeq": num, "label_seq_id": num + 100, "auth_seq_id": num, "iCode": ic, "pdbx_PDB_ins_code": ic,
            "x": 1.0 + k, "y": 2.0, "z": 3.0, "Cartn_x": 1.0 + k, "Cartn_y": 2.0, "Cartn_z": 3.0, "a": k, "b": k,
        }
        rows.append({c: full[c] for c in cols})
    return frame_from_rows(rows, fmt, categories=[c for c in ("record_type", "group_PDB", "name", "label_atom_id", "auth_atom_id", "resName", "label_comp_id", "auth_comp_id", "chainID", "label_asym_id", "auth_asym_id", "iCode", "pdbx_PDB_ins_code") if c in cols], ints=[c for c in ("serial", "resSeq", "label_seq_id", "auth_seq_id") if c in cols])


def check_group_columns_eval(chk, rs) -> bool:
    """Structure.residues interpreted on one table per class of (format, columns present); decided on its *result*: the residues are
    the partition of the rows by (chain, number, insertion code) - author items first when both exist, rows without an insertion
    code kept, every atom in exactly one residue, the format tag handed on - whatever the grouping idiom."""
    from sa.frame import Frame, isna

    repo = chk.repo
    problems: List[Tuple[str, str, Any]] = []
    n = 0
    try:
        for tag, fmt, cols in TABLE_CLASSES:
            atoms = _table(fmt, cols)
            made: List[Any] = []
            from sa.fragment import Instance

            env: Dict[str, Any] = {"Residue": lambda df: (made.append(df), Obj("residue", atoms=df))[1]}
            env.update(module_callables(repo, T2, outer=env))
            me = Instance(repo, T2, "Structure", env, format=fmt, atoms=atoms)  # helpers called on `self` are the class's own methods
            call = func_callable(repo, T2, rs.node, env, max_steps=20000)
            n += 1
            try:
                res = call(me)
            except Raised as ex:
                problems.append(("raise", f"{tag}: raises {ex.name}", None))
                continue
            except Unknown:
                raise
            except Exception as ex:
                problems.append(("raise", f"{tag}: raises {type(ex).__name__} ({str(ex)[:50]})", None))
                continue
            want_cols = _want(fmt, cols)
            if want_cols is None:
                if res != [] or made:
                    problems.append(("unknown", f"{tag}: expected an empty list of residues", None))
                continue
            ident = "serial" if "serial" in cols else "id"
            want: Dict[Any, List[int]] = {}
            for i in range(len(atoms.index)):
                key = tuple(None if isna(atoms._cols[c][i]) else atoms._cols[c][i] for c in want_cols)
                want.setdefault(key, []).append(atoms._cols[ident][i])
            got_frames = [r.atoms for r in res if isinstance(r, Obj) and isinstance(getattr(r, "atoms", None), Frame)] if isinstance(res, list) else None
            if got_frames is None or len(got_frames) != len(res):
                problems.append(("result", f"{tag}: the result is not a list of Residue(<table of its atoms>)", None))
                continue
            got = sorted(sorted(int(v) for v in g._cols[ident]) for g in got_frames)
            exp = sorted(sorted(v) for v in want.values())
            if got != exp:
                lost = sorted(set(x for v in exp for x in v) - set(x for v in got for x in v))
                if lost:
                    hint = ""
                    if all(isna(atoms._cols[want_cols[-1]][i]) for i in range(len(atoms.index)) if atoms._cols[ident][i] in lost) and want_cols[-1] in ("iCode", "pdbx_PDB_ins_code"):
                        hint = " - all of them atoms without an insertion code: rows whose grouping key has a missing value are dropped"
                    problems.append(("lost", f"{tag}: atoms {lost} belong to no residue{hint}", lost))
                elif len(got) < len(exp):
                    by = "insertion code" if any(c in ("iCode", "pdbx_PDB_ins_code") for c in want_cols) else "chain / number"
                    problems.append((f"merged:{fmt}", f"{tag}: {len(exp)} residues expected, {len(got)} built: residues that differ only by {by} are merged (atoms grouped {got})", got))
                else:
                    problems.append((f"cols:{fmt}", f"{tag}: the residues are not the groups of equal {want_cols} (atoms grouped {got}, expected {exp}): another item identifies the residue", got))
                continue
            # order of the list: chain by chain (sorted by chain, number, insertion code - what grouping by that key gives - or file order)
            from sa.frame import _sort_key

            keys_in_order = [tuple(None if isna(g._cols[c][0]) else g._cols[c][0] for c in want_cols) for g in got_frames]
            file_order = list(want)
            by_key = sorted(want, key=lambda k: tuple(_sort_key(x) for x in k))
            if keys_in_order not in (file_order, by_key):
                problems.append((f"order:{fmt}", f"{tag}: the residues come in the order {['/'.join(str(x) for x in k if x is not None) for k in keys_in_order][:6]}, neither chain by chain in (chain, number, insertion code) order nor in file order: residues of different chains are interleaved (and so are the atoms of every table made from the list)", keys_in_order[:6]))
                continue
            if any(g.attrs.get("format") != fmt for g in got_frames):
                problems.append(("format", f"{tag}: a residue's table does not carry the format tag {fmt!r}", None))
    except Unknown as ex:
        chk.ok("group-columns-eval", rs.where, f"Structure.residues is not evaluable on representative tables ({str(ex)[:80]}): the path rule decides")
        return False
    with evidence(chk, "group-columns"):
        seen = set()
        for key, msg, found in problems:
            if key in seen:
                continue
            seen.add(key)
            chk.violation("group-columns", rs.where, msg, K(rs, f"group:{key}"), found=found)
        if not problems:
            chk.ok("group-columns", rs.where, f"evaluated on {n} classes of table: the residues are the groups of equal (chain, number, insertion code), author items first (both must exist), every atom in exactly one residue")
            chk.ok("group-columns", rs.where, "the insertion code tells residues apart whenever the column exists")
            chk.ok("group-columns", rs.where, "atoms without an insertion code are kept (a missing key value does not drop the row)")
    return True


# --------------------------------------------------------------------------------------------------------------------
# round 4: connectivity evaluated - the link test of both residue models, and the segments of the table-level model
# --------------------------------------------------------------------------------------------------------------------
class _Vec(tuple):
    """A coordinate triple with the vector subtraction the link test uses."""

    _folder_stub = True

    def __sub__(self, o):
        return _Vec(a - b for a, b in zip(self, o))

    def __add__(self, o):
        return _Vec(a + b for a, b in zip(self, o))


class _Num(float):
    _folder_stub = True

    def item(self):
        return float(self)


def _numpy_stub() -> Obj:
    import math

    def norm(v, *a, **k):
        return _Num(math.sqrt(sum(float(x) * float(x) for x in v)))

    return Obj("numpy", linalg=Obj("linalg", norm=norm), sqrt=lambda x: _Num(math.sqrt(x)), array=lambda x, *a, **k: _Vec(x), dot=lambda a, b: sum(x * y for x, y in zip(a, b)))


def _residue(tag: str, atoms: Dict[str, Tuple[float, float, float]], asked: List[Tuple[str, str]]) -> Obj:
    def find_atom(name):
        asked.append((tag, name))
        return Obj(f"{tag}:{name}", name=name, coordinates=_Vec(atoms[name]), x=atoms[name][0], y=atoms[name][1], z=atoms[name][2]) if name in atoms else None

    return Obj(tag, find_atom=find_atom, atoms=[Obj(f"{tag}:{n}", name=n, coordinates=_Vec(c)) for n, c in atoms.items()])


# (description, atoms of this residue, atoms of the next one, linked?)  - O3'(this) to P(next); the statement: below 2.4 A
LINK_CASES = [
    ("O3'-P distance 1.6 A", {"O3'": (0, 0, 0), "P": (9, 9, 9)}, {"P": (1.6, 0, 0), "O3'": (9, 0, 0)}, True),
    ("O3'-P distance 2.39 A", {"O3'": (0, 0, 0), "P": (9, 9, 9)}, {"P": (0, 2.39, 0), "O3'": (9, 0, 0)}, True),
    ("O3'-P distance 2.401 A", {"O3'": (0, 0, 0), "P": (9, 9, 9)}, {"P": (0, 0, 2.401), "O3'": (9, 0, 0)}, False),
    ("O3'-P distance 2.41 A", {"O3'": (0, 0, 0), "P": (9, 9, 9)}, {"P": (2.41, 0, 0), "O3'": (9, 0, 0)}, False),
    ("O3'-P distance 7 A", {"O3'": (0, 0, 0), "P": (9, 9, 9)}, {"P": (7, 0, 0), "O3'": (9, 0, 0)}, False),
    ("only the reverse pair is close (P of this residue 1.6 A from O3' of the next)", {"O3'": (0, 0, 0), "P": (20, 0, 0)}, {"P": (9, 9, 9), "O3'": (21.6, 0, 0)}, False),
    ("this residue has no O3'", {"P": (0, 0, 0)}, {"P": (1.6, 0, 0), "O3'": (9, 0, 0)}, False),
    ("the next residue has no P", {"O3'": (0, 0, 0), "P": (9, 9, 9)}, {"O3'": (1.6, 0, 0)}, False),
    ("a negative coordinate difference (P at -1.6 A)", {"O3'": (0, 0, 0), "P": (9, 9, 9)}, {"P": (-1.6, 0, 0), "O3'": (9, 0, 0)}, True),
]


def check_link_eval(chk, module: str, qualname: str) -> bool:
    """`is_connected` of one residue model interpreted on residue pairs: linked iff O3' of this residue and P of the next are both present
    and less than 2.4 A apart.  Rules connect-atoms, connect-threshold."""
    repo = chk.repo
    fi = repo.func(module, qualname)
    bad: Dict[str, List[str]] = {}
    try:
        for tag, a, b, want in LINK_CASES:
            asked: List[Tuple[str, str]] = []
            env: Dict[str, Any] = {"np": _numpy_stub(), "numpy": _numpy_stub()}
            env.update(module_callables(repo, module, outer=env))
            call = func_callable(repo, module, fi.node, env)
            try:
                got = call(_residue("this", a, asked), _residue("next", b, asked))
            except Raised as ex:
                bad.setdefault("atoms" if "has no" in tag else "threshold", []).append(f"{tag}: raises {ex.name}")
                continue
            except Unknown:
                raise
            except Exception as ex:
                bad.setdefault("atoms" if "has no" in tag else "threshold", []).append(f"{tag}: raises {type(ex).__name__}")
                continue
            names = {(who, nm) for who, nm in asked}
            if names - {("this", "O3'"), ("next", "P")}:
                other = sorted(names - {("this", "O3'"), ("next", "P")})
                msg = "the link test looks up " + ", ".join(f"{nm} of {'this residue' if who == 'this' else 'the next residue'}" for who, nm in other)
                if msg not in bad.get("atoms", []):
                    bad.setdefault("atoms", []).append(msg)
                continue
            if bool(got) != want:
                bucket = "atoms" if ("has no" in tag or "reverse" in tag) else "threshold"
                bad.setdefault(bucket, []).append(f"{tag}: {'linked' if got else 'not linked'}")
    except Unknown as ex:
        chk.ok("connect-eval", fi.where, f"{qualname} is not evaluable on representative residue pairs ({str(ex)[:80]}): the pinned-form rules decide")
        return False
    with evidence(chk, "connect-atoms", "connect-threshold"):
        chk.expect(not bad.get("atoms"), "connect-atoms", fi.where, "evaluated: the link is measured from O3' of this residue to P of the next; without one of the two atoms the residues are not linked", "the link test does not go from this residue's O3' to the next residue's P (both present): " + "; ".join(bad.get("atoms", [])[:2]), K(fi, "atoms"), found=bad.get("atoms", [])[:4])
        chk.expect(not bad.get("threshold"), "connect-threshold", fi.where, f"evaluated on {len(LINK_CASES)} residue pairs: linked iff the O3'-P distance is below 2.4 A (2.39 linked, 2.401 and 2.41 not; whether exactly 2.4 counts is below the resolution of the float product 1.5 * 1.6 and left to the strictness rule)", "residues are not linked exactly when O3'-P is below 2.4 A: " + "; ".join(bad.get("threshold", [])[:3]), K(fi, "threshold"), found=bad.get("threshold", [])[:4])
    return True


# residues of a structure as (chain, number, insertion code) in the order the grouping hands them out, and which pairs are linked
SEGMENT_CASES: List[Tuple[str, List[Tuple[str, int, Optional[str]]], List[Tuple[Tuple[str, int, Optional[str]], Tuple[str, int, Optional[str]]]]]] = [
    ("three linked residues", [("A", 1, None), ("A", 2, None), ("A", 3, None)], [(("A", 1, None), ("A", 2, None)), (("A", 2, None), ("A", 3, None))]),
    ("a pair and a loose residue", [("A", 1, None), ("A", 2, None), ("A", 3, None)], [(("A", 1, None), ("A", 2, None))]),
    ("two pairs with a break between them", [("A", 1, None), ("A", 2, None), ("A", 3, None), ("A", 4, None)], [(("A", 1, None), ("A", 2, None)), (("A", 3, None), ("A", 4, None))]),
    ("residues handed out of numeric order", [("A", 3, None), ("A", 1, None), ("A", 2, None)], [(("A", 1, None), ("A", 2, None)), (("A", 2, None), ("A", 3, None))]),
    ("insertion codes 10, 10A, 10B handed out scrambled", [("A", 10, "B"), ("A", 10, None), ("A", 10, "A"), ("A", 11, None)], [(("A", 10, None), ("A", 10, "A")), (("A", 10, "A"), ("A", 10, "B")), (("A", 10, "B"), ("A", 11, None))]),
    ("negative numbers", [("A", -2, None), ("A", 1, None), ("A", -1, None)], [(("A", -2, None), ("A", -1, None)), (("A", -1, None), ("A", 1, None))]),
    ("two chains with equal numbers, a close pair across the chains", [("A", 1, None), ("A", 2, None), ("B", 1, None), ("B", 2, None)], [(("A", 1, None), ("A", 2, None)), (("B", 1, None), ("B", 2, None)), (("A", 2, None), ("B", 1, None))]),
    ("a single residue", [("A", 1, None)], []),
    ("no links at all", [("A", 1, None), ("A", 2, None)], []),
]


def _segments(res: List[Tuple[str, int, Optional[str]]], links) -> List[List[Tuple[str, int, Optional[str]]]]:
    chains: Dict[str, List[Tuple[str, int, Optional[str]]]] = {}
    for r in res:
        chains.setdefault(r[0], []).append(r)
    out = []
    for rs in chains.values():
        rs = sorted(rs, key=lambda r: (r[1], r[2] or ""))
        cur: List[Tuple[str, int, Optional[str]]] = []
        for r in rs:
            if cur and (cur[-1], r) in links:
                cur.append(r)
            else:
                if len(cur) > 1:
                    out.append(cur)
                cur = [r]
        if len(cur) > 1:
            out.append(cur)
    return out


def check_segments_eval(chk) -> bool:
    """Structure.connected_residues interpreted on residue lists with a given link relation: per chain, in (number, insertion code)
    order, maximal runs of consecutively linked residues, runs of at least two.  Rule connect-order."""
    repo = chk.repo
    fi = repo.func(T2, "Structure.connected_residues")
    bad: List[str] = []
    try:
        for tag0, res, links in SEGMENT_CASES:
            linkset = set(links)

            def mk(r):
                o = Obj(f"{r[0]}/{r[1]}{r[2] or ''}", chain_id=r[0], residue_number=r[1], insertion_code=r[2], key=r)
                o.is_connected = lambda other, _r=r: (_r, other.key) in linkset
                return o

            from sa.fragment import Instance

            env: Dict[str, Any] = {}
            env.update(module_callables(repo, T2, outer=env))
            # an interpreted Structure whose residues are given: helpers the method calls on `self` are the class's own
            # the segments do not depend on the format tag of the table: both tags are evaluated
            for fmt in ("PDB", "mmCIF"):
                tag = f"{tag0}, format {fmt}"
                me = Instance(repo, T2, "Structure", env, residues=[mk(r) for r in res], format=fmt)
                call = func_callable(repo, T2, fi.node, env, max_steps=20000)
                try:
                    got = call(me)
                except Raised as ex:
                    bad.append(f"{tag}: raises {ex.name}")
                    continue
                except Unknown:
                    raise
                except Exception as ex:
                    bad.append(f"{tag}: raises {type(ex).__name__} ({str(ex)[:50]})")
                    continue
                got_keys = sorted([[x.key for x in seg] for seg in got]) if isinstance(got, list) and all(isinstance(seg, list) for seg in got) else None
                want = sorted(_segments(res, linkset))
                if got_keys != want:
                    show = lambda segs: [["/".join(str(x) for x in r if x is not None) for r in seg] for seg in (segs or [])]
                    bad.append(f"{tag}: segments {show(got_keys)}, expected {show(want)}")
    except Unknown as ex:
        chk.ok("connect-eval", fi.where, f"connected_residues is not evaluable on representative residue lists ({str(ex)[:80]}): the pinned-form rule decides")
        return False
    with evidence(chk, "connect-order"):
        chk.expect(not bad, "connect-order", fi.where, f"evaluated on {len(SEGMENT_CASES)} residue lists: per chain the residues are ordered by (number, insertion code) and cut into maximal runs of linked neighbours, runs of two and more are reported, no link crosses chains", "the segments are not the maximal runs of linked neighbours per chain in (number, insertion code) order: " + "; ".join(bad[:2]), K(fi, "segments"), found=bad[:4])
    return True


# --------------------------------------------------------------------------------------------------------------------
# round 4: the accessors of both residue models evaluated on interpreted instances (sa/fragment.py:Instance)
# --------------------------------------------------------------------------------------------------------------------
def check_accessors_eval(chk) -> bool:
    """tertiary_v2.Residue (chain_id, residue_number, residue_name, insertion_code, find_atom) and tertiary_v2.Atom (name, coordinates)
    on one residue table per class of (format, columns present); common.Residue (chain, number, name) on label / author identities.
    Rules prefer-auth, pdb-field, icode-field, atom-by-name, coordinates-items."""
    from sa.fragment import Instance
    from sa.frame import Frame, isna, pd_namespace

    repo = chk.repo
    bad: Dict[str, List[str]] = {}
    n = 0
    try:
        for tag, fmt, cols in TABLE_CLASSES:
            if fmt not in ("PDB", "mmCIF"):
                continue
            full = _table(fmt, cols)
            # one residue: chain B, number -1 (rows of the last key), and one with an insertion code
            for pick, want_ic in ((("B", -1, None), None), (("A", 5, "A"), "A")):
                pos = [i for i, r in enumerate(GROUP_ROWS) if r == pick]
                sub = full._take(pos)
                sub.attrs["format"] = fmt
                env: Dict[str, Any] = {"pd": pd_namespace(), "np": _numpy_stub(), "numpy": _numpy_stub()}
                env["Atom"] = lambda data, f, _env=env: Instance(repo, T2, "Atom", _env, data=data, format=f)
                res = Instance(repo, T2, "Residue", env, atoms=sub, format=fmt)
                n += 1
                chain_col = "chainID" if fmt == "PDB" else ("auth_asym_id" if "auth_asym_id" in cols else "label_asym_id")
                num_col = "resSeq" if fmt == "PDB" else ("auth_seq_id" if "auth_seq_id" in cols else "label_seq_id")
                name_col = "resName" if fmt == "PDB" else ("auth_comp_id" if "auth_comp_id" in cols else "label_comp_id")
                ic_col = "iCode" if fmt == "PDB" else "pdbx_PDB_ins_code"
                atom_col = "name" if fmt == "PDB" else ("auth_atom_id" if "auth_atom_id" in cols else "label_atom_id")
                want = {"chain_id": sub._cols[chain_col][0], "residue_number": int(sub._cols[num_col][0]), "residue_name": sub._cols[name_col][0], "insertion_code": (want_ic if ic_col in cols else None)}
                for prop, w in want.items():
                    if prop == "insertion_code" and fmt == "PDB" and ic_col not in cols:
                        continue  # parse_pdb_atoms always creates the iCode column; a PDB table without it is not a class of input
                    try:
                        g = getattr(res, prop)
                    except (Unknown, AttributeError):
                        raise
                    except Exception as ex:
                        g = f"<raises {type(ex).__name__}>"
                    if isinstance(g, float) and isna(g):
                        g = None
                    if g != w or type(g) is not type(w):
                        rule = "icode-field" if prop == "insertion_code" else ("pdb-field" if fmt == "PDB" else "prefer-auth")
                        bad.setdefault(rule, []).append(f"{tag}: Residue.{prop} is {g!r}, the table says {w!r} ({ {'chain_id': chain_col, 'residue_number': num_col, 'residue_name': name_col, 'insertion_code': ic_col}[prop] })")
                # atoms by exact name; coordinates in axis order
                names = list(sub._cols[atom_col])
                for k, nm in enumerate(names):
                    a = res.find_atom(nm)
                    first = names.index(nm)
                    xs = sub._cols["x" if fmt == "PDB" else "Cartn_x"]
                    if a is None or not isinstance(a, Instance):
                        bad.setdefault("atom-by-name", []).append(f"{tag}: find_atom({nm!r}) finds nothing although the residue has that atom")
                        continue
                    co = a.coordinates
                    if [float(v) for v in co] != [float(xs[first]), 2.0, 3.0]:
                        bad.setdefault("coordinates-items", []).append(f"{tag}: the coordinates of atom {nm!r} are {list(co)}, the row says {[xs[first], 2.0, 3.0]}")
                    if a.name != nm:
                        bad.setdefault("atom-by-name", []).append(f"{tag}: find_atom({nm!r}) returns the atom named {a.name!r}")
                if res.find_atom("XX9") is not None or res.find_atom(names[0].lower() + "'") is not None:
                    bad.setdefault("atom-by-name", []).append(f"{tag}: find_atom returns an atom for a name the residue does not have")
        # residue-level model: the author identity wins, the label identity is the fallback
        for what in ("chain", "number", "name"):
            for has_auth, has_label in ((True, True), (True, False), (False, True)):
                auth = Obj("auth", chain="A", number=-3, name="GTP", icode=None) if has_auth else None
                label = Obj("label", chain="x", number=41, name="G") if has_label else None
                r = Instance(repo, "common", "Residue", {}, label=label, auth=auth)
                g = getattr(r, what)
                w = getattr(auth if has_auth else label, what)
                if g != w:
                    bad.setdefault("prefer-auth", []).append(f"common.Residue.{what} is {g!r} for a residue with {'author and label' if has_auth and has_label else ('author' if has_auth else 'label')} identity, expected {w!r}")
    except (Unknown, AttributeError) as ex:
        chk.ok("accessors-eval", "-", f"the residue accessors are not evaluable on interpreted instances ({str(ex)[:80]}): the pinned-form rules decide")
        return False
    fi = repo.func(T2, "Residue.chain_id")
    texts = {
        "prefer-auth": f"evaluated on {n} residue tables and 9 residue-level identities: chain, number and name come from the author items when they exist, else from the label items",
        "pdb-field": "evaluated: PDB rows give chain, number and name from chainID, resSeq and resName",
        "icode-field": "evaluated: the insertion code comes from iCode / pdbx_PDB_ins_code, None when missing or when the column does not exist",
        "atom-by-name": "evaluated: find_atom returns the atom of exactly that name (author atom names first), None for a name the residue does not have",
        "coordinates-items": "evaluated: coordinates are (x, y, z) resp. (Cartn_x, Cartn_y, Cartn_z) in axis order",
    }
    with evidence(chk, *texts):
        for rule, text in texts.items():
            if rule in bad:
                chk.violation(rule, fi.where, "; ".join(bad[rule][:2]), K(fi, f"accessors:{rule}"), found=bad[rule][:4])
            else:
                for _ in range(6 if rule == "prefer-auth" else 1):
                    chk.ok(rule, fi.where, text if _ == 0 else f"{text} [{['chain', 'number', 'name', 'chain (residue level)', 'number (residue level)', 'name (residue level)'][_]}]")
    return True
