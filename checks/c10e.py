"""C10, evaluated rules (round 3): pure fragments of fit_to_pdb interpreted on representatives.

fit_to_pdb is pandas code and cannot be interpreted as a whole, but three of its parts are pure Python over small values and
decide facts the statement needs:

* the chain map (distinct chain ids of the table, in file order -> one-character ids): one-to-one, total, into the alphabet -
  for every class of order in which valid one-character and longer names can meet;
* the per-format choice of the serial / chain / number / insertion-code columns;
* the map used to rename mmCIF items to PDB columns, for each class of table (author atom/residue name items present or not):
  injective on the columns of the table and sending every item write_pdb prefers to its PDB field.

Each fragment is cut out of the function by a backward slice from the place where its result is used (so it does not matter
whether it is a comprehension, a loop, dict(zip(...)), a table plus a loop, ...).
"""
from __future__ import annotations

import ast
from typing import Any, Dict, List, Optional, Sequence, Set, Tuple

from checks.c03 import K, spec
from checks.c08e import evidence
from sa import astq
from sa.blockeval import Unknown
from sa.fragment import BlockEval2, Obj, Raised, func_callable, module_callables
from sa.model import norm
from sa.normalize import backward_slice

M = "parser_v2"


def top_index(fi, node: ast.AST) -> Optional[int]:
    for k, st in enumerate(fi.node.body):
        if any(n is node for n in ast.walk(st)):
            return k
    return None


def eval_slice(repo, fi, upto: int, names: Set[str], env: Dict[str, Any], stop: Sequence[str]) -> Tuple[str, Dict[str, Any]]:
    """Interpret the statements of fi.body[:upto] that `names` depend on (inputs `stop` come from env).  -> (exit kind, environment)"""
    frag = backward_slice(fi.node.body, upto, set(names), stop=tuple(stop))
    # a refusal that looks at what the slice computes belongs to it (`if columns is None: raise ValueError(...)` before the unpacking)
    stored = {n.id for st in frag for n in ast.walk(st) if isinstance(n, ast.Name) and isinstance(n.ctx, ast.Store)}
    guards = [st for st in fi.node.body[:upto] if isinstance(st, ast.If) and not st.orelse and st.body and isinstance(st.body[-1], ast.Raise) and st not in frag
              and {n.id for n in ast.walk(st.test) if isinstance(n, ast.Name)} & stored and not any(isinstance(n, ast.Call) for n in ast.walk(st.test))]
    if guards:
        keep = set(map(id, frag)) | set(map(id, guards))
        frag = [st for st in fi.node.body[:upto] if id(st) in keep]
    e = dict(env)
    e.update(module_callables(repo, M, outer=e))
    ev = BlockEval2(repo, M, e, max_steps=20000)
    kind, val = ev.run(frag)
    return (f"raise {val}" if kind == "raise" else kind), ev.env


# --------------------------------------------------------------------------------------------------------------------
CHAIN_ORDERS: List[Tuple[str, List[str]]] = [
    ("valid one-character names only", ["A", "B", "C"]),
    ("a long name after the one-character name it is derived from", ["A", "A-2"]),
    ("a long name before a one-character name", ["A-2", "A"]),
    ("two long names, then the first letter of the alphabet", ["AA", "AB", "A"]),
    ("a long name between one-character names", ["A", "X1", "B"]),
    ("long names only", ["A-1", "A-2", "B-1", "B-2"]),
    ("lower and upper case of one letter", ["b", "B"]),
    ("a one-character name outside the alphabet before a letter", ["*", "A"]),
    ("later letters first, then long names", ["C", "B", "AAA", "BBB", "A"]),
    ("62 long names", [f"c{i}" for i in range(62)]),
]


def check_chain_map_eval(chk, fi) -> bool:
    repo = chk.repo
    # the map applied to the chain column: <frame>[chain_col] = <frame>[chain_col].map(X)
    uses = []
    for st in fi.node.body:
        if isinstance(st, ast.Assign) and isinstance(st.value, ast.Call) and isinstance(st.value.func, ast.Attribute) and st.value.func.attr in ("map", "replace") and st.value.args and isinstance(st.value.args[0], ast.Name):
            tgt, src = norm(st.targets[0]), norm(st.value.func.value)
            if tgt == src and "chain" in tgt:
                uses.append(st)
    uniq = [st for st in fi.node.body if isinstance(st, ast.Assign) and len(st.targets) == 1 and isinstance(st.targets[0], ast.Name) and astq.match(st.value, "X_[C_].unique()")]
    if len(uses) != 1 or len(uniq) != 1:
        return False
    use = uses[0]
    mname = use.value.args[0].id
    uname = uniq[0].targets[0].id
    upto = fi.node.body.index(use)
    problems: List[Tuple[str, str]] = []
    n = 0
    try:
        for tag, chains in CHAIN_ORDERS:
            kind, env = eval_slice(repo, fi, upto, {mname}, {uname: list(chains), "df": Obj("df"), "df_fitted": Obj("df_fitted")}, stop=(uname, "df", "df_fitted"))
            n += 1
            if kind != "fall":
                problems.append((tag, f"building the chain map ends with `{kind}` for the chain order {chains[:6]}"))
                continue
            mp = env.get(mname)
            if not isinstance(mp, dict):
                raise Unknown("the chain map is not a dictionary")
            alpha = None
            for k2, v2 in env.items():
                if isinstance(v2, list) and len(v2) == 62 and all(isinstance(x, str) and len(x) == 1 for x in v2):
                    alpha = v2
            missing = [c for c in chains if c not in mp]
            vals = [mp[c] for c in chains if c in mp]
            dup = sorted({v for v in vals if vals.count(v) > 1})
            bad = [v for v in vals if not (isinstance(v, str) and len(v) == 1 and (alpha is None or v in alpha))]
            if missing:
                problems.append((tag, f"chains {missing[:4]} get no new id (chain order {chains[:6]}): their rows become NaN"))
            elif dup:
                who = {v: [c for c in chains if mp[c] == v] for v in dup}
                problems.append((tag, f"with the chains in the order {chains[:6]} the map is {dict((c, mp[c]) for c in chains[:6])}: chains {who[dup[0]]} both become `{dup[0]}`, so two chains (and their equally numbered residues) are merged - the renaming is not one-to-one"))
            elif bad:
                problems.append((tag, f"the new id `{bad[0]}` is not a single character of the PDB chain alphabet (chain order {chains[:6]})"))
    except Unknown as ex:
        chk.ok("chain-map-eval", fi.where, f"the chain map is not evaluable on representative chain orders ({str(ex)[:80]}): the pinned-form rule decides")
        return False
    with evidence(chk, "chain-map"):
        if problems:
            tag, msg = problems[0]
            chk.violation("chain-map", fi.site(use), f"{tag}: {msg}", K(fi, "chain-map"), found=[m for _, m in problems[:4]])
        else:
            chk.ok("chain-map", fi.site(use), f"evaluated on {n} orders of one-character and longer chain names: every chain gets an id, the ids are distinct single characters of the alphabet (one-to-one renaming)")
    return True


# --------------------------------------------------------------------------------------------------------------------
WANT_COLUMNS = {"PDB": ("serial", "chainID", "resSeq", "iCode"), "mmCIF": ("id", "auth_asym_id", "auth_seq_id", "pdbx_PDB_ins_code")}
COL_VARS = ("serial_col", "chain_col", "resseq_col", "icode_col")


def check_column_selection_eval(chk, fi) -> bool:
    repo = chk.repo
    # first top-level statement after which all four names are bound: the statement that binds the last of them
    bound: Set[str] = set()
    upto = None
    for k, st in enumerate(fi.node.body):
        bound |= {n.id for n in ast.walk(st) if isinstance(n, ast.Name) and isinstance(n.ctx, ast.Store)}
        if set(COL_VARS) <= bound:
            upto = k + 1
            break
    if upto is None:
        return False
    got: Dict[str, Any] = {}
    try:
        for fmt in ("PDB", "mmCIF", "XYZ"):
            kind, env = eval_slice(repo, fi, upto, set(COL_VARS), {"format_type": fmt, "df": Obj("df", attrs={"format": fmt}, columns=[])}, stop=("format_type", "df"))
            got[fmt] = tuple(env.get(v) for v in COL_VARS) if kind == "fall" else kind
    except Unknown as ex:
        chk.ok("column-selection-eval", fi.where, f"column selection not evaluable ({str(ex)[:80]}): the pinned-form rule decides")
        return False
    with evidence(chk, "column-selection", "only-valueerror"):
        bad = {f: got[f] for f in WANT_COLUMNS if got[f] != WANT_COLUMNS[f]}
        chk.expect(not bad, "column-selection", fi.where, "evaluated: serial/chain/number/icode columns per format (author items for mmCIF)", f"the columns fit_to_pdb renames are {bad}, not (serial, chainID, resSeq, iCode) / (id, auth_asym_id, auth_seq_id, pdbx_PDB_ins_code)", K(fi, "columns"), expected={k: list(v) for k, v in WANT_COLUMNS.items()}, found={k: list(v) if isinstance(v, tuple) else v for k, v in got.items()})
        chk.expect(got["XYZ"] == "raise ValueError", "only-valueerror", fi.where, "evaluated: an unknown format is refused with ValueError", f"a table of unknown format ends the column selection with `{got['XYZ']}` instead of ValueError", K(fi, "unknown-format"))
    return True


# --------------------------------------------------------------------------------------------------------------------
CIF_ITEMS = ["group_PDB", "id", "type_symbol", "label_atom_id", "label_alt_id", "label_comp_id", "label_asym_id", "label_entity_id", "label_seq_id", "pdbx_PDB_ins_code", "Cartn_x", "Cartn_y", "Cartn_z", "occupancy", "B_iso_or_equiv", "pdbx_formal_charge", "auth_seq_id", "auth_comp_id", "auth_asym_id", "auth_atom_id", "pdbx_PDB_model_num"]


def rename_maps(chk, fi) -> Optional[List[Tuple[str, List[str], Dict[str, str]]]]:
    """[(class of table, its columns, the rename map applied to it)] or None when not evaluable / not found."""
    repo = chk.repo
    calls = [(k, c) for k, st in enumerate(fi.node.body) for c in ast.walk(st) if isinstance(st, ast.Expr) and isinstance(c, ast.Call) and isinstance(c.func, ast.Attribute) and c.func.attr == "rename" and any(kw.arg == "columns" and isinstance(kw.value, ast.Name) for kw in c.keywords)]
    if len(calls) != 1:
        return None
    upto, call = calls[0]
    mname = next(kw.value.id for kw in call.keywords if kw.arg == "columns")
    frame = norm(call.func.value)
    out = []
    for tag, drop in (("author and label items present", ()), ("no auth_atom_id", ("auth_atom_id",)), ("no auth_comp_id", ("auth_comp_id",)), ("neither auth_atom_id nor auth_comp_id", ("auth_atom_id", "auth_comp_id")), ("author items only", ("label_atom_id", "label_comp_id", "label_asym_id", "label_seq_id"))):
        cols = [c for c in CIF_ITEMS if c not in drop]
        # group_PDB may already have been renamed by an earlier, separate step
        stub = Obj(frame, columns=list(cols))
        kind, env = eval_slice(repo, fi, upto, {mname}, {frame: stub, "df": stub}, stop=(frame, "df", "chain_col", "icode_col", "resseq_col", "serial_col"))
        mp = env.get(mname)
        if kind != "fall" or not isinstance(mp, dict):
            raise Unknown(f"the rename map is not a dictionary (slice ends with {kind})")
        out.append((tag, cols, dict(mp)))
    return out


# --------------------------------------------------------------------------------------------------------------------
# round 4: fit_to_pdb interpreted as a whole on representative tables (pandas objects: sa/frame.py)
# --------------------------------------------------------------------------------------------------------------------
CIF_CATEGORY = ["group_PDB", "id", "type_symbol", "label_atom_id", "auth_atom_id", "label_alt_id", "label_comp_id", "auth_comp_id", "label_asym_id", "auth_asym_id", "label_entity_id", "pdbx_PDB_ins_code"]
CIF_INT = ["label_seq_id", "auth_seq_id", "pdbx_PDB_model_num", "pdbx_formal_charge"]
# PDB field -> the mmCIF item(s) it comes from (author items preferred), used to compare the fitted table with its source
FIELD_SOURCE = {
    "record_type": ["group_PDB"], "name": ["auth_atom_id", "label_atom_id"], "altLoc": ["label_alt_id"], "resName": ["auth_comp_id", "label_comp_id"], "x": ["Cartn_x"], "y": ["Cartn_y"], "z": ["Cartn_z"],
    "occupancy": ["occupancy"], "tempFactor": ["B_iso_or_equiv"], "element": ["type_symbol"], "charge": ["pdbx_formal_charge"], "model": ["pdbx_PDB_model_num"],
}


def cif_rows(spec_rows: Sequence[Tuple[Any, ...]], first_id: int = 1, icode_column: bool = True) -> List[Dict[str, Any]]:
    """(chain, number, insertion code[, model]) per atom -> rows of an mmCIF atom table; every other field identifies its row."""
    out = []
    for k, r in enumerate(spec_rows):
        chain, num, ic = r[0], r[1], r[2]
        model = r[3] if len(r) > 3 else 1
        row = {
            "group_PDB": "HETATM" if k % 5 == 4 else "ATOM", "id": first_id + k, "type_symbol": ["P", "C", "N", "O"][k % 4], "label_atom_id": ["P", "C4'", "N1", "O6"][k % 4], "auth_atom_id": ["P", "C4'", "N1", "O6"][k % 4],
            "label_alt_id": "A" if k % 4 == 1 else None, "label_comp_id": ["G", "C", "A", "U"][k % 4], "auth_comp_id": ["G", "C", "A", "U"][k % 4], "label_asym_id": chain, "auth_asym_id": chain, "label_entity_id": "1",
            "label_seq_id": num, "auth_seq_id": num, "pdbx_PDB_ins_code": ic, "Cartn_x": 1.5 + k, "Cartn_y": -2.25 - k, "Cartn_z": 30.125 + k, "occupancy": round(0.35 + 0.05 * k, 2), "B_iso_or_equiv": 20.5 + k,
            "pdbx_formal_charge": None, "pdbx_PDB_model_num": model,
        }
        if not icode_column:
            del row["pdbx_PDB_ins_code"]
        out.append(row)
    return out


# (tag, what the table isolates, rows, keyword arguments of cif_rows, row labels)
FIT_TABLES: List[Tuple[str, str, List[Tuple[Any, ...]], Dict[str, Any], Optional[List[int]]]] = [
    ("two chains, one with a long id; residues in contiguous blocks, few with an insertion code", "basic", [("AA", 5, None), ("AA", 5, None), ("AA", 5, "A"), ("AA", 6, None), ("B", 5, None), ("B", 6, None)], {}, None),
    ("a residue whose atoms are not contiguous (hydrogens listed after the heavy atoms of the chain)", "noncontiguous", [("AA", 5, None), ("AA", 6, None), ("AA", 7, None), ("AA", 5, None), ("AA", 6, None)], {}, None),
    ("interleaved chains that come back to an unfinished residue", "noncontiguous", [("AA", 5, None), ("B", 5, None), ("AA", 5, None), ("B", 5, None), ("B", 6, None)], {}, None),
    ("residue numbers above 9999, negative numbers, one number with several insertion codes", "basic", [("A", -3, None), ("A", 10000, None), ("A", 10000, "A"), ("A", 10000, "B"), ("A", 10001, None)], {}, None),
    ("serials above 99999 in a table of short chain ids", "basic", [("A", 1, None), ("A", 2, None), ("B", 1, None)], {"first_id": 99999}, None),
    ("a table without the optional insertion-code column", "no-icode", [("AA", 5, None), ("AA", 6, None), ("B", 5, None)], {"icode_column": False}, None),
    ("one model cut out of a larger table (row labels 100, 101, ...)", "labels", [("AA", 5, None), ("AA", 5, "A"), ("B", 7, None), ("AA", 6, None)], {}, [100, 101, 102, 103]),
    ("a table put together from per-residue pieces: row labels neither increasing nor starting at 0 (7, 3, 12, 5, 9, 4)", "labels", [("AA", 5, None), ("AA", 5, None), ("B", 7, None), ("AA", 6, None), ("B", 7, "A"), ("AA", 6, None)], {}, [7, 3, 12, 5, 9, 4]),
    ("a two-model table handed over whole (model 2 repeats the residue identities of model 1)", "noncontiguous", [("AA", 5, None, 1), ("AA", 6, None, 1), ("AA", 5, None, 2), ("AA", 6, None, 2)], {}, None),
    ("insertion codes on every residue", "basic", [("AA", 5, "A"), ("AA", 5, "B"), ("AA", 5, "B"), ("B", 5, "A")], {}, None),
]


def cif_table(repo, rows: List[Dict[str, Any]], labels: Optional[List[int]] = None):
    """The mmCIF table of these atom_site rows *as the current parse_cif_atoms builds it* (interpreted, see checks/c08e.py:V2CifReader),
    so that what is fitted has the column types the reader really produces (author numbers and ids as text categories, label numbers
    and models as nullable integers, ...).  When the reader is not evaluable: the typing of the pinned reader, by hand."""
    from sa.frame import Index, frame_from_rows

    fr = None
    if rows:
        try:
            from checks.c08e import V2CifReader

            def txt(v):
                return "?" if v is None else (f"{v:.3f}" if isinstance(v, float) else str(v))

            fr = V2CifReader(repo).read([{k: txt(v) for k, v in r.items()} for r in rows], "text")
            if len(fr.index) != len(rows):
                fr = None
        except Exception:
            fr = None
    if fr is None:
        fr = frame_from_rows(rows, "mmCIF", categories=CIF_CATEGORY, ints=CIF_INT)
    if labels is not None:
        fr.index = Index(list(labels))
    return fr


def fit_env(repo) -> Dict[str, Any]:
    from sa.frame import pd_namespace

    env: Dict[str, Any] = {"pd": pd_namespace(), "object": object}
    fi = repo.func(M, "fit_to_pdb")
    m = repo.module(M)
    names, todo = set(), [astq.callee_name(c) for c in ast.walk(fi.node) if isinstance(c, ast.Call)]
    while todo:
        n = todo.pop()
        if n in names or n not in m.funcs or n == "fit_to_pdb":
            continue
        names.add(n)
        todo += [astq.callee_name(c) for c in ast.walk(m.funcs[n].node) if isinstance(c, ast.Call)]
    # plus the new helpers, which module-level tables may mention without any function calling them by name - in one environment,
    # so that every interpreted function sees every other
    ref = repo.reference.get(M) if hasattr(repo, "reference") else None
    names |= {q for q in m.funcs if "." not in q and ref is not None and q not in ref.funcs and q != "fit_to_pdb"}
    env.update(module_callables(repo, M, names=names, outer=env))
    return env


def _snapshot(fr) -> Tuple[Any, ...]:
    from sa.frame import _key

    return (tuple(fr.index._v), tuple((c, tuple(_key(v) for v in vals)) for c, vals in fr._cols.items()), tuple(sorted(fr.attrs.items())))


def _same(a: Any, b: Any) -> bool:
    from sa.frame import isna

    if (isna(a) or a == "") and (isna(b) or b == ""):
        return True
    if isna(a) or isna(b):
        return False
    return a == b or str(a) == str(b)


def check_fit_eval(chk, fi) -> Optional[Set[str]]:
    """The rules decided here (their pinned-form versions are then skipped by the caller); None when fit_to_pdb is not evaluable."""
    from sa.frame import Frame, frame_from_rows, isna

    repo = chk.repo
    c = spec("constants.json")["C10"]
    bad: Dict[str, List[str]] = {}
    okc: Dict[str, int] = {}

    def note(rule: str, msg: Optional[str]) -> None:
        if msg:
            bad.setdefault(rule, []).append(msg)
        else:
            okc[rule] = okc.get(rule, 0) + 1

    from sa.fragment import coverage

    _cov = coverage()
    cov = _cov.__enter__()
    try:
        env = fit_env(repo)
        for tag, kind, spec_rows, kw, labels in FIT_TABLES:
            rows = cif_rows(spec_rows, **kw)
            df = cif_table(repo, rows, labels)
            before = _snapshot(df)
            call = func_callable(repo, M, fi.node, env, max_steps=60000)
            try:
                out = call(df)
            except Raised as ex:
                note("residue-map" if kind in ("noncontiguous", "labels") else ("column-guard" if kind == "no-icode" else "result"), f"{tag}: fit_to_pdb raises {ex.name} although the table can be fitted")
                continue
            except Unknown:
                raise
            except Exception as ex:
                rule = "column-guard" if kind == "no-icode" and isinstance(ex, KeyError) else ("dtype-typestate" if isinstance(ex, TypeError) else "result")
                note(rule, f"{tag}: fit_to_pdb raises {type(ex).__name__} ({str(ex)[:70]}) although the table can be fitted")
                continue
            note("input-untouched", None if _snapshot(df) == before else f"{tag}: the table handed in is changed by fit_to_pdb")
            if not isinstance(out, Frame) or out is df:
                note("result", f"{tag}: the table does not fit, yet fit_to_pdb returns {'it unchanged' if out is df else 'no table'}")
                continue
            n = len(rows)
            if len(out.index) != n:
                note("frame-condition", f"{tag}: {n} atoms in, {len(out.index)} atoms out")
                continue
            cols = out._cols
            missing = [f for f in ("serial", "chainID", "resSeq", "iCode") + tuple(FIELD_SOURCE) if f not in cols]
            if missing:
                note("essential-columns", f"{tag}: the fitted table has no column {missing[:4]}")
                continue
            note("essential-columns", None)
            note("result", None if out.attrs.get("format") == "PDB" else f"{tag}: the fitted table is tagged format={out.attrs.get('format')!r}, not 'PDB'")
            # atoms keep their order and every other field
            moved = [f for f, srcs in FIELD_SOURCE.items() if not all(_same(cols[f][i], rows[i][srcs[0]]) for i in range(n))]
            perm = bool(moved) and "x" in moved and sorted(str(v) for v in cols["x"]) == sorted(str(r["Cartn_x"]) for r in rows)
            if perm:
                order = [next((j for j, r in enumerate(rows) if _same(r["Cartn_x"], v)), None) for v in cols["x"]]
                note("row-order", f"{tag}: the atoms come back in the order {[None if j is None else j + 1 for j in order]} of their input positions - the fitted table is a permutation of the table handed in (every field still belongs to its atom, but 'atoms keep their order' does not hold, and serials / TER records follow the new order)")
            elif moved:
                note("frame-condition", f"{tag}: field(s) {moved[:4]} of the fitted table differ from the source rows")
            else:
                note("frame-condition", None)
                note("row-order", None)
            # which input row each output row is (the same position unless the table came back permuted, reported above)
            src_rows = [rows[j] for j in order] if perm and all(j is not None for j in order) and len(set(order)) == n else rows
            old_chain = [r["auth_asym_id"] for r in src_rows]
            old_res = [(r["auth_asym_id"], r["auth_seq_id"], None if isna(r.get("pdbx_PDB_ins_code")) else r.get("pdbx_PDB_ins_code")) for r in src_rows]
            new_chain = list(cols["chainID"])
            new_res = [(cols["chainID"][i], None if isna(cols["resSeq"][i]) else int(cols["resSeq"][i]), None if isna(cols["iCode"][i]) or cols["iCode"][i] == "" else cols["iCode"][i]) for i in range(n)]
            # chains: a one-to-one renaming into single characters
            fwd: Dict[Any, set] = {}
            back: Dict[Any, set] = {}
            for o, nw in zip(old_chain, new_chain):
                fwd.setdefault(o, set()).add(nw)
                back.setdefault(nw, set()).add(o)
            if any(len(v) > 1 for v in fwd.values()) or any(len(v) > 1 for v in back.values()) or any(not isinstance(x, str) or len(x) != c["max_chain_len"] for x in new_chain):
                note("chain-map", f"{tag}: chains {old_chain} become {new_chain}: not a one-to-one renaming into one-character ids")
            else:
                note("chain-map", None)
            # residues: one-to-one, grouping preserved
            fwd2: Dict[Any, set] = {}
            back2: Dict[Any, set] = {}
            for o, nw in zip(old_res, new_res):
                fwd2.setdefault(o, set()).add(nw)
                back2.setdefault(nw, set()).add(o)
            split = sorted(((o, sorted(v, key=str)) for o, v in fwd2.items() if len(v) > 1), key=str)
            merged = sorted(((nw, sorted(v, key=str)) for nw, v in back2.items() if len(v) > 1), key=str)

            def show(t):
                return f"{t[0]}/{t[1]}{t[2] or ''}"

            if any(x[1] is None for x in new_res):
                note("residue-map", f"{tag}: some atoms get no residue number (residue numbers become {[x[1] for x in new_res]})")
            elif split:
                o, v = split[0]
                note("residue-map", f"{tag}: the atoms of residue {show(o)} are spread over the new residues {', '.join(show(x) for x in v)} - a residue whose atoms are not one contiguous block is split, the renaming is not a mapping of residues (it depends on the row order)")
            elif merged:
                nw, v = merged[0]
                note("residue-map", f"{tag}: residues {', '.join(show(x) for x in v)} are merged into {show(nw)} - the renaming is not one-to-one")
            elif any(not (1 <= x[1] <= c["max_resseq"]) for x in new_res):
                note("residue-map", f"{tag}: new residue numbers {[x[1] for x in new_res]} leave 1..{c['max_resseq']}")
            else:
                note("residue-map", None)
            # serials: within the limit, ascending in row order, one number left for the TER of every chain change
            ser = [None if isna(v) else int(v) for v in cols["serial"]]
            msg = None
            if any(v is None for v in ser):
                msg = "a row gets no serial"
            elif any(not (1 <= v <= c["max_serial"]) for v in ser):
                msg = f"serials {ser} leave 1..{c['max_serial']}"
            elif any(b2 <= a2 for a2, b2 in zip(ser, ser[1:])):
                msg = f"serials {ser} do not ascend in row order"
            elif any(new_chain[i] != new_chain[i + 1] and ser[i + 1] - ser[i] < 2 for i in range(n - 1)):
                msg = f"serials {ser}: no number is left for the TER record where the chain changes"
            note("serial-renumber", f"{tag}: {msg}" if msg else None)
        # a table that already fits (PDB rows; mmCIF rows within the limits) is returned itself
        for fmt, tag in (("PDB", "a PDB-format table"), ("mmCIF", "an mmCIF table within the limits"), ("empty", "an empty mmCIF table")):
            if fmt == "empty":
                df = frame_from_rows([], "mmCIF")
            elif fmt == "PDB":
                from checks.c09e import _row

                df = frame_from_rows([_row("PDB", k, 1, "A") for k in range(3)], "PDB", categories=["record_type", "name", "altLoc", "resName", "chainID", "iCode", "element", "charge"], ints=["serial", "resSeq", "model"])
            else:
                df = cif_table(repo, cif_rows([("A", 1, None), ("A", 2, "A"), ("B", 9999, None)], first_id=99997))
            before = _snapshot(df)
            call = func_callable(repo, M, fi.node, env, max_steps=60000)
            try:
                out = call(df)
                note("fits-returns-same", None if out is df and _snapshot(df) == before else f"{tag} is not returned unchanged (a {'copy' if isinstance(out, Frame) else type(out).__name__} comes back{'' if _snapshot(df) == before else ', the input is edited'})")
            except Raised as ex:
                note("fits-returns-same", f"{tag}: fit_to_pdb raises {ex.name}")
        # the chain alphabet: 62 chains are renamed to 62 distinct single characters, 63 chains are refused
        for n_chains in (62, 63):
            df = cif_table(repo, cif_rows([(f"c{k}", 1, None) for k in range(n_chains)]))
            call = func_callable(repo, M, fi.node, env, max_steps=120000)
            try:
                out = call(df)
                ids = list(out._cols.get("chainID", [])) if isinstance(out, Frame) and out is not df else None
                if n_chains == 63:
                    note("chain-alphabet", f"a table of 63 chains is not refused (it comes back with chain ids {ids[:3] if ids else ids}...)")
                elif ids is None or len(set(ids)) != 62 or any(not isinstance(x, str) or len(x) != 1 for x in ids):
                    note("chain-alphabet", f"a table of 62 chains does not get 62 distinct one-character ids ({len(set(ids or []))} distinct)")
                else:
                    note("chain-alphabet", None)
            except Raised as ex:
                note("chain-alphabet", None if (n_chains == 63 and ex.name == "ValueError") else f"a table of {n_chains} chains: fit_to_pdb raises {ex.name}" + (" instead of ValueError" if n_chains == 63 else " although 62 chains can be named"))
            except Unknown:
                raise
            except Exception as ex:
                note("chain-alphabet", None if (n_chains == 63 and isinstance(ex, ValueError)) else f"a table of {n_chains} chains: fit_to_pdb raises {type(ex).__name__}" + (" instead of ValueError: the alphabet runs out before the size check" if n_chains == 63 else ""))
    except Unknown as ex:
        chk.ok("fit-eval", fi.where, f"fit_to_pdb is not evaluable as a whole on representative tables ({str(ex)[:90]}): the pinned-form rules decide")
        return None
    finally:
        _cov.__exit__(None, None, None)
    texts = {
        "residue-map": "every residue (chain, number, insertion code) gets one new number 1..n of its chain, different residues get different numbers, also when its atoms are not contiguous, come in several models or carry arbitrary row labels",
        "chain-map": "chains are renamed one-to-one into single characters",
        "serial-renumber": "serials ascend from 1 in row order within the limit, leaving a number for the TER of every chain change",
        "frame-condition": "record type, names, coordinates, occupancy, B-factor, element, charge and model of every row are those of the source row",
        "row-order": "atoms keep their order, whatever the row labels of the table are (default, offset, neither increasing nor starting at 0)",
        "input-untouched": "the table handed in is not changed",
        "result": "a table that needs fitting comes back as a new table tagged format='PDB'",
        "essential-columns": "the fitted table has the PDB columns the writer reads",
        "fits-returns-same": "a table that already fits (PDB rows, mmCIF rows within the limits) is returned itself, unchanged",
        "column-guard": "a table without the optional insertion-code column is fitted as well",
        "dtype-typestate": "no conversion of a categorical column fails on the representative tables",
        "chain-alphabet": "62 chains are renamed to 62 distinct one-character ids, 63 chains are refused with ValueError",
    }
    # a rule is decided here only when at least one table reached the place where it is looked at
    decided = {r for r in texts if okc.get(r, 0) > 0} - {"dtype-typestate"}
    if "column-guard" not in bad and okc.get("residue-map", 0) + len(bad.get("residue-map", [])) >= len(FIT_TABLES):
        decided.add("column-guard")  # every table, the one without the optional column included, went through the renumbering
    with evidence(chk, *sorted(set(texts))):
        from checks.c08e import new_helpers, report_silent_exits

        helpers = [g for g in new_helpers(repo, M) if g is not fi and g.node.name != "can_write_pdb"]  # the fit test has its own table classes (check_can_write_eval)
        report_silent_exits(chk, "result", [fi] + helpers, cov, "tables (nine that need fitting, three that do not)", {"continue": "rows or chains are left out of the renaming", "break": "the renaming ends early", "return": "a table is returned before the fitting is complete (or the input itself, unfitted)"})
        for rule in sorted(set(texts)):
            if rule in bad:
                key = K(fi, f"eval:{rule}")
                if rule == "row-order":
                    # which construct reorders: a sort of the fitted table by its index labels is finding F24 (known_findings.json)
                    srt = [c2 for c2 in ast.walk(fi.node) if isinstance(c2, ast.Call) and isinstance(c2.func, ast.Attribute) and c2.func.attr == "sort_index"]
                    key = "parser_v2:fit_to_pdb:sort_index" if srt else key
                    site = fi.site(srt[0]) if srt else fi.where
                    chk.violation(rule, site, f"evaluated on representative tables: {bad[rule][0]}" + (f" (`{norm(srt[0])[:50]}` sorts the rows by their labels)" if srt else ""), key, found=bad[rule][:4])
                    continue
                chk.violation(rule, fi.where, f"evaluated on representative tables: {bad[rule][0]}", key, found=bad[rule][:4])
            elif rule in ("residue-map", "frame-condition", "chain-map"):
                for tag, *_ in FIT_TABLES:
                    chk.ok(rule, fi.where, f"evaluated ({tag}): {texts[rule]}")
            elif rule in decided:
                chk.ok(rule, fi.where, f"evaluated on {len(FIT_TABLES)} tables that need fitting (+3 that do not): {texts[rule]}")
    return decided | set(bad)


# --------------------------------------------------------------------------------------------------------------------
# round 4: the refusals of fit_to_pdb - which quantity is compared with which limit
# --------------------------------------------------------------------------------------------------------------------
# (tag, rows) - small tables that need fitting; atoms + chains, chains and residues-per-chain are pairwise different in each
FEASIBILITY_TABLES: List[Tuple[str, List[Tuple[Any, ...]]]] = [
    ("no residue carries an insertion code", [("AA", 5, None)] * 3 + [("AA", 6, None)] * 2 + [("AA", 7, None)] * 2 + [("AA", 8, None), ("B", 1, None), ("B", 2, None)]),
    ("every residue carries an insertion code", [("AA", 5, "A")] * 2 + [("AA", 5, "B")] * 2 + [("AA", 6, "A")] * 3 + [("B", 1, "A")] * 2),
    ("few residues carry an insertion code", [("AA", 5, None)] * 2 + [("AA", 5, "A")] * 2 + [("AA", 6, None)] * 2 + [("AA", 7, None), ("AA", 8, None), ("B", 1, None)]),
    ("a residue whose atoms are listed in two places", [("AA", 5, None), ("AA", 6, None), ("AA", 7, None), ("AA", 5, None), ("AA", 6, None), ("AA", 8, None), ("B", 1, None)] + [("B", 2, None)] * 3),
    ("equal numbers in different chains", [("AA", 1, None), ("AA", 2, None), ("AA", 3, None), ("AA", 4, None), ("AB", 1, None), ("AB", 2, None), ("C", 1, None)] + [("C", 2, None)] * 4),
]


def refusal_quantities(repo, fi, df, env) -> List[Tuple[ast.If, Any, str, Any]]:
    """Interpret the top-level statements of fit_to_pdb in order; before every top-level `if L <op> R: ... raise` evaluate L and R.
    Stops at the first statement that is not evaluable after at least one refusal was seen (the renumbering part is not needed)."""
    params = [a.arg for a in fi.node.args.args]
    e = dict(env)
    e[params[0]] = df
    ev = BlockEval2(repo, M, e, max_steps=20000)
    out: List[Tuple[ast.If, Any, str, Any]] = []
    body = [s for s in fi.node.body if not (isinstance(s, ast.Expr) and isinstance(s.value, ast.Constant))]
    for st in body:
        if isinstance(st, ast.If) and isinstance(st.test, ast.Compare) and len(st.test.ops) == 1 and st.body and isinstance(st.body[-1], ast.Raise) and not st.orelse:
            out.append((st, ev.fold(st.test.left), type(st.test.ops[0]).__name__, ev.fold(st.test.comparators[0])))
        try:
            kind, val = ev.run([st])
        except Unknown:
            if out:
                break  # the refusals come first; what follows them (the renumbering) is another rule's business
            raise
        if kind != "fall":
            break
    return out


def check_feasibility_eval(chk, fi) -> bool:
    """Which quantity each refusal of fit_to_pdb compares with which limit: evaluated on small tables.  The residue refusal must compare
    the largest number of distinct (number, insertion code) pairs of one chain with 9999 - whatever the counting idiom."""
    from sa.frame import frame_from_rows, isna

    repo = chk.repo
    c = spec("constants.json")["C10"]
    obs: Dict[int, Dict[str, Any]] = {}  # per refusal statement: the values of both sides on every table, and what the table has
    n_tables = 0
    try:
        env = fit_env(repo)
        for tag, spec_rows in FEASIBILITY_TABLES:
            rows = cif_rows(spec_rows)
            df = cif_table(repo, rows)
            chains: Dict[str, set] = {}
            for ch, num, ic in spec_rows:
                chains.setdefault(ch, set()).add((num, ic))
            want = {"serial": len(rows) + len(chains), "chains": len(chains), "resseq": max(len(v) for v in chains.values())}
            n_tables += 1
            for st, left, op, right in refusal_quantities(repo, fi, df, env):
                o = obs.setdefault(id(st), {"st": st, "rows": []})
                o["rows"].append((tag, left, op, right, want))
    except Unknown as ex:
        chk.ok("feasibility-eval", fi.where, f"the refusals of fit_to_pdb are not evaluable on small tables ({str(ex)[:80]}): the pinned-form rule decides")
        return False
    except Raised as ex:
        chk.ok("feasibility-eval", fi.where, f"the feasibility part raises {ex.name} on a small table: the pinned-form rule decides")
        return False
    limit_of = {"serial": c["max_serial"], "chains": c["max_chains"], "resseq": c["max_resseq"]}
    what_of = {"serial": "atoms + TER lines (one per chain)", "chains": "chains", "resseq": "residues of one chain, i.e. distinct (number, insertion code) pairs"}
    matched: Dict[str, Dict[str, Any]] = {}
    for o in obs.values():
        for q in limit_of:
            if len(o["rows"]) == n_tables and all((not isna(l)) and l == w[q] for _, l, _, _, w in o["rows"]):
                matched.setdefault(q, o)
    with evidence(chk, "feasibility", "limits"):
        limits_ok = True
        for q, limit in limit_of.items():
            what = what_of[q]
            o = matched.get(q)
            if o is not None:
                st = o["st"]
                rights = {r for _, _, _, r, _ in o["rows"]}
                ops = {op for _, _, op, _, _ in o["rows"]}
                if rights != {limit}:
                    limits_ok = False
                    chk.violation("limits", fi.site(st), f"the number of {what} is compared with {sorted(rights, key=str)[0]}, the PDB limit is {limit}: a table beyond the limit is not refused (or one within it is)", K(fi, f"limit:{q}"), expected=limit, found=sorted(rights, key=str)[0])
                elif ops != {"Gt"}:
                    chk.violation("feasibility", fi.site(st), f"the refusal compares the number of {what} with {limit} by {sorted(ops)}, the limit itself must still be accepted (`>`)", K(fi, f"refusal-op:{limit}"))
                else:
                    chk.ok("feasibility", fi.site(st), f"evaluated on {n_tables} tables: refused when the number of {what} exceeds {limit}")
                continue
            # no refusal computes this quantity: is there one that compares something else with its limit?
            cand = [o2 for o2 in obs.values() if any(r == limit for _, _, _, r, _ in o2["rows"]) and not any(o2 is m for m in matched.values())]
            if not cand:
                chk.violation("feasibility", fi.where, f"no refusal `<quantity> > {limit}` is evaluated before the fitting: a table with more {what.split(',')[0]} than fit is not refused with ValueError", K(fi, f"refusal:{limit}"))
                continue
            o2 = cand[0]
            tag, left, _, _, w = next((r for r in o2["rows"] if isna(r[1]) or r[1] != r[4][q]), o2["rows"][0])
            hint = ""
            if q == "resseq" and "insertion code" in tag and isinstance(left, (int, float)) and not isna(left) and left < w[q]:
                hint = " - residues without an insertion code are not counted (a group-by over a key column with missing values drops those rows)"
            elif q == "resseq" and isinstance(left, (int, float)) and not isna(left) and left > w[q]:
                hint = " - atoms or runs are counted, not residues"
            tail = f"; a chain with more than {limit} residues is then not refused and gets numbers above the limit" if q == "resseq" else ""
            chk.violation("feasibility", fi.site(o2["st"]), f"the quantity compared with {limit} is not the number of {what}: table where {tag}: it evaluates to {left}, the table has {w[q]}{hint}{tail}", K(fi, f"refusal:{limit}"), expected=w[q], found=None if isna(left) else left)
        if limits_ok and len(matched) == 3:
            chk.ok("limits", fi.where, f"evaluated: the refusals compare with {c['max_serial']} (serials), {c['max_chains']} (chains) and {c['max_resseq']} (residues per chain), whatever names or constants hold them")
    return True


# --------------------------------------------------------------------------------------------------------------------
# round 5: the fit test evaluated on tables
# --------------------------------------------------------------------------------------------------------------------
def check_can_write_eval(chk, rule: str = "fit-test") -> bool:
    """can_write_pdb interpreted on one table per class: True exactly when the *rows of the table* are within the widths of the writer's
    fields - serial <= 99999, chain ids of one character, residue numbers <= 9999 - for mmCIF rows; PDB rows and empty tables fit; a
    table cut out of a larger one is judged by its own rows (a category column still lists the values of the table it came from)."""
    from sa.frame import frame_from_rows

    repo = chk.repo
    if not repo.has_func(M, "can_write_pdb"):
        return False
    fi = repo.func(M, "can_write_pdb")
    c = spec("constants.json")["C10"]
    base = [("A", 1, None), ("A", 2, "A"), ("B", 3, None)]
    big = cif_rows([("A", 1, None), ("AA", 70000, None), ("B", 2, None), ("A", 3, None)], first_id=99998)  # ids 99998..100001, a long chain, a large number
    cases: List[Tuple[str, Any, bool]] = []
    try:
        env = fit_env(repo)
        env.update(module_callables(repo, M, outer=env))
        cases.append(("rows within all limits", cif_table(repo, cif_rows(base)), True))
        cases.append((f"the largest id is exactly {c['max_serial']}", cif_table(repo, cif_rows(base, first_id=c["max_serial"] - 2)), True))
        cases.append((f"an id of {c['max_serial'] + 1}", cif_table(repo, cif_rows(base, first_id=c["max_serial"] - 1)), False))
        cases.append((f"a residue number of exactly {c['max_resseq']}", cif_table(repo, cif_rows([("A", c["max_resseq"], None), ("A", 2, None)])), True))
        cases.append((f"a residue number of {c['max_resseq'] + 1}", cif_table(repo, cif_rows([("A", c["max_resseq"] + 1, None), ("A", 2, None)])), False))
        cases.append(("a two-character chain id", cif_table(repo, cif_rows([("A", 1, None), ("AB", 2, None)])), False))
        cases.append(("negative residue numbers", cif_table(repo, cif_rows([("A", -5, None), ("A", -4, None)])), True))
        whole = cif_table(repo, big)
        cases.append(("a table with an id over the limit, a long chain id and a large residue number", whole, False))
        cases.append(("rows within the limits cut out of that table (its category columns still list the values of the whole table)", whole._take([0]), True))
        cases.append(("the same, two rows", whole._take([0, 2]), False))  # ids 99998 and 100000
        for drop in ("id", "auth_asym_id", "auth_seq_id"):
            t = cif_table(repo, cif_rows(base))
            del t._cols[drop]
            cases.append((f"an mmCIF table without the {drop} column", t, False))
        from checks.c09e import _row

        cases.append(("a PDB-format table", frame_from_rows([_row("PDB", k, 1, "A") for k in range(2)], "PDB"), True))
        cases.append(("an empty mmCIF table", frame_from_rows([], "mmCIF"), True))
        bad: List[str] = []
        for tag, table, want in cases:
            call = func_callable(repo, M, fi.node, env, max_steps=20000)
            try:
                got = call(table)
            except Raised as ex:
                bad.append(f"{tag}: raises {ex.name}")
                continue
            except Unknown:
                raise
            except Exception as ex:
                bad.append(f"{tag}: raises {type(ex).__name__} ({str(ex)[:50]})")
                continue
            if bool(got) != want or not isinstance(got, bool):
                bad.append(f"{tag}: reported as {'fitting' if got else 'not fitting'}" + (" - a table that fits is sent into the renumbering (serials, chains and residue numbers of a table that has to come back unchanged are rewritten)" if want else " - values beyond the field widths reach the writer unchanged"))
    except Unknown as ex:
        chk.ok("fit-test-eval", fi.where, f"can_write_pdb is not evaluable on representative tables ({str(ex)[:80]}): the reading of its paths decides")
        return False
    with evidence(chk, rule):
        if bad:
            chk.violation(rule, fi.where, "the fit test does not say 'fits' exactly when the rows of the table are within the PDB field widths: " + "; ".join(bad[:3]), K(fi, "fit-test-eval"), found=bad[:6])
        else:
            for what in ("serial: fits up to 99999, not beyond", "chain id: one character", "residue number: fits up to 9999 (negative numbers too), not beyond", "a missing id / chain / number column does not fit; PDB rows and empty tables do; a piece of a larger table is judged by its own rows"):
                chk.ok(rule, fi.where, f"evaluated on {len(cases)} tables: {what}")
    return True
