"""C10, evaluated rules (round 3): pure fragments of fit_to_pdb interpreted on representatives.

fit_to_pdb is pandas code and cannot be interpreted as a whole, but three of its parts are pure Python over small values and
decide facts the statement needs:

* the chain map (distinct chain ids of the table, in file order -> one-character ids): one-to-one, total, into the alphabet -
  for every class of order in which valid one-character and longer names can meet;
* the per-format choice of the serial / chain / number / insertion-code columns;
* the map used to rename mmCIF items to PDB columns, for each class of table (author atom/residue name items present or not):
  injective on the columns of the table and sending every item write_pdb prefers to its PDB field.

Each fragment is cut out of the function by a backward slice from the place where its result is used (so it does not matter
whether it is a comprehension, a loop, dict(zip(...)), a table plus a loop, ...).
"""
from __future__ import annotations

import ast
from typing import Any, Dict, List, Optional, Sequence, Set, Tuple

from checks.c03 import K
from checks.c08e import evidence
from sa import astq
from sa.blockeval import Unknown
from sa.fragment import BlockEval2, Obj, Raised, module_callables
from sa.model import norm
from sa.normalize import backward_slice

M = "parser_v2"


def top_index(fi, node: ast.AST) -> Optional[int]:
    for k, st in enumerate(fi.node.body):
        if any(n is node for n in ast.walk(st)):
            return k
    return None


def eval_slice(repo, fi, upto: int, names: Set[str], env: Dict[str, Any], stop: Sequence[str]) -> Tuple[str, Dict[str, Any]]:
    """Interpret the statements of fi.body[:upto] that `names` depend on (inputs `stop` come from env).  -> (exit kind, environment)"""
    frag = backward_slice(fi.node.body, upto, set(names), stop=tuple(stop))
    e = dict(env)
    e.update(module_callables(repo, M, outer=e))
    ev = BlockEval2(repo, M, e, max_steps=20000)
    kind, val = ev.run(frag)
    return (f"raise {val}" if kind == "raise" else kind), ev.env


# --------------------------------------------------------------------------------------------------------------------
CHAIN_ORDERS: List[Tuple[str, List[str]]] = [
    ("valid one-character names only", ["A", "B", "C"]),
    ("a long name after the one-character name it is derived from", ["A", "A-2"]),
    ("a long name before a one-character name", ["A-2", "A"]),
    ("two long names, then the first letter of the alphabet", ["AA", "AB", "A"]),
    ("a long name between one-character names", ["A", "X1", "B"]),
    ("long names only", ["A-1", "A-2", "B-1", "B-2"]),
    ("lower and upper case of one letter", ["b", "B"]),
    ("a one-character name outside the alphabet before a letter", ["*", "A"]),
    ("later letters first, then long names", ["C", "B", "AAA", "BBB", "A"]),
    ("62 long names", [f"c{i}" for i in range(62)]),
]


def check_chain_map_eval(chk, fi) -> bool:
    repo = chk.repo
    # the map applied to the chain column: <frame>[chain_col] = <frame>[chain_col].map(X)
    uses = []
    for st in fi.node.body:
        if isinstance(st, ast.Assign) and isinstance(st.value, ast.Call) and isinstance(st.value.func, ast.Attribute) and st.value.func.attr in ("map", "replace") and st.value.args and isinstance(st.value.args[0], ast.Name):
            tgt, src = norm(st.targets[0]), norm(st.value.func.value)
            if tgt == src and "chain" in tgt:
                uses.append(st)
    uniq = [st for st in fi.node.body if isinstance(st, ast.Assign) and len(st.targets) == 1 and isinstance(st.targets[0], ast.Name) and astq.match(st.value, "X_[C_].unique()")]
    if len(uses) != 1 or len(uniq) != 1:
        return False
    use = uses[0]
    mname = use.value.args[0].id
    uname = uniq[0].targets[0].id
    upto = fi.node.body.index(use)
    problems: List[Tuple[str, str]] = []
    n = 0
    try:
        for tag, chains in CHAIN_ORDERS:
            kind, env = eval_slice(repo, fi, upto, {mname}, {uname: list(chains), "df": Obj("df"), "df_fitted": Obj("df_fitted")}, stop=(uname, "df", "df_fitted"))
            n += 1
            if kind != "fall":
                problems.append((tag, f"building the chain map ends with `{kind}` for the chain order {chains[:6]}"))
                continue
            mp = env.get(mname)
            if not isinstance(mp, dict):
                raise Unknown("the chain map is not a dictionary")
            alpha = None
            for k2, v2 in env.items():
                if isinstance(v2, list) and len(v2) == 62 and all(isinstance(x, str) and len(x) == 1 for x in v2):
                    alpha = v2
            missing = [c for c in chains if c not in mp]
            vals = [mp[c] for c in chains if c in mp]
            dup = sorted({v for v in vals if vals.count(v) > 1})
            bad = [v for v in vals if not (isinstance(v, str) and len(v) == 1 and (alpha is None or v in alpha))]
            if missing:
                problems.append((tag, f"chains {missing[:4]} get no new id (chain order {chains[:6]}): their rows become NaN"))
            elif dup:
                who = {v: [c for c in chains if mp[c] == v] for v in dup}
                problems.append((tag, f"with the chains in the order {chains[:6]} the map is {dict((c, mp[c]) for c in chains[:6])}: chains {who[dup[0]]} both become `{dup[0]}`, so two chains (and their equally numbered residues) are merged - the renaming is not one-to-one"))
            elif bad:
                problems.append((tag, f"the new id `{bad[0]}` is not a single character of the PDB chain alphabet (chain order {chains[:6]})"))
    except Unknown as ex:
        chk.ok("chain-map-eval", fi.where, f"the chain map is not evaluable on representative chain orders ({str(ex)[:80]}): the pinned-form rule decides")
        return False
    with evidence(chk, "chain-map"):
        if problems:
            tag, msg = problems[0]
            chk.violation("chain-map", fi.site(use), f"{tag}: {msg}", K(fi, "chain-map"), found=[m for _, m in problems[:4]])
        else:
            chk.ok("chain-map", fi.site(use), f"evaluated on {n} orders of one-character and longer chain names: every chain gets an id, the ids are distinct single characters of the alphabet (one-to-one renaming)")
    return True


# --------------------------------------------------------------------------------------------------------------------
WANT_COLUMNS = {"PDB": ("serial", "chainID", "resSeq", "iCode"), "mmCIF": ("id", "auth_asym_id", "auth_seq_id", "pdbx_PDB_ins_code")}
COL_VARS = ("serial_col", "chain_col", "resseq_col", "icode_col")


def check_column_selection_eval(chk, fi) -> bool:
    repo = chk.repo
    # first top-level statement after which all four names are bound: the statement that binds the last of them
    bound: Set[str] = set()
    upto = None
    for k, st in enumerate(fi.node.body):
        bound |= {n.id for n in ast.walk(st) if isinstance(n, ast.Name) and isinstance(n.ctx, ast.Store)}
        if set(COL_VARS) <= bound:
            upto = k + 1
            break
    if upto is None:
        return False
    got: Dict[str, Any] = {}
    try:
        for fmt in ("PDB", "mmCIF", "XYZ"):
            kind, env = eval_slice(repo, fi, upto, set(COL_VARS), {"format_type": fmt, "df": Obj("df", attrs={"format": fmt}, columns=[])}, stop=("format_type", "df"))
            got[fmt] = tuple(env.get(v) for v in COL_VARS) if kind == "fall" else kind
    except Unknown as ex:
        chk.ok("column-selection-eval", fi.where, f"column selection not evaluable ({str(ex)[:80]}): the pinned-form rule decides")
        return False
    with evidence(chk, "column-selection", "only-valueerror"):
        bad = {f: got[f] for f in WANT_COLUMNS if got[f] != WANT_COLUMNS[f]}
        chk.expect(not bad, "column-selection", fi.where, "evaluated: serial/chain/number/icode columns per format (author items for mmCIF)", f"the columns fit_to_pdb renames are {bad}, not (serial, chainID, resSeq, iCode) / (id, auth_asym_id, auth_seq_id, pdbx_PDB_ins_code)", K(fi, "columns"), expected={k: list(v) for k, v in WANT_COLUMNS.items()}, found={k: list(v) if isinstance(v, tuple) else v for k, v in got.items()})
        chk.expect(got["XYZ"] == "raise ValueError", "only-valueerror", fi.where, "evaluated: an unknown format is refused with ValueError", f"a table of unknown format ends the column selection with `{got['XYZ']}` instead of ValueError", K(fi, "unknown-format"))
    return True


# --------------------------------------------------------------------------------------------------------------------
CIF_ITEMS = ["group_PDB", "id", "type_symbol", "label_atom_id", "label_alt_id", "label_comp_id", "label_asym_id", "label_entity_id", "label_seq_id", "pdbx_PDB_ins_code", "Cartn_x", "Cartn_y", "Cartn_z", "occupancy", "B_iso_or_equiv", "pdbx_formal_charge", "auth_seq_id", "auth_comp_id", "auth_asym_id", "auth_atom_id", "pdbx_PDB_model_num"]


def rename_maps(chk, fi) -> Optional[List[Tuple[str, List[str], Dict[str, str]]]]:
    """[(class of table, its columns, the rename map applied to it)] or None when not evaluable / not found."""
    repo = chk.repo
    calls = [(k, c) for k, st in enumerate(fi.node.body) for c in ast.walk(st) if isinstance(st, ast.Expr) and isinstance(c, ast.Call) and isinstance(c.func, ast.Attribute) and c.func.attr == "rename" and any(kw.arg == "columns" and isinstance(kw.value, ast.Name) for kw in c.keywords)]
    if len(calls) != 1:
        return None
    upto, call = calls[0]
    mname = next(kw.value.id for kw in call.keywords if kw.arg == "columns")
    frame = norm(call.func.value)
    out = []
    for tag, drop in (("author and label items present", ()), ("no auth_atom_id", ("auth_atom_id",)), ("no auth_comp_id", ("auth_comp_id",)), ("neither auth_atom_id nor auth_comp_id", ("auth_atom_id", "auth_comp_id")), ("author items only", ("label_atom_id", "label_comp_id", "label_asym_id", "label_seq_id"))):
        cols = [c for c in CIF_ITEMS if c not in drop]
        # group_PDB may already have been renamed by an earlier, separate step
        stub = Obj(frame, columns=list(cols))
        kind, env = eval_slice(repo, fi, upto, {mname}, {frame: stub, "df": stub}, stop=(frame, "df", "chain_col", "icode_col", "resseq_col", "serial_col"))
        mp = env.get(mname)
        if kind != "fall" or not isinstance(mp, dict):
            raise Unknown(f"the rename map is not a dictionary (slice ends with {kind})")
        out.append((tag, cols, dict(mp)))
    return out
