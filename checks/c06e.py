"""C06 - fact-level (evidence) rules for tertiary.Mapping2D3D, decided by class-level fragment evaluation (sa/objeval.py).

The pinned-form rules of checks/c06.py compare statements with the text they have at the reference commit.  The rules
here decide the clauses of the statement on the *current* code, whatever its statement shape, by interpreting the methods
of Mapping2D3D / Structure3D / BasePair3D (read from the ast, nothing imported or run) on small models that hold one
representative of every class of input the statement names:

  lifting-fact      entries listed forward, reversed, twice, from the 3' end only in a non-symmetric class, named by
                    label / auth / both, and *dangling* entries (unknown chain, unknown number, known position under
                    another residue name, one end only) -> the lifted list holds exactly every resolvable entry and its
                    mirror image once; nothing is lifted for a dangling entry
  resolution-fact   no conflict / two partners of different rank / of the same rank / a star of three and of four / a
                    chain / two separate conflicts / Saenger-ranked / non-canonical bystanders -> the list handed to
                    __generate_bpseq is a matching, a sub-list of the canonical candidates, keeps every candidate that
                    conflicts with no other, and keeps the better-ranked partner of a two-way conflict
  numbering-fact    a two-chain model with a real gap, a numbering jump over a bonded link, a chain change, a
                    non-nucleotide and a break without missing numbers, with and without gap detection -> entries are
                    numbered 1..N in file order with the letters ('?' for exactly the missing numbers), partners are
                    symmetric, pairs touching an unnumbered residue are skipped, the index map inverts the numbering
  strands-fact      the strand sequences of the same model concatenate to exactly the BPSEQ sequence, one strand per chain
  strand-text-fact  per-strand slices of a notation concatenate to it; dot_bracket / all_dot_brackets pair strand i with
                    slice i (header, sequence, notation); one text per member of BpSeq.all_dot_brackets
  extended-fact     a model with a three-fold multiplet in one class, a pair listed only from its 3' end, a pair listed
                    in both directions, a pair between chains, a duplicate and a dangling entry -> every row is a
                    matching as long as the sequence, and the rows together hold every distinct pair exactly once under
                    the class read from its 5' nucleotide

Every expectation is computed here from the statement (reference forms, oracle O3), never from the library.  What the
models do not contain is not decided; the models are listed in the evidence.  If a method uses a construct outside the
interpreted fragment the rule says so and checks/c06.py falls back to the pinned forms for that mechanism.
"""
from __future__ import annotations

import ast
from typing import Any, Dict, List, Optional, Sequence, Set, Tuple

from checks.c03 import K
from sa.blockeval import Unknown
from sa.model import Repo
from sa.objeval import ClassRef, Obj, World

T3, CM, CLS = "tertiary", "common", "Mapping2D3D"
CANON_LETTERS = {"AU", "AT", "CG", "GU"}
RANK0_LETTERS = {"AU", "AT", "CG"}
LIBRARY_ERRORS = (KeyError, IndexError, ValueError, ZeroDivisionError, StopIteration, AssertionError, RuntimeError)


def lw_mirror(name: str) -> str:
    return name[0] + name[2] + name[1]


# ---------------------------------------------------------------------------------------------------------------------
# stubs for what is another property's subject (BpSeq -> dot-bracket is C01/C02/C13)


class EntryStub:
    _folder_stub = True

    def __init__(self, index_, sequence, pair):
        self.index_, self.sequence, self.pair = index_, sequence, pair

    def __repr__(self):
        return f"{self.index_} {self.sequence} {self.pair}"


class DbStub:
    _folder_stub = True

    def __init__(self, structure: str):
        self.structure = structure


def render(entries: Sequence[EntryStub]) -> str:
    """A notation that shows the partner of every position: the k-th pair is written `a`+k ... `A`+k; a position whose partner
    does not point back is written `!` (that is what an overwritten partner looks like)."""
    n = len(entries)
    out = ["."] * n
    k = 0
    for pos, e in enumerate(entries, start=1):
        p = e.pair
        if not p:
            continue
        if not (isinstance(p, int) and 1 <= p <= n) or entries[p - 1].pair != pos or p == pos:
            out[pos - 1] = "!"
            continue
        if pos < p:
            out[pos - 1] = chr(ord("a") + k % 26)
            out[p - 1] = chr(ord("A") + k % 26)
            k += 1
    return "".join(out)


def decode(text: str) -> Tuple[Set[Tuple[int, int]], List[int]]:
    """pairs (1-based positions) written in a rendered notation, and the positions that are not well-formed"""
    opened: Dict[str, int] = {}
    pairs, bad = set(), []
    for pos, c in enumerate(text, start=1):
        if c == ".":
            continue
        if c == "!":
            bad.append(pos)
        elif c.islower():
            if c in opened:
                bad.append(pos)
            opened[c] = pos
        elif c.isupper():
            if c.lower() in opened:
                pairs.add((opened.pop(c.lower()), pos))
            else:
                bad.append(pos)
        else:
            bad.append(pos)
    bad.extend(opened.values())
    return pairs, bad


class BpSeqStub:
    _folder_stub = True

    def __init__(self, entries):
        self.entries = list(entries)
        s = render(self.entries)
        self.dot_bracket = DbStub(s)
        self.all_dot_brackets = [self.dot_bracket, DbStub(s.swapcase())]
        self.elements = ([], [], [], [])  # stems, single strands, hairpins, loops: C07's subject

    def __str__(self):
        return "\n".join(repr(e) for e in self.entries)


# ---------------------------------------------------------------------------------------------------------------------
# models


class Spec:
    """One residue of a model structure."""

    def __init__(self, chain: str, number: int, name: str, nuc: bool = True, icode: Optional[str] = None):
        self.chain, self.number, self.name, self.nuc, self.icode = chain, number, name, nuc, icode
        self.letter = name if nuc else "X"
        self.label_number = 0  # position within the chain (mmCIF label numbering), set by the lab

    @property
    def text(self) -> str:
        return f"{self.chain}.{self.name}{self.number}"


class Lab:
    def __init__(self, repo: Repo, specs: Sequence[Spec], connected: Sequence[Tuple[int, int]]):
        raw = getattr(repo, "_raw_copy", None)  # the source as written (no renaming / inlining normalisation), parsed once
        if raw is None:
            raw = Repo(repo.root, align=False)
            try:
                repo._raw_copy = raw
            except Exception:
                pass
        self.raw = raw
        self.specs = list(specs)
        self.connected = set(connected)
        self.handed: List[List[Any]] = []
        count: Dict[str, int] = {}
        for s in self.specs:
            count[s.chain] = count.get(s.chain, 0) + 1
            s.label_number = count[s.chain]
        lab = self

        def is_connected(w, o, other):
            return (o.tag.get("idx"), getattr(other, "tag", {}).get("idx")) in lab.connected

        def capture(w, o, pairs):
            lab.handed.append(list(pairs))
            return w.real_member(o, "__generate_bpseq")(pairs)

        self.capture = capture
        self.w = World(
            self.raw,
            overrides={("Residue3D", "is_nucleotide"): lambda w, o: o.tag["nuc"], ("Residue3D", "is_connected"): is_connected},
            class_overrides={"BpSeq": BpSeqStub, "Entry": EntryStub},
        )
        w = self.w
        self.LW = ClassRef(w.cls(CM, "LeontisWesthof"))
        self.SA = ClassRef(w.cls(CM, "Saenger"))
        self.residues: List[Obj] = []
        for i, s in enumerate(self.specs):
            r = w.new(T3, "Residue3D", self.label(s), self.auth(s), 1, s.letter, ())
            r.tag.update(idx=i, nuc=s.nuc, label=s.text)
            self.residues.append(r)
        self.structure = w.new(T3, "Structure3D", list(self.residues))

    # -- names -------------------------------------------------------------------------------------------------------
    def label(self, s: Spec) -> Obj:
        return self.w.new(CM, "ResidueLabel", s.chain, s.label_number, s.name)

    def auth(self, s: Spec) -> Obj:
        return self.w.new(CM, "ResidueAuth", s.chain, s.number, s.icode, s.name)

    def name2d(self, who: Any, how: str = "both") -> Obj:
        """2D name of residue `who` (index) given by label, auth or both; or of a ghost ('ghost', chain, number, name)."""
        if isinstance(who, tuple):
            _, chain, number, name = who
            g = Spec(chain, number, name)
            g.label_number = 900 + number
            lab, au = self.label(g), self.auth(g)
        else:
            lab, au = self.label(self.specs[who]), self.auth(self.specs[who])
        if how in ("stale-label", "stale-auth") and not isinstance(who, tuple):
            # both identifiers given, one of them from another numbering of the same molecule (e.g. an annotation made on the
            # mmCIF file laid over the PDB file): that one names nothing in this structure, the other one names the residue
            g = Spec(self.specs[who].chain, 700 + self.specs[who].number, self.specs[who].name)
            g.label_number = 700 + self.specs[who].label_number
            if how == "stale-label":
                lab = self.label(g)
            else:
                au = self.auth(g)
            return self.w.new(CM, "Residue", lab, au)
        return self.w.new(CM, "Residue", lab if how in ("both", "label") else None, au if how in ("both", "auth") else None)

    def lw(self, name: str):
        return self.w.getattr(self.LW, name)

    def saenger(self, name: Optional[str]):
        return None if name is None else self.w.getattr(self.SA, name)

    def entry(self, a: Any, b: Any, lw: str, saenger: Optional[str] = None, how: str = "both", how2: Optional[str] = None) -> Obj:
        return self.w.new(CM, "BasePair", self.name2d(a, how), self.name2d(b, how2 or how), self.lw(lw), self.saenger(saenger))

    def pair3d(self, a: int, b: int, lw: str, saenger: Optional[str] = None) -> Obj:
        return self.w.new(T3, "BasePair3D", self.name2d(a), self.name2d(b), self.lw(lw), self.saenger(saenger), self.residues[a], self.residues[b])

    def mapping(self, entries: Sequence[Obj], find_gaps: bool, lifted: Optional[Sequence[Obj]] = None, capture: bool = False) -> Obj:
        m = self.w.new(T3, CLS, self.structure, list(entries), [], find_gaps)
        if lifted is not None:
            m.cache["base_pairs"] = list(lifted)
        if capture:
            m.tag["capture"] = True
        return m

    def idx(self, r: Any) -> Optional[int]:
        return r.tag.get("idx") if isinstance(r, Obj) else None

    def show(self, i: int) -> str:
        return self.specs[i].text

    # -- reference forms (from the statement) ---------------------------------------------------------------------------
    def ref_sequences(self, find_gaps: bool) -> List[Tuple[str, str]]:
        out: List[Tuple[str, List[str]]] = []
        prev = None
        for i, s in enumerate(self.specs):
            if not s.nuc:
                continue
            if prev is None or self.specs[prev].chain != s.chain:
                out.append((s.chain, [s.letter]))
            else:
                if find_gaps and (prev, i) not in self.connected:
                    out[-1][1].extend("?" * max(0, s.number - self.specs[prev].number - 1))
                out[-1][1].append(s.letter)
            prev = i
        return [(c, "".join(x)) for c, x in out]

    def ref_numbering(self, find_gaps: bool) -> Tuple[str, Dict[int, int]]:
        """(BPSEQ sequence, residue index -> BPSEQ number)"""
        seq = "".join(x for _, x in self.ref_sequences(find_gaps))
        number: Dict[int, int] = {}
        pos = 0
        prev = None
        for i, s in enumerate(self.specs):
            if not s.nuc:
                continue
            if prev is not None and self.specs[prev].chain == s.chain and find_gaps and (prev, i) not in self.connected:
                pos += max(0, s.number - self.specs[prev].number - 1)
            pos += 1
            number[i] = pos
            prev = i
        return seq, number


def _guard(chk, rule: str, fi, what: str, fn) -> Optional[bool]:
    """Runs one model evaluation.  True = evaluated (verdicts recorded by fn); None = not evaluable (fallback to the pinned forms)."""
    try:
        fn()
        return True
    except Unknown as ex:
        chk.ok("c06-facts", fi.where, f"{rule}: {what} is outside the interpreted fragment ({str(ex)[:140]}); the pinned forms decide this mechanism")
        return None
    except LIBRARY_ERRORS as ex:
        chk.violation(rule, fi.where, f"{what} raises {type(ex).__name__} ({str(ex)[:80]}) on a model input of the statement's input space", K(fi, f"{rule}:raises"))
        return True
    except (TypeError, AttributeError, NameError, RecursionError, NotImplementedError) as ex:
        chk.ok("c06-facts", fi.where, f"{rule}: {what} could not be interpreted ({type(ex).__name__}: {str(ex)[:120]}); the pinned forms decide this mechanism")
        return None


# ---------------------------------------------------------------------------------------------------------------------
# structure used by numbering / strands / text: two chains, a real gap, a bonded numbering jump, a non-nucleotide, a chain change


def gap_model(repo: Repo) -> Lab:
    specs = [
        Spec("A", 1, "G"), Spec("A", 2, "C"), Spec("A", 3, "A"),
        Spec("A", 6, "U"), Spec("A", 7, "G"), Spec("A", 8, "HOH", nuc=False), Spec("A", 10, "C"),
        Spec("B", 21, "G"), Spec("B", 22, "C"), Spec("B", 25, "U"), Spec("B", 26, "A"),
        Spec("A", 31, "G"), Spec("A", 32, "U"),  # chain id A again after chain B (a second segment with the same id, as in assemblies): its own strand, in file order
    ]
    # O3'(x) - P(y) bonded: directed.  2->3 is a real gap (numbers 4, 5 missing); 4->6 is bonded although the numbers jump
    # (and a water sits between them in the file); 6->7 is a chain change; 8->9 is a gap (23, 24); 9->10 is a break without missing numbers
    return Lab(repo, specs, [(0, 1), (1, 2), (3, 4), (4, 6), (7, 8), (11, 12)])


def check_numbering(chk) -> Optional[bool]:
    repo = chk.repo
    fi = repo.func(T3, f"{CLS}.__generate_bpseq")
    ss = repo.func(T3, f"{CLS}.strands_sequences")
    chk.note_function(fi)
    chk.note_function(ss)
    done = {"n": 0}

    def run():
        for find_gaps in (True, False):
            lab = gap_model(repo)
            w = lab.w
            m = lab.mapping([], find_gaps)
            pairs = [lab.pair3d(0, 6, "cWW"), lab.pair3d(1, 4, "cWW"), lab.pair3d(2, 3, "cWW"), lab.pair3d(7, 10, "tHS"), lab.pair3d(5, 9, "cWW")]
            res = w.real_member(m, "__generate_bpseq")(pairs)
            tag = f"gap detection {'on' if find_gaps else 'off'}"
            if not (isinstance(res, tuple) and len(res) == 2 and isinstance(res[0], BpSeqStub) and isinstance(res[1], dict)):
                chk.violation("numbering-fact", fi.where, f"__generate_bpseq does not return (BpSeq of entries, index map) ({tag})", K(fi, "numbering-fact:result"))
                continue
            entries, imap = res[0].entries, res[1]
            seq, number = lab.ref_numbering(find_gaps)
            got_idx = [e.index_ for e in entries]
            got_seq = "".join(str(e.sequence) for e in entries)
            want_pair = [0] * len(seq)
            for a, b in ((0, 6), (1, 4), (2, 3), (7, 10)):
                want_pair[number[a] - 1], want_pair[number[b] - 1] = number[b], number[a]
            got_pair = [e.pair for e in entries]
            model = f"chains {lab.ref_sequences(False)}, numbers A:1,2,3,6,7,(8 water),10 B:21,22,25,26 A:31,32, bonded 1-2-3, 6-7-10, 21-22, 31-32; {tag}"
            chk.expect(got_idx == list(range(1, len(entries) + 1)), "numbering-fact", fi.where, f"the {len(entries)} entries are numbered 1, 2, ... in order ({tag})", f"the {len(entries)} BPSEQ entries are numbered {got_idx}, not 1, 2, ... in order: every stored entry (residue or placeholder) must take the next number ({model})", K(fi, "numbering-fact:index"), expected=list(range(1, len(entries) + 1)), found=got_idx)
            chk.expect(
                got_seq == seq,
                "numbering-fact",
                fi.where,
                f"the sequence is `{seq}`: one letter per nucleotide in file order, '?' for exactly the missing numbers of an unbonded link within a chain ({tag})",
                f"the BPSEQ sequence is `{got_seq}`, the statement gives `{seq}` (placeholders only where gap detection is on, the chain is the same, the previous nucleotide is not bonded to this one, and as many as numbers are missing; non-nucleotides are not numbered) ({model})",
                K(fi, "numbering-fact:sequence"),
                expected=seq,
                found=got_seq,
            )
            if got_seq == seq:
                chk.expect(
                    got_pair == want_pair,
                    "numbering-fact",
                    fi.where,
                    f"partner fields are symmetric and name the BPSEQ numbers of both residues; a pair touching a residue that is not numbered is skipped ({tag})",
                    f"partner fields are {got_pair}, expected {want_pair} for the matching G1-C10, C2-G7, A3-U6, G21-A26 plus one pair with the water A.8 ({tag})",
                    K(fi, "numbering-fact:partners"),
                    expected=want_pair,
                    found=got_pair,
                )
                want_map = {n: lab.show(i) for i, n in number.items()}
                got_map = {k: (lab.show(lab.idx(v)) if lab.idx(v) is not None else repr(v)) for k, v in imap.items()}
                chk.expect(got_map == want_map, "numbering-fact", fi.where, f"the index map sends every number of a nucleotide to that nucleotide ({tag})", f"the index map is {got_map}, expected {want_map} ({tag})", K(fi, "numbering-fact:index-map"), expected=want_map, found=got_map)
            # sibling: strand sequences
            st = w.getattr(m, "strands_sequences")
            want_st = lab.ref_sequences(find_gaps)
            got_st = [tuple(x) for x in st] if isinstance(st, list) else st
            chk.expect(
                got_st == want_st,
                "strands-fact",
                ss.where,
                f"strand sequences {want_st}: one strand per run of consecutive nucleotides of one chain id (a chain id that comes back after another chain opens a new strand), concatenating to the BPSEQ sequence ({tag})",
                f"strand sequences are {got_st}, the statement gives {want_st}: the strands must concatenate to the BPSEQ sequence `{seq}`, which numbers the nucleotides in file order - a chain id that comes back after another chain (second segment A:31,32) is a strand of its own ({model})",
                K(ss, "strands-fact"),
                expected=want_st,
                found=got_st,
            )
            done["n"] += 1
        # no nucleotide at all
        lab = Lab(repo, [Spec("A", 1, "HOH", nuc=False)], [])
        m = lab.mapping([], True)
        st = lab.w.getattr(m, "strands_sequences")
        res = lab.w.real_member(m, "__generate_bpseq")([])
        chk.expect(st == [] and isinstance(res, tuple) and isinstance(res[0], BpSeqStub) and res[0].entries == [], "numbering-fact", fi.where, "a structure without nucleotides gives no strand and an empty BPSEQ", f"a structure without nucleotides gives strands {st!r} / entries {getattr(res[0], 'entries', res) if isinstance(res, tuple) else res!r}", K(fi, "numbering-fact:empty"))

    return _guard(chk, "numbering-fact", fi, "__generate_bpseq / strands_sequences", run)


# ---------------------------------------------------------------------------------------------------------------------
# lifting


def lifting_model(repo: Repo) -> Lab:
    specs = [Spec("A", 11, "G"), Spec("A", 12, "C"), Spec("A", 13, "A"), Spec("A", 14, "U"), Spec("A", 15, "G"), Spec("A", 16, "C"), Spec("B", 11, "PSU"), Spec("B", 12, "C")]
    return Lab(repo, specs, [(0, 1), (1, 2), (2, 3), (3, 4), (4, 5), (6, 7)])


def check_lifting(chk) -> Optional[bool]:
    repo = chk.repo
    fi = repo.func(T3, f"{CLS}.base_pairs")
    fs = repo.func(T3, f"{CLS}.stackings")
    chk.note_function(fi)
    chk.note_function(fs)
    for q in ("Structure3D.find_residue", "Structure3D.__post_init__", "BasePair3D.reverse"):
        if repo.has_func(T3, q):
            chk.note_function(repo.func(T3, q))

    def run():
        lab = lifting_model(repo)
        w = lab.w
        # (entry, resolvable?, description)
        E = lab.entry
        entries = [
            (E(0, 5, "cWW"), True, "forward"),
            (E(5, 0, "cWW"), True, "the same pair from its other end"),
            (E(0, 5, "cWW"), True, "exact duplicate"),
            (E(4, 2, "tHS"), True, "non-symmetric class listed only from the 3' end"),
            (E(1, 3, "cWH", how="auth"), True, "named by author ids only"),
            (E(2, 6, "tWW", how="label"), True, "named by label ids only, between chains"),
            (E(1, 4, "cWW", "XIX"), True, "with a Saenger class"),
            (E(3, 7, "cWS", how="stale-label", how2="both"), True, "first residue named by a label id the structure does not know and by its author id"),
            (E(2, 7, "tSS", how="both", how2="stale-auth"), True, "partner named by its label id and by an author id the structure does not know"),
            (E(0, ("ghost", "Z", 11, "G"), "cWW"), False, "partner in a chain the structure does not have"),
            (E(("ghost", "A", 99, "G"), 5, "cWW"), False, "first residue with a number the structure does not have"),
            (E(0, ("ghost", "A", 16, "G"), "cWW", how="auth"), False, "partner named A.G16 while the structure has A.C16 at that position (another residue name)"),
            (E(("ghost", "B", 11, "U"), 3, "cWW", how="auth"), False, "first residue named B.U11 while the structure has B.PSU11 there"),
            (E(("ghost", "Z", 1, "A"), ("ghost", "Z", 2, "U"), "cWW"), False, "both residues absent"),
        ]
        want: Set[Tuple[int, int, str, Optional[str]]] = set()
        for e, ok, _ in entries:
            if not ok:
                continue
            a, b = _find(lab, e.fields["nt1"]), _find(lab, e.fields["nt2"])
            lwn = e.fields["lw"].name
            sa = e.fields["saenger"].name if e.fields["saenger"] is not None else None
            want.add((a, b, lwn, sa))
            want.add((b, a, lw_mirror(lwn), sa))
        m = lab.mapping([e for e, _, _ in entries], False)
        got = w.getattr(m, "base_pairs")
        keys = []
        broken = []
        for bp in got:
            a, b = lab.idx(bp.fields.get("nt1_3d")), lab.idx(bp.fields.get("nt2_3d"))
            k = (a, b, bp.fields["lw"].name, bp.fields["saenger"].name if bp.fields["saenger"] is not None else None)
            keys.append(k)
            # the 2D names carried along must be the ones that resolve to the 3D residues
            if _find(lab, bp.fields["nt1"]) != a or _find(lab, bp.fields["nt2"]) != b:
                broken.append(k)

        def txt(k):
            return f"{lab.show(k[0]) if k[0] is not None else '?'}-{lab.show(k[1]) if k[1] is not None else '?'} {k[2]}" + (f" {k[3]}" if k[3] else "")

        invented = [k for k in keys if k not in want]
        missing = sorted(want - set(keys), key=str)
        twice = sorted({k for k in keys if keys.count(k) > 1}, key=str)
        n_ok = sum(1 for _, ok, _ in entries if ok)
        lost = ""
        if missing:
            # which resolvable entry is not lifted at all when it is the only one?
            for e, ok, desc in entries:
                if ok and not w.getattr(lab.mapping([e], False), "base_pairs"):
                    lost = f" - the entry {desc} is not lifted"
                    break
        if invented:
            # which dangling entry produced it?
            why = ""
            for e, ok, desc in entries:
                if not ok:
                    m1 = lab.mapping([e], False)
                    if w.getattr(m1, "base_pairs"):
                        why = f" - the entry with its {desc} is lifted instead of being ignored"
                        break
            chk.violation(
                "lifting-fact",
                fi.where,
                f"the lifted list contains {[txt(k) for k in invented[:3]]}, which no resolvable entry of the input names{why}: Structure3D.find_residue must find a residue only under its own label or author identity (chain, number, insertion code and name)",
                K(fi, "lifting-fact:invented"),
                found=[txt(k) for k in invented[:6]],
            )
        else:
            chk.ok("lifting-fact", fi.where, f"{len(entries) - n_ok} dangling entries (unknown chain / number / residue name at a known position / both ends) contribute nothing")
        chk.expect(
            not missing,
            "lifting-fact",
            fi.where,
            f"{n_ok} resolvable entries (forward, reversed, duplicate, 3'-only in a non-symmetric class, author-only, label-only, with Saenger class, with one stale and one valid identifier) are all lifted together with their mirror images",
            f"the lifted list lacks {[txt(k) for k in missing[:4]]}{lost}: every resolvable entry must be present together with its mirror image (residues swapped, class read from the other nucleotide); "
            "a residue named by two identifiers is found when either of them names a residue of the structure",
            K(fi, "lifting-fact:missing"),
            found=[txt(k) for k in missing[:6]],
        )
        chk.expect(not twice, "lifting-fact", fi.where, "no lifted pair occurs twice although the input repeats entries and lists pairs from both ends", f"{[txt(k) for k in twice[:4]]} occur more than once in the lifted list: a pair repeated in the input (or listed from both ends) must be lifted once", K(fi, "lifting-fact:twice"), found=[txt(k) for k in twice[:6]])
        chk.expect(not broken, "lifting-fact", fi.where, "every lifted pair carries the 2D names of the residues it was resolved to", f"lifted pairs {[txt(k) for k in broken[:3]]} carry 2D names that do not resolve to their own 3D residues", K(fi, "lifting-fact:names"))
        # stackings: same discipline
        ST = ClassRef(w.cls(CM, "StackingTopology"))
        S = lambda a, b, t, how="both": w.new(CM, "Stacking", lab.name2d(a, how), lab.name2d(b, how), None if t is None else w.getattr(ST, t))
        st_in = [(S(0, 1, "upward"), True), (S(1, 0, "downward"), True), (S(2, 3, "inward"), True), (S(4, ("ghost", "A", 16, "G"), "upward", "auth"), False), (S(("ghost", "Q", 1, "A"), 5, "outward"), False)]
        rev = {"upward": "downward", "downward": "upward", "inward": "inward", "outward": "outward", None: None}
        want_s = set()
        for s, ok in st_in:
            if ok:
                a, b = _find(lab, s.fields["nt1"]), _find(lab, s.fields["nt2"])
                t = s.fields["topology"].name if s.fields["topology"] is not None else None
                want_s.add((a, b, t))
                want_s.add((b, a, rev[t]))
        m2 = w.new(T3, CLS, lab.structure, [], [s for s, _ in st_in], False)
        got_s = [(lab.idx(x.fields.get("nt1_3d")), lab.idx(x.fields.get("nt2_3d")), x.fields["topology"].name if x.fields["topology"] is not None else None) for x in w.getattr(m2, "stackings")]
        ok_s = set(got_s) == want_s and len(got_s) == len(set(got_s))
        chk.expect(
            ok_s,
            "lifting-fact",
            fs.where,
            "stackings: every resolvable entry and its mirror image once, dangling entries ignored",
            f"lifted stackings are {sorted(got_s, key=str)[:6]}..., expected each resolvable entry and its mirror image once: missing {sorted(want_s - set(got_s), key=str)[:3]}, unexpected {sorted(set(got_s) - want_s, key=str)[:3]}, repeated {sorted({k for k in got_s if got_s.count(k) > 1}, key=str)[:3]}",
            K(fs, "lifting-fact:stackings"),
        )

    return _guard(chk, "lifting-fact", fi, "Mapping2D3D.base_pairs / stackings (with Structure3D.find_residue)", run)


def _find(lab: Lab, name: Obj) -> Optional[int]:
    """Reference form of residue look-up: a residue is found under its own label or its own author identity, nothing else."""
    lb, au = name.fields.get("label"), name.fields.get("auth")
    for i, s in enumerate(lab.specs):
        if lb is not None and (lb.fields["chain"], lb.fields["number"], lb.fields["name"]) == (s.chain, s.label_number, s.name):
            return i
    for i, s in enumerate(lab.specs):
        if au is not None and (au.fields["chain"], au.fields["number"], au.fields["icode"], au.fields["name"]) == (s.chain, s.number, s.icode, s.name):
            return i
    return None


# ---------------------------------------------------------------------------------------------------------------------
# conflict resolution


def resolution_model(repo: Repo) -> Lab:
    letters = "GGGAAUUCCCUC"
    specs = [Spec("A", i + 1, c) for i, c in enumerate(letters)]
    return Lab(repo, specs, [(i, i + 1) for i in range(len(letters) - 1)])


RES_CASES: List[Tuple[str, List[Tuple[int, int, str, Optional[str]]]]] = [
    ("no conflict, non-canonical bystanders", [(0, 9, "cWW", None), (3, 6, "cWW", None), (0, 4, "tHS", None), (1, 8, "tWW", None), (2, 3, "cWW", None)]),
    ("two partners of different rank", [(0, 9, "cWW", None), (0, 10, "cWW", None)]),
    ("two partners of different rank, listed in the other order", [(0, 10, "cWW", None), (0, 9, "cWW", None)]),
    ("two partners of the same rank", [(0, 9, "cWW", None), (0, 8, "cWW", None), (4, 5, "cWW", None)]),
    ("three partners of one residue", [(0, 9, "cWW", None), (0, 8, "cWW", None), (0, 7, "cWW", None), (3, 6, "cWW", None)]),
    ("four partners of one residue", [(0, 9, "cWW", None), (0, 8, "cWW", None), (0, 7, "cWW", None), (0, 11, "cWW", None)]),
    ("a chain of conflicts", [(0, 9, "cWW", None), (1, 9, "cWW", None), (1, 8, "cWW", None)]),
    ("two separate conflicts", [(0, 9, "cWW", None), (0, 8, "cWW", None), (2, 7, "cWW", None), (2, 11, "cWW", None), (3, 6, "cWW", None)]),
    ("ranked by Saenger class", [(0, 10, "cWW", "XXVIII"), (0, 9, "cWW", "XIX"), (3, 6, "cWW", "XXI"), (4, 5, "cWW", "XX")]),
]


def _canonical(lab: Lab, p: Tuple[int, int, str, Optional[str]]) -> bool:
    a, b, lw, sa = p
    if sa is not None:
        return sa in ("XIX", "XX", "XXVIII")
    return lw == "cWW" and "".join(sorted((lab.specs[a].letter.upper(), lab.specs[b].letter.upper()))) in CANON_LETTERS


def _rank(lab: Lab, p: Tuple[int, int, str, Optional[str]]) -> int:
    a, b, lw, sa = p
    if sa is not None:
        return 0 if sa in ("XIX", "XX") else 1
    return 0 if "".join(sorted((lab.specs[a].letter.upper(), lab.specs[b].letter.upper()))) in RANK0_LETTERS else 1


def check_resolution(chk) -> Optional[bool]:
    repo = chk.repo
    fi = repo.func(T3, f"{CLS}._generated_bpseq_data")
    chk.note_function(fi)
    for q in (f"{CLS}.bpseq", f"{CLS}.bpseq_index_to_residue_map", "BasePair3D.is_canonical"):
        if repo.has_func(T3, q):
            chk.note_function(repo.func(T3, q))
    problems: Dict[str, Tuple[str, Any]] = {}
    n_cases = {"n": 0}

    def run():
        for title, case in RES_CASES:
            lab = resolution_model(repo)
            w = lab.w
            w.overrides[(CLS, "__generate_bpseq")] = lab.capture
            lifted = []
            for a, b, lw, sa in case:
                lifted.append(lab.pair3d(a, b, lw, sa))
                lifted.append(lab.pair3d(b, a, lw_mirror(lw), sa))
            m = lab.mapping([], False, lifted=lifted)
            data = w.getattr(m, "_generated_bpseq_data")
            n_cases["n"] += 1
            show = lambda p: f"{lab.show(p[0])}-{lab.show(p[1])}"
            listing = ", ".join(show(p) + ("" if p[2] == "cWW" else f" {p[2]}") + (f" {p[3]}" if p[3] else "") for p in case)
            if len(lab.handed) != 1:
                problems.setdefault("handed", (f"__generate_bpseq is called {len(lab.handed)} times by _generated_bpseq_data (model: {title})", None))
                continue
            R = [(lab.idx(x.fields["nt1_3d"]), lab.idx(x.fields["nt2_3d"]), x.fields["lw"].name, x.fields["saenger"].name if x.fields["saenger"] is not None else None) for x in lab.handed[0]]
            cand = {frozenset((p[0], p[1])): p for p in case if _canonical(lab, p)}
            # (S) every pair comes from the canonical candidates
            allowed = {(p[0], p[1], p[2], p[3]) for p in cand.values()} | {(p[1], p[0], lw_mirror(p[2]), p[3]) for p in cand.values()}
            foreign = [r for r in R if r not in allowed]
            if foreign:
                problems.setdefault("foreign", (f"the list handed to __generate_bpseq contains {[show(r) + ' ' + r[2] for r in foreign[:3]]}, which is not a canonical pair of the input [{listing}] ({title})", foreign[:4]))
            # (M) at most one partner per residue
            partners: Dict[int, Set[int]] = {}
            for r in R:
                partners.setdefault(r[0], set()).add(r[1])
                partners.setdefault(r[1], set()).add(r[0])
            multi = {k: v for k, v in partners.items() if len(v) > 1}
            if multi:
                k = sorted(multi)[0]
                problems.setdefault(
                    "matching",
                    (
                        f"after conflict resolution {lab.show(k)} still has {len(multi[k])} partners ({', '.join(lab.show(x) for x in sorted(multi[k]))}) in the list handed to __generate_bpseq for the input [{listing}] ({title}): the list is not a matching, __generate_bpseq overwrites partners and the BPSEQ becomes asymmetric",
                        {lab.show(a): sorted(lab.show(x) for x in b) for a, b in multi.items()},
                    ),
                )
            # (K) a candidate that conflicts with no other is kept
            kept = {frozenset((r[0], r[1])) for r in R}
            for key, p in cand.items():
                alone = not any(k2 != key and (k2 & key) for k2 in cand)
                if alone and key not in kept:
                    problems.setdefault("kept", (f"the canonical pair {show(p)} conflicts with no other pair of the input [{listing}] but is missing from the list handed to __generate_bpseq ({title})", show(p)))
            # exactly one representative per surviving pair
            if len(R) != len(kept) and "foreign" not in problems:
                problems.setdefault("once", (f"the list handed to __generate_bpseq names a pair more than once for the input [{listing}] ({title})", [show(r) for r in R]))
            # (W) two-way conflict of different rank: the better one stays
            if len(cand) == 2 and len(case) == 2:
                (k1, p1), (k2, p2) = list(cand.items())
                if (k1 & k2) and _rank(lab, p1) != _rank(lab, p2):
                    best = p1 if _rank(lab, p1) < _rank(lab, p2) else p2
                    if kept != {frozenset((best[0], best[1]))}:
                        problems.setdefault("rank", (f"of the conflicting pairs [{listing}] the Watson-Crick pair {show(best)} must survive the wobble pair; the result keeps {[show(r) for r in R]} ({title})", [show(r) for r in R]))
            # the public views are the two components of the same data
            b = w.getattr(m, "bpseq")
            im = w.getattr(m, "bpseq_index_to_residue_map")
            if not (isinstance(data, tuple) and len(data) == 2 and b is data[0] and im is data[1]):
                problems.setdefault("views", (f"Mapping2D3D.bpseq / bpseq_index_to_residue_map are not the two components of _generated_bpseq_data ({title})", None))

    r = _guard(chk, "resolution-fact", fi, "Mapping2D3D._generated_bpseq_data", run)
    if r is None:
        return None
    _guard(chk, "canonical-candidates", fi, "the candidate filter of _generated_bpseq_data", lambda: check_candidate_filter(chk, fi))
    texts = {
        "matching": "every residue has at most one partner in the list handed to __generate_bpseq",
        "foreign": "every pair handed on is a canonical pair of the input",
        "kept": "every canonical pair that conflicts with no other is kept",
        "once": "every surviving pair is handed on once",
        "rank": "of two conflicting partners the Watson-Crick pair survives the wobble pair",
        "views": "bpseq and the index map are the two components of the same data",
        "handed": "__generate_bpseq is called once with the resolved list",
    }
    for k, t in texts.items():
        if k in problems:
            chk.violation("resolution-fact", fi.where, problems[k][0], K(fi, f"resolution-fact:{k}"), found=problems[k][1])
        else:
            chk.ok("resolution-fact", fi.where, f"{t} ({n_cases['n']} models: " + "; ".join(t2 for t2, _ in RES_CASES) + ")")
    return True


def check_candidate_filter(chk, fi) -> None:
    """Every comprehension that selects candidates from self.base_pairs (the lifted list holds each pair in both orientations) is
    evaluated on a canonical pair, its mirror image and a non-canonical pair with its mirror image: exactly one orientation of the
    canonical pair may pass, nothing else.  With both orientations admitted every paired residue counts as conflicted."""
    from sa.objeval import OFolder

    repo = chk.repo
    lab = resolution_model(repo)
    w = lab.w
    raw_fn = lab.raw.func(T3, f"{CLS}._generated_bpseq_data").node
    F, R = lab.pair3d(0, 9, "cWW"), lab.pair3d(9, 0, "cWW")
    WF, WR = lab.pair3d(2, 10, "cWW", "XXVIII"), lab.pair3d(10, 2, "cWW", "XXVIII")
    NF, NR = lab.pair3d(1, 4, "tHS"), lab.pair3d(4, 1, "tSH")
    XF, XR = lab.pair3d(3, 4, "cWW"), lab.pair3d(4, 3, "cWW")  # A-A: cWW but not canonical
    m = lab.mapping([], False, lifted=[F, R, NF, NR, WR, WF, XF, XR])
    n = 0
    for comp in [c for c in ast.walk(raw_fn) if isinstance(c, (ast.ListComp, ast.GeneratorExp, ast.SetComp))]:
        g = comp.generators
        if len(g) != 1 or ast.unparse(g[0].iter) != "self.base_pairs" or not g[0].ifs:
            continue
        n += 1
        got = list(OFolder(w, T3, {"self": m}, CLS).fold(_probe(comp)))
        passed = {id(x) for x in got}
        both = [t for t, (a, b) in (("A.G1-A.C10", (F, R)), ("A.G3-A.U11", (WF, WR))) if id(a) in passed and id(b) in passed]
        none = [t for t, (a, b) in (("A.G1-A.C10", (F, R)), ("A.G3-A.U11", (WF, WR))) if id(a) not in passed and id(b) not in passed]
        stray = [t for t, x in (("A.G2-A.A5 tHS", NF), ("A.A5-A.G2 tSH", NR), ("A.A4-A.A5 cWW", XF), ("A.A5-A.A4 cWW", XR)) if id(x) in passed]
        site = fi.site(comp) if hasattr(comp, "lineno") else fi.where
        if both:
            chk.violation("canonical-candidates", site, f"`{ast.unparse(comp)[:110]}` admits both orientations of {both[0]} (the lifted list holds every pair and its mirror image): each pair then competes with its own mirror image, every paired residue counts as conflicted and the order in which conflicts are resolved changes", K(fi, "canonical-candidates:both"), found=both)
        elif none:
            chk.violation("canonical-candidates", site, f"`{ast.unparse(comp)[:110]}` admits neither orientation of the canonical pair {none[0]}", K(fi, "canonical-candidates:none"), found=none)
        elif stray:
            chk.violation("canonical-candidates", site, f"`{ast.unparse(comp)[:110]}` admits the non-canonical pair {stray[0]}", K(fi, "canonical-candidates:stray"), found=stray)
        else:
            chk.ok("canonical-candidates", site, "the candidate filter admits exactly one orientation of a canonical pair (Watson-Crick and wobble) and no non-canonical pair")
    if n == 0:
        chk.ok("canonical-candidates", fi.where, "no comprehension filters self.base_pairs here; candidates are decided by rule `resolution-fact` only")


def _probe(comp: ast.AST) -> ast.AST:
    """[<target> for <target> in <iter> if <conds>] of a one-generator comprehension: which elements pass its conditions"""
    import copy

    g = comp.generators[0]
    elt = copy.deepcopy(g.target)
    for x in ast.walk(elt):
        if hasattr(x, "ctx"):
            x.ctx = ast.Load()
    return ast.fix_missing_locations(ast.ListComp(elt=elt, generators=[copy.deepcopy(g)]))


# ---------------------------------------------------------------------------------------------------------------------
# per-strand text


def check_text(chk) -> Optional[bool]:
    repo = chk.repo
    fi = repo.func(T3, f"{CLS}.dot_bracket")
    fa = repo.func(T3, f"{CLS}.all_dot_brackets")
    fsl = repo.func(T3, f"{CLS}.__generate_dot_bracket_per_strand") if repo.has_func(T3, f"{CLS}.__generate_dot_bracket_per_strand") else None
    for f in (fi, fa, fsl):
        if f is not None:
            chk.note_function(f)

    def run():
        for find_gaps in (True, False):
            lab = gap_model(repo)
            w = lab.w
            m = lab.mapping([], find_gaps)
            strands = lab.ref_sequences(find_gaps)
            n = sum(len(s) for _, s in strands)
            marks = "abcdefghijklmnopqrstuvwxyz"[:n]
            stub = BpSeqStub([])
            stub.dot_bracket = DbStub(marks)
            members = [DbStub(marks.upper()), stub.dot_bracket, DbStub(marks[::-1])]
            stub.all_dot_brackets = list(members)
            m.cache["bpseq"] = stub
            m.cache["_generated_bpseq_data"] = (stub, {})

            def text_of(s: str) -> str:
                out, i = [], 0
                for chain, seq in strands:
                    out += [f">strand_{chain}", seq, s[i : i + len(seq)]]
                    i += len(seq)
                return "\n".join(out)

            tag = f"gap detection {'on' if find_gaps else 'off'}"
            got = w.getattr(m, "dot_bracket")
            chk.expect(
                got == text_of(marks),
                "strand-text-fact",
                fi.where,
                f"dot_bracket = for every strand `>strand_<chain>`, its sequence and its own consecutive slice of the notation; the slices concatenate to the notation ({tag})",
                f"Mapping2D3D.dot_bracket is {got!r}, expected {text_of(marks)!r}: strand i must be paired with the i-th of the consecutive slices whose lengths are the strand lengths ({tag}, strands {strands})",
                K(fi, "strand-text-fact:dot-bracket"),
                expected=text_of(marks),
                found=got,
            )
            got_all = w.getattr(m, "all_dot_brackets")
            want_all = [text_of(x.structure) for x in members]
            ok = isinstance(got_all, list) and sorted(got_all) == sorted(want_all)
            chk.expect(
                ok,
                "strand-text-fact",
                fa.where,
                f"all_dot_brackets = one such text per member of BpSeq.all_dot_brackets ({tag})",
                f"Mapping2D3D.all_dot_brackets is {got_all!r}, expected one text per member of BpSeq.all_dot_brackets: {want_all!r} ({tag})",
                K(fa, "strand-text-fact:all"),
                expected=want_all,
                found=got_all if isinstance(got_all, list) else repr(got_all),
            )

    return _guard(chk, "strand-text-fact", fi, "Mapping2D3D.dot_bracket / all_dot_brackets", run)


# ---------------------------------------------------------------------------------------------------------------------
# extended rows


def extended_model(repo: Repo) -> Lab:
    specs = [Spec("A", i + 1, c) for i, c in enumerate("GCAUGC")] + [Spec("B", i + 1, c) for i, c in enumerate("GCAU")]
    return Lab(repo, specs, [(i, i + 1) for i in range(5)] + [(i, i + 1) for i in range(6, 9)])


def check_extended(chk) -> Optional[bool]:
    repo = chk.repo
    fi = repo.func(T3, f"{CLS}.extended_dot_bracket")
    chk.note_function(fi)

    def run():
        lab = extended_model(repo)
        w = lab.w
        E = lab.entry
        entries = [
            E(0, 5, "cWW"), E(0, 3, "cWW"), E(0, 9, "cWW"), E(1, 4, "cWW"), E(2, 5, "cWW"),  # A.G1 has three partners in one class, A.C6 two (as the 3' end)
            E(4, 2, "tHS"),  # listed only from its 3' end: read from A.A3 it is tSH
            E(1, 6, "cWH"), E(6, 1, "cHW"),  # listed from both ends
            E(5, 6, "tWW"),  # between the chains
            E(0, 5, "cWW"),  # duplicate
            E(7, 8, "cSS", how="auth"),
            E(2, ("ghost", "Z", 5, "U"), "cWW"),  # dangling
            E(3, 4, "cWW"),  # A.U4 sits in the second row only, A.G5 in the first row only: the first row free for BOTH is the third
            E(4, 8, "cWW"),  # A.G5 is already in the first row, as a later member (not as the pair that opened the row)
            E(1, 2, "cWW"),  # the mirror case: A.C2 sits in the first row only, A.A3 in the second row only
        ]
        want = {(0, 5, "cWW"), (0, 3, "cWW"), (0, 9, "cWW"), (1, 4, "cWW"), (2, 5, "cWW"), (2, 4, "tSH"), (1, 6, "cWH"), (5, 6, "tWW"), (7, 8, "cSS"), (4, 8, "cWW"), (3, 4, "cWW"), (1, 2, "cWW")}
        m = lab.mapping(entries, False)
        text = w.getattr(m, "extended_dot_bracket")
        strands = lab.ref_sequences(False)
        n = sum(len(s) for _, s in strands)
        if not isinstance(text, str):
            chk.violation("extended-fact", fi.where, f"extended_dot_bracket returns {type(text).__name__}, not text", K(fi, "extended-fact:type"))
            return
        lines = text.split("\n")
        # blocks: one per strand, each starting with the header and the sequence
        blocks: List[List[str]] = []
        for ln in lines:
            if ln.strip().startswith(">strand_"):
                blocks.append([ln])
            elif blocks:
                blocks[-1].append(ln)
        heads_ok = len(blocks) == len(strands) and all(b[0].strip() == f">strand_{c}" and len(b) >= 2 and b[1] == f"seq {s}" for b, (c, s) in zip(blocks, strands))
        chk.expect(heads_ok, "extended-fact", fi.where, "one block per strand: header, then `seq <sequence>`", f"the extended notation does not consist of one block per strand starting with `>strand_<chain>` and `seq <sequence>`: {lines[:4]}", K(fi, "extended-fact:blocks"), found=lines[:6])
        if not heads_ok:
            return
        rows = [b[2:] for b in blocks]
        same = len({len(r) for r in rows}) == 1
        chk.expect(same, "extended-fact", fi.where, "every strand block has the same number of rows", f"strand blocks have {[len(r) for r in rows]} rows: a row is not written for every strand", K(fi, "extended-fact:row-count"))
        if not same:
            return
        got: List[Tuple[int, int, str]] = []
        problems = []
        number = lab.ref_numbering(False)[1]
        back = {v: k for k, v in number.items()}
        for k in range(len(rows[0])):
            labels = {r[k].split(" ", 1)[0] for r in rows}
            parts = [r[k].split(" ", 1)[1] if " " in r[k] else "" for r in rows]
            if len(labels) != 1:
                problems.append(f"row {k} is labelled {sorted(labels)} in different strands")
                continue
            lw = labels.pop()
            if [len(p) for p in parts] != [len(s) for _, s in strands]:
                problems.append(f"row {k} ({lw}) has slices of lengths {[len(p) for p in parts]}, the strands have {[len(s) for _, s in strands]}")
                continue
            pairs, bad = decode("".join(parts))
            if bad:
                problems.append(f"row {k} ({lw}) is not a matching: position(s) {bad} have a partner that does not point back (a residue was given two partners in one row)")
            for i, j in pairs:
                got.append((back[i], back[j], lw))
        txt = lambda p: f"{lab.show(p[0])}-{lab.show(p[1])} {p[2]}"
        missing = sorted(want - set(got), key=str)
        extra = sorted(set(got) - want, key=str)
        twice = sorted({p for p in got if got.count(p) > 1}, key=str)
        chk.expect(not problems, "extended-fact", fi.where, f"{len(rows[0])} rows, each labelled with one class, as long as the sequence, each a matching", "; ".join(problems[:2]), K(fi, "extended-fact:rows"), found=problems[:4])
        model = "input: A.G1 with three cWW partners, A.G5-A.A3 tHS listed only from its 3' end, A.C2-B.G1 listed from both ends, a pair between the chains, a duplicate, an author-only name, a dangling entry"
        chk.expect(
            not missing,
            "extended-fact",
            fi.where,
            f"the rows hold all {len(want)} distinct pairs of the input under the class read from the 5' nucleotide",
            f"the extended notation lacks {[txt(p) for p in missing[:4]]} ({model}): every distinct input pair must appear in the row set of its class as read from its 5' nucleotide",
            K(fi, "extended-fact:missing"),
            found=[txt(p) for p in missing[:6]],
        )
        chk.expect(not extra, "extended-fact", fi.where, "no row holds a pair the input does not name", f"the extended notation holds {[txt(p) for p in extra[:4]]}, which the input does not name under that class ({model})", K(fi, "extended-fact:extra"), found=[txt(p) for p in extra[:6]])
        chk.expect(not twice, "extended-fact", fi.where, "no pair is written twice", f"{[txt(p) for p in twice[:4]]} are written in more than one row ({model}): each distinct pair exactly once", K(fi, "extended-fact:twice"), found=[txt(p) for p in twice[:6]])

    return _guard(chk, "extended-fact", fi, "Mapping2D3D.extended_dot_bracket (with lifting, __generate_bpseq and the slicer)", run)


# ---------------------------------------------------------------------------------------------------------------------
# entry points: what reaches the mapping


class Structure2DStub:
    _folder_stub = True

    def __init__(self, *args, **kwargs):
        self.args, self.kwargs = args, kwargs
        self.dotBracket = args[2] if len(args) > 2 else kwargs.get("dotBracket")
        self.baseInteractions = args[0] if args else kwargs.get("baseInteractions")


def mapping_sites(repo: Repo) -> List[Tuple[Any, ast.Call]]:
    """(function, call) for every construction of tertiary.Mapping2D3D in a module-level function of the package"""
    out = []
    for mod in repo.modules.values():
        for q, fi in mod.funcs.items():
            if "." in q:
                continue
            for n in ast.walk(fi.node):
                if isinstance(n, ast.Call) and isinstance(n.func, (ast.Name, ast.Attribute)):
                    nm = n.func.id if isinstance(n.func, ast.Name) else n.func.attr
                    if nm != CLS:
                        continue
                    try:
                        hm, hn = repo.const_home(mod.name, nm)
                    except Exception:
                        continue
                    if (hm, hn) == (T3, CLS):
                        out.append((fi, n))
    return out


def check_entry_input(chk) -> None:
    """The statement quantifies over *any* pair list - reversed, duplicated, dangling entries included.  Every function of the
    package that builds the mapping from a set of interactions is interpreted on the lifting model: the mapping it builds must lift
    exactly what a mapping of the whole input list lifts (pairs and stackings), over the given structure, with the given gap option.
    An entry point that narrows the list first (one orientation only, a slice, a class filter) makes the text describe another list
    than the one reported next to it."""
    repo = chk.repo
    sites = mapping_sites(repo)
    if not sites:
        chk.error("mapping-input-fact", "-", "no construction of tertiary.Mapping2D3D found in a module-level function of the package: what the entry points hand to the mapping is not decided")
    seen = set()
    for fi, call in sites:
        if id(fi) in seen:
            continue
        seen.add(id(fi))
        chk.note_function(fi)
        verdict = {"done": False}

        def run(fi=fi):
            _entry_input(chk, fi, verdict)

        r = _guard(chk, "mapping-input-fact", fi, f"{fi.module.name}.{fi.qualname}", run)
        if r is None or not verdict["done"]:
            _entry_input_form(chk, fi, [c for f2, c in sites if f2 is fi])


def _entry_model(lab: Lab):
    E = lab.entry
    w = lab.w
    pairs = [
        E(0, 5, "cWW"),
        E(5, 0, "cWW"),  # the same pair from its other end
        E(4, 2, "tHS"),  # listed only from its 3' end
        E(1, 3, "cWH", how="auth"),
        E(1, 3, "cWH", how="auth"),  # duplicate
        E(2, 6, "tWW", how="label"),
        E(7, 6, "cSS"),  # between B.C12 and B.PSU11, from the 3' end only
        E(0, ("ghost", "Z", 11, "G"), "cWW"),  # dangling
        E(0, 5, "tSH"),  # a second, different interaction between two residues that already have one (not its mirror image)
        E(3, 1, "tWS"),  # the same for a pair listed from its 3' end
    ]
    ST = ClassRef(w.cls(CM, "StackingTopology"))
    S = lambda a, b, t: w.new(CM, "Stacking", lab.name2d(a), lab.name2d(b), w.getattr(ST, t))
    stackings = [S(0, 1, "upward"), S(3, 2, "downward"), S(4, 5, "inward"), S(7, 6, "outward")]
    return pairs, stackings


def _lifted_keys(lab: Lab, m: Obj) -> Tuple[List[Any], List[Any]]:
    w = lab.w
    bp = [(lab.idx(x.fields.get("nt1_3d")), lab.idx(x.fields.get("nt2_3d")), x.fields["lw"].name, x.fields["saenger"].name if x.fields["saenger"] is not None else None) for x in w.getattr(m, "base_pairs")]
    st = [(lab.idx(x.fields.get("nt1_3d")), lab.idx(x.fields.get("nt2_3d")), x.fields["topology"].name if x.fields["topology"] is not None else None) for x in w.getattr(m, "stackings")]
    return bp, st


def _entry_input(chk, fi, verdict) -> None:
    repo = chk.repo
    mod = fi.module.name
    problems: List[Tuple[str, str, Any]] = []
    n_runs = 0
    for find_gaps in (False, True):
        for all_db in (False, True):
            lab = lifting_model(repo)
            w = lab.w
            pairs, stackings = _entry_model(lab)
            bi = w.new(CM, "BaseInteractions", list(pairs), list(stackings), [], [], [])
            built: List[Obj] = []
            real = w.cls(T3, CLS)

            def make(*args, **kwargs):
                o = w.instantiate(real, args, kwargs)
                stub = BpSeqStub([])
                # text, elements and geometry of the mapping are other rules' (and other properties') subject
                o.cache.update({"bpseq": stub, "_generated_bpseq_data": (stub, {}), "bpseq_index_to_residue_map": {}, "dot_bracket": "<dot-bracket>", "extended_dot_bracket": "<extended>", "all_dot_brackets": ["<dot-bracket>", "<second>"]})
                built.append(o)
                return o

            w.class_overrides[CLS] = make
            w.class_overrides["Structure2D"] = Structure2DStub
            for m2 in repo.modules:
                w.func_overrides[(m2, "calculate_all_inter_stem_parameters")] = lambda *a, **k: []
                w.func_overrides[(m2, "extract_base_interactions")] = lambda *a, **k: bi
            # arguments by annotation
            args = []
            a = fi.node.args
            for p in a.posonlyargs + a.args:
                ann = ast.unparse(p.annotation) if p.annotation is not None else ""
                if "Structure3D" in ann:
                    args.append(lab.structure)
                elif "BaseInteractions" in ann:
                    args.append(bi)
                elif "bool" in ann:
                    args.append(find_gaps if "gap" in p.arg else all_db if ("all" in p.arg or "bracket" in p.arg) else False)
                elif "int" in ann:
                    args.append(None)
                else:
                    raise Unknown(f"parameter `{p.arg}` of {fi.qualname} has no model value")
            if a.vararg or a.kwarg or a.kwonlyargs:
                raise Unknown("variadic entry point")
            from sa.objeval import FuncRef

            FuncRef(w, mod, lab.raw.func(mod, fi.qualname).node)(*args)
            n_runs += 1
            tag = f"gap detection {'on' if find_gaps else 'off'}, all_dot_brackets={all_db}"
            if not built:
                raise Unknown("no mapping is built on the evaluated path")
            d2 = w.instantiate(real, (lab.structure, list(pairs), list(stackings), find_gaps), {})
            want_bp, want_st = _lifted_keys(lab, d2)
            show = lambda k: f"{lab.show(k[0]) if k[0] is not None else '?'}-{lab.show(k[1]) if k[1] is not None else '?'} {k[2]}"
            for m in built:
                got_bp, got_st = _lifted_keys(lab, m)
                miss = [k for k in want_bp if k not in got_bp]
                extra = [k for k in got_bp if k not in want_bp]
                if miss or extra:
                    problems.append(("pairs", f"the mapping built by {fi.qualname} lifts {len(got_bp)} pairs where a mapping of the whole input list lifts {len(want_bp)}: " + (f"{[show(k) for k in miss[:4]]} are lost" if miss else f"{[show(k) for k in extra[:4]]} are added") + " (input: a pair listed from both ends, pairs listed only from their 3' end, a duplicate, two different classes between the same two residues, author-only and label-only names, a dangling entry): the list handed to the mapping is not the interactions' whole pair list, so BPSEQ, dot-bracket and extended rows describe another list than the one reported", [show(k) for k in (miss or extra)[:6]]))
                miss_s = [k for k in want_st if k not in got_st]
                extra_s = [k for k in got_st if k not in want_st]
                if miss_s or extra_s:
                    problems.append(("stackings", f"the mapping built by {fi.qualname} lifts {len(got_st)} stackings where a mapping of the whole input list lifts {len(want_st)} (lost {[show(k) for k in miss_s[:3]]}, added {[show(k) for k in extra_s[:3]]})", None))
                if m.fields.get("structure3d") is not lab.structure:
                    problems.append(("structure", f"the mapping built by {fi.qualname} is not over the structure it was given", None))
                if bool(m.fields.get("find_gaps")) != find_gaps:
                    problems.append(("gaps", f"{fi.qualname} builds the mapping with find_gaps={m.fields.get('find_gaps')!r} when called with find_gaps={find_gaps} ({tag})", None))
    verdict["done"] = True
    texts = {
        "pairs": "the mapping lifts exactly what a mapping of the whole input pair list lifts",
        "stackings": "the mapping lifts exactly the stackings of the input",
        "structure": "the mapping is over the given structure",
        "gaps": "the gap option is handed on as given",
    }
    first: Dict[str, Tuple[str, Any]] = {}
    for k, msg, found in problems:
        first.setdefault(k, (msg, found))
    for k, t in texts.items():
        if k in first:
            chk.violation("mapping-input-fact", fi.where, first[k][0], K(fi, f"mapping-input-fact:{k}"), found=first[k][1])
        else:
            chk.ok("mapping-input-fact", fi.where, f"{fi.module.name}.{fi.qualname}: {t} ({n_runs} evaluated calls: gap detection on/off x all_dot_brackets on/off)")


def _entry_input_form(chk, fi, calls: List[ast.Call]) -> None:
    """Fallback for an entry point outside the interpreted fragment (argparse mains): the pair-list argument of the constructor is,
    after inlining local single assignments, an attribute chain ending in `.basePairs` - nothing computed from it."""
    from sa import astq

    for call in calls:
        arg = call.args[1] if len(call.args) > 1 else next((k.value for k in call.keywords if k.arg == "base_pairs2d"), None)
        site = fi.site(call)
        if arg is None:
            chk.error("mapping-input-form", site, "the pair-list argument of Mapping2D3D(...) was not found")
            continue
        e = arg
        for _ in range(4):
            d = astq.single_def(fi.node, e.id) if isinstance(e, ast.Name) else None
            if d is None:
                break
            e = d
        chain = e
        while isinstance(chain, ast.Attribute):
            chain = chain.value
        if isinstance(e, ast.Attribute) and e.attr == "basePairs" and isinstance(chain, ast.Name):
            chk.ok("mapping-input-form", site, f"Mapping2D3D receives `{ast.unparse(e)}`: the interactions' own pair list, nothing computed from it")
        elif isinstance(e, ast.Name):
            chk.ok("mapping-input-form", site, f"Mapping2D3D receives the caller's list `{e.id}` as it is")
        else:
            chk.error("mapping-input-form", site, f"Mapping2D3D receives `{ast.unparse(e)[:80]}`, a value computed from the pair list, in a function outside the interpreted fragment: whether every input entry reaches the mapping is not decided")


def check(chk) -> Dict[str, bool]:
    """Runs the fact-level rules; mechanism -> decided at fact level (False = fall back to the pinned forms)."""
    try:
        check_entry_input(chk)
    except Exception as ex:
        chk.error("mapping-input-fact", "-", f"evaluation of the entry points failed internally ({type(ex).__name__}: {str(ex)[:120]})")
    out = {}
    for name, fn in (("lifting", check_lifting), ("resolution", check_resolution), ("numbering", check_numbering), ("text", check_text), ("extended", check_extended)):
        try:
            out[name] = fn(chk) is True
        except Exception as ex:  # never a traceback, never a verdict
            chk.ok("c06-facts", "-", f"{name}: fact-level evaluation failed internally ({type(ex).__name__}: {str(ex)[:120]}); the pinned forms decide this mechanism")
            out[name] = False
    return out
