"""C07 - fact-level (evidence) rules for BpSeq.elements.

The pinned-form rules of checks/c07.py compare statements with the text they have at the reference commit.  The rules
here decide the same behaviour from *facts computed on the current code*, whatever its statement shape:

  stops-fact     the values that flow into the stop set are exactly {strand5p,strand3p} x {first,last} - 1 of the stem
                 built in the same iteration; the window list is sorted(<that set>)
  windows-fact   the window loop visits every consecutive pair (p, n) of the sorted stops, cuts entries[p .. n] (closed),
                 and on every path: interior not all unpaired -> nothing; ends paired with each other -> Hairpin of that
                 window; otherwise -> loop-strand candidate of that window
  tails-fact     SingleStrand(.., True, False) is entries[0 .. stops[0]] under stops[0] > 0; SingleStrand(.., False, True)
                 is entries[stops[-1] .. end] under stops[-1] < len(entries) - 1; SingleStrand(.., False, False) is a loop
                 candidate that is in no recorded loop
  links-fact     an edge a -> b of the linking graph is added iff entries[cand[a].last - 1].pair == cand[b].first, and
                 every ordered pair of candidates is examined
  closure-fact   Loop(walk) is recorded, in walk order, iff entries[walk[0].first - 1].pair == walk[-1].last and some
                 strand of the walk has an interior (last - first > 1); its strands are marked used

Positions are affine forms (sa/sym.py) over atoms that name where a value comes from, canonicalised so that
`candidate[0]`, `self.entries[begin]`, `entries[stops[i - 1]]` are the same thing, `x.index_` of entries[k] is k + 1, a
slice of a slice is a slice of the list, and integer comparisons are of the form `aff > 0`.
"""
from __future__ import annotations

import ast
import copy
import itertools
from typing import Any, Dict, List, Optional, Sequence, Tuple

from checks.c01 import K
from sa import astq
from sa.flow import FlowMap
from sa.model import norm
from sa.paths import paths as enum_paths
from sa.sym import Aff, SymEnv, atom_of

ENTRIES = ("attr", "entries", ("param", "self"))


class NotRecognised(Exception):
    pass


# ---------------------------------------------------------------------------------------------------------------------
# normalisation of the function body: literal loops and literal comprehensions are unrolled everywhere


def _subst(node: ast.AST, name: str, value: ast.AST) -> ast.AST:
    class S(ast.NodeTransformer):
        def visit_Name(self, n):
            if n.id == name and isinstance(n.ctx, ast.Load):
                return copy.deepcopy(value)
            return n

    return ast.fix_missing_locations(S().visit(copy.deepcopy(node)))


def _subst_target(node: ast.AST, target: ast.AST, value: ast.AST) -> Optional[ast.AST]:
    if isinstance(target, ast.Name):
        return _subst(node, target.id, value)
    if isinstance(target, (ast.Tuple, ast.List)) and isinstance(value, (ast.Tuple, ast.List)) and len(target.elts) == len(value.elts):
        out = node
        for t, v in zip(target.elts, value.elts):
            out = _subst_target(out, t, v)
            if out is None:
                return None
        return out
    return None


def unroll(block: Sequence[ast.stmt]) -> List[ast.stmt]:
    out: List[ast.stmt] = []
    for st in block:
        if (
            isinstance(st, ast.For)
            and isinstance(st.iter, (ast.Tuple, ast.List))
            and not st.orelse
            and len(st.iter.elts) <= 6
            and not any(isinstance(n, (ast.Break, ast.Continue)) for n in ast.walk(st))
            and not any(isinstance(n, ast.Name) and n.id in astq.target_names(st.target) and isinstance(n.ctx, ast.Store) for b in st.body for n in ast.walk(b))
        ):
            ok = True
            rounds: List[ast.stmt] = []
            for e in st.iter.elts:
                for b in st.body:
                    nb = _subst_target(b, st.target, e)
                    if nb is None:
                        ok = False
                        break
                    ast.copy_location(nb, b)
                    rounds.append(nb)
            if ok:
                out.extend(unroll(rounds))
                continue
        new = copy.copy(st)
        for fld in ("body", "orelse", "finalbody"):
            if hasattr(new, fld) and isinstance(getattr(new, fld), list):
                setattr(new, fld, unroll(getattr(new, fld)))
        if isinstance(new, ast.Try):
            new.handlers = [copy.copy(h) for h in new.handlers]
            for h in new.handlers:
                h.body = unroll(h.body)
        out.append(new)
    return out


def expand_elements(arg: ast.AST) -> Optional[List[ast.AST]]:
    """The element expressions of a literal collection or of a comprehension over literal collections."""
    if isinstance(arg, (ast.Tuple, ast.List, ast.Set)):
        if any(isinstance(e, ast.Starred) for e in arg.elts):
            return None
        return list(arg.elts)
    if isinstance(arg, (ast.GeneratorExp, ast.ListComp, ast.SetComp)):
        elts = [arg.elt]
        for g in arg.generators:
            if g.ifs or g.is_async:
                return None
            nxt = []
            for e in elts:
                # the iterable may mention earlier targets: substitute first
                it = g.iter
                if not isinstance(it, (ast.Tuple, ast.List)):
                    return None
                nxt.append((e, it))
            elts2 = []
            for e, it in nxt:
                for v in it.elts:
                    r = _subst_target(e, g.target, v)
                    if r is None:
                        return None
                    elts2.append(r)
            elts = elts2
        # generators are nested left to right; later iterables may use earlier targets, so expand innermost-last:
        return elts
    return None


def expand_comprehension(arg: ast.AST) -> Optional[List[ast.AST]]:
    """Like expand_elements, but handles `for s in (a, b) for p in (s.first, s.last)` (later iterables mention earlier
    targets) by expanding generators left to right on (elt, remaining generators)."""
    if isinstance(arg, (ast.Tuple, ast.List, ast.Set)):
        return expand_elements(arg)
    if not isinstance(arg, (ast.GeneratorExp, ast.ListComp, ast.SetComp)):
        return None

    def rec(elt: ast.AST, gens: List[ast.comprehension]) -> Optional[List[ast.AST]]:
        if not gens:
            return [elt]
        g = gens[0]
        if g.ifs or g.is_async or not isinstance(g.iter, (ast.Tuple, ast.List)):
            return None
        out: List[ast.AST] = []
        for v in g.iter.elts:
            e2 = _subst_target(elt, g.target, v)
            if e2 is None:
                return None
            gens2 = []
            for h in gens[1:]:
                h2 = copy.copy(h)
                it2 = _subst_target(h.iter, g.target, v)
                if it2 is None:
                    return None
                h2.iter = it2
                gens2.append(h2)
            r = rec(e2, gens2)
            if r is None:
                return None
            out.extend(r)
        return out

    return rec(arg.elt, list(arg.generators))


# ---------------------------------------------------------------------------------------------------------------------
# canonical positions


def _aff(x: Any) -> Aff:
    if isinstance(x, Aff):
        return x
    if isinstance(x, int) and not isinstance(x, bool):
        return Aff.c(x)
    if isinstance(x, tuple) and x and x[0] == "const" and isinstance(x[1], int) and not isinstance(x[1], bool):
        return Aff.c(x[1])
    if isinstance(x, tuple) and x and x[0] == "aff":
        return x[1]
    return Aff.of(x)


def canon(v: Any) -> Any:
    """Canonical form of a SymEnv value (Aff, ('tuple', ...) or atom)."""
    if isinstance(v, Aff):
        out = Aff.c(v.const)
        for a, k in v.terms:
            out = out + _aff(canon_atom(a)).scale(k)
        return out
    if isinstance(v, tuple) and v and v[0] == "tuple":
        return ("tuple",) + tuple(canon(x) for x in v[1:])
    return canon_atom(v)


def _slice_bounds(s: Tuple) -> Tuple[Aff, Aff, Any]:
    """(lo, hi, base) of a canonical ('slice', lo, hi, base) atom as absolute affine bounds."""
    _, lo, hi, base = s
    lo_a = Aff.c(0) if lo is None else _aff(lo)
    hi_a = Aff.of(("len", base)) if hi is None else _aff(hi)
    return lo_a, hi_a, base


def canon_atom(a: Any) -> Any:
    if isinstance(a, Aff):
        return atom_of(canon(a))
    if not isinstance(a, tuple) or not a:
        return a
    k = a[0]
    if k == "aff":
        return atom_of(canon(a[1]))
    if k == "const":
        return a
    if k == "slice":
        lo = None if a[1] is None else canon(_aff(a[1]))
        hi = None if a[2] is None else canon(_aff(a[2]))
        base = canon_atom(a[3])
        if isinstance(base, tuple) and base and base[0] == "slice":
            blo, bhi, inner = _slice_bounds(base)
            # bounds relative to the outer window
            def absb(b: Optional[Aff], default: Aff) -> Optional[Aff]:
                if b is None:
                    return default
                if b.is_const:
                    return (blo + b) if b.const >= 0 else (bhi + b)
                return None

            nlo, nhi = absb(lo, blo), absb(hi, bhi)
            if nlo is not None and nhi is not None:
                return ("slice", atom_of(nlo), atom_of(nhi), inner)
        # absolute negative constant bounds of a plain list
        if hi is not None and hi.is_const and hi.const < 0:
            hi = Aff.of(("len", base)) + hi
        return ("slice", None if lo is None or (lo.is_const and lo.const == 0) else atom_of(lo), None if hi is None or hi == Aff.of(("len", base)) else atom_of(hi), base)
    if k == "item":
        idx = canon(_aff(a[1])) if not (isinstance(a[1], tuple) and a[1] and a[1][0] in ("index",)) else _aff(a[1])
        base = canon_atom(a[2])
        if isinstance(base, tuple) and base and base[0] == "slice" and idx.is_const:
            lo, hi, inner = _slice_bounds(base)
            pos = lo + idx if idx.const >= 0 else hi + idx
            return canon_atom(("item", atom_of(pos), inner))
        if isinstance(base, tuple) and base and base[0] == "tuple" and idx.is_const and 0 <= idx.const < len(base) - 1:
            return canon_atom(base[1 + idx.const])
        if idx == Aff.of(("len", base)) - Aff.c(1):
            idx = Aff.c(-1)
        if idx.is_const and idx.const == 0 and isinstance(base, tuple) and base and base[0] == "item" and base[2] == ENTRIES:
            # .index_ of entries[k] is k + 1 (BPSEQ numbering)
            kk = base[1]
            if isinstance(kk, Aff) and not (kk.is_const and kk.const < 0):
                return atom_of(kk + Aff.c(1))
            if isinstance(kk, Aff) and kk.is_const and kk.const < 0:
                return atom_of(Aff.of(("len", ENTRIES)) + kk + Aff.c(1))
        return ("item", idx, base)
    if k == "attr":
        return ("attr", a[1], canon_atom(a[2]))
    if k == "len":
        base = canon_atom(a[1])
        if isinstance(base, tuple) and base and base[0] == "slice":
            lo, hi, _ = _slice_bounds(base)
            return atom_of(hi - lo)
        return ("len", base)
    if k == "elem":
        return ("elem", canon_atom(a[1])) + tuple(a[2:])
    if k == "call":
        return ("call", a[1]) + tuple(canon_atom(x) if not (isinstance(x, tuple) and len(x) == 2 and isinstance(x[0], str) and x[0] not in ("const", "len", "elem")) else x for x in a[2:])
    if k == "tuple":
        return ("tuple",) + tuple(canon(x) for x in a[1:])
    return a


def show(v: Any) -> str:
    from sa.sym import show_atom

    if isinstance(v, Aff):
        parts = []
        for a, k in v.terms:
            parts.append(("" if k == 1 else "-" if k == -1 else f"{k}*") + show(a))
        if v.const or not parts:
            parts.append(str(v.const))
        return " + ".join(parts).replace("+ -", "- ")
    if isinstance(v, tuple) and v:
        k = v[0]
        if k == "item":
            return f"{show(v[2])}[{show(v[1])}]"
        if k == "attr":
            return f"{show(v[2])}.{v[1]}"
        if k == "slice":
            return f"{show(v[3])}[{'' if v[1] is None else show(v[1])}:{'' if v[2] is None else show(v[2])}]"
        if k == "len":
            return f"len({show(v[1])})"
        if k == "elem":
            return f"each({show(v[1])})"
        if k == "call":
            return f"{v[1]}({', '.join(show(x) for x in v[2:])})"
        if k in ("param", "var", "global"):
            return str(v[1])
        if k == "loopvar":
            return "i"
        if k == "const":
            return repr(v[1])
        if k == "aff":
            return "(" + show(v[1]) + ")"
        if k == "tuple":
            return "(" + ", ".join(show(x) for x in v[1:]) + ")"
        if k == "expr":
            try:
                return "<expr>"
            except Exception:
                pass
    return str(v)


# ---------------------------------------------------------------------------------------------------------------------
# the semantic view of one function


class Sem:
    def __init__(self, fn: ast.AST):
        self.fn = copy.deepcopy(fn)
        self.fn.body = unroll(self.fn.body)
        ast.fix_missing_locations(self.fn)
        self.par = astq.parents(self.fn)
        self.fm = FlowMap(self.fn)
        self.base = SymEnv(self.fn)
        self._env_cache: Dict[int, SymEnv] = {}

    # -- scopes -------------------------------------------------------------------------------------------------------
    def enclosing(self, node: ast.AST) -> List[ast.AST]:
        out = []
        cur = node
        while id(cur) in self.par:
            p = self.par[id(cur)]
            out.append((p, cur))
            cur = p
        return out

    def env_at(self, node: ast.AST) -> SymEnv:
        """Names as they are bound where `node` sits: targets of enclosing for loops and comprehension generators are the
        symbolic element of their iterable (outermost first, so inner iterables may mention outer targets)."""
        chain = list(reversed(self.enclosing(node)))
        env = self.base
        for p, child in chain:
            if isinstance(p, (ast.For, ast.AsyncFor)) and child is not p.iter and child is not p.target:
                if any(child is s for s in p.body):
                    env = self._bind(env, p.target, env.iter_elem(p.iter, p))
            elif isinstance(p, (ast.ListComp, ast.SetComp, ast.GeneratorExp, ast.DictComp)):
                gens = p.generators
                upto = len(gens)
                for gi, g in enumerate(gens):
                    if child is g:
                        upto = gi  # node sits inside generator gi: only earlier generators are bound (plus its own target for ifs)
                        sub = self._where_in_gen(g, node)
                        if sub == "ifs":
                            upto = gi + 1
                        break
                for g in gens[:upto]:
                    env = self._bind(env, g.target, env.iter_elem(g.iter, g))
        return env

    def _where_in_gen(self, g: ast.comprehension, node: ast.AST) -> str:
        for t in g.ifs:
            if any(n is node for n in ast.walk(t)):
                return "ifs"
        return "iter"

    def _bind(self, env: SymEnv, target: ast.AST, value: Any) -> SymEnv:
        over = {}
        for nm in astq.target_names(target):
            over[nm] = env._bind_component(target, nm, value)
        return env.with_(**over)

    def ev(self, expr: ast.AST, at: Optional[ast.AST] = None) -> Any:
        return canon(self.env_at(at if at is not None else expr).ev(expr))

    def loops_of(self, node: ast.AST) -> List[ast.AST]:
        return [p for p, c in reversed(self.enclosing(node)) if isinstance(p, (ast.For, ast.AsyncFor, ast.While)) and any(c is s for s in p.body)]

    def stmt_of(self, node: ast.AST) -> ast.stmt:
        cur = node
        while not isinstance(cur, ast.stmt):
            cur = self.par[id(cur)]
        return cur

    # -- conditions ---------------------------------------------------------------------------------------------------
    def resolve_test(self, test: ast.expr) -> ast.expr:
        """A name bound once to an expression stands for that expression."""
        seen = 0
        while isinstance(test, ast.Name) and seen < 5:
            d = astq.single_def(self.fn, test.id)
            if d is None:
                break
            test = d
            seen += 1
        return test

    def guards(self, node: ast.AST) -> List[Tuple[ast.expr, bool]]:
        """(atomic test, truth value) pairs that hold whenever `node` is evaluated: statement guards, comprehension ifs,
        short-circuit context; `and` under positive and `or` under negative polarity are split."""
        st = self.stmt_of(node)
        gs = list(self.fm.expr_guards(st, node) or self.fm.of(st).guards)
        out: List[Tuple[ast.expr, bool]] = []
        for g in gs:
            if g.kind == "exit" and any(g.stmt is s for s in self.fn.body) and isinstance(g.stmt, ast.If) and isinstance(g.stmt.body[-1], ast.Return):
                continue  # early returns of the function: decided by the prelude rule
            out.extend(self._split(g.test, g.polarity))
        for p, c in self.enclosing(node):
            if isinstance(p, (ast.ListComp, ast.SetComp, ast.GeneratorExp)) and c is p.elt:
                for g in p.generators:
                    for t in g.ifs:
                        out.extend(self._split(t, True))
        return out

    def _split(self, test: ast.expr, pol: bool) -> List[Tuple[ast.expr, bool]]:
        test = self.resolve_test(test)
        if isinstance(test, ast.UnaryOp) and isinstance(test.op, ast.Not):
            return self._split(test.operand, not pol)
        if isinstance(test, ast.BoolOp):
            if isinstance(test.op, ast.And) == pol:
                out = []
                for v in test.values:
                    out.extend(self._split(v, pol))
                return out
            return [(test, pol)]
        if isinstance(test, ast.Compare) and len(test.ops) > 1 and pol:
            out = []
            left = test.left
            for op, c in zip(test.ops, test.comparators):
                out.append((ast.copy_location(ast.Compare(left=left, ops=[op], comparators=[c]), test), True))
                left = c
            return out
        return [(test, pol)]


# ---------------------------------------------------------------------------------------------------------------------
# condition classification

_OPS = {ast.Lt: "<", ast.Gt: ">", ast.LtE: "<=", ast.GtE: ">=", ast.Eq: "==", ast.NotEq: "!="}
_NEG = {"<": ">=", ">": "<=", "<=": ">", ">=": "<", "==": "!=", "!=": "=="}


def rel(sem: Sem, test: ast.expr, pol: bool, at: ast.AST) -> Optional[Tuple[str, Aff]]:
    """A comparison of integers as ('>', d) meaning d > 0, ('==', d) meaning d == 0 (d with canonical sign), ('!=', d)."""
    if isinstance(test, ast.UnaryOp) and isinstance(test.op, ast.Not):
        return rel(sem, test.operand, not pol, at)
    if not (isinstance(test, ast.Compare) and len(test.ops) == 1 and type(test.ops[0]) in _OPS):
        return None
    a, b = sem.env_at(at).ev(test.left), sem.env_at(at).ev(test.comparators[0])
    if not isinstance(a, Aff) or not isinstance(b, Aff):
        return None
    a, b = canon(a), canon(b)
    op = _OPS[type(test.ops[0])]
    if not pol:
        op = _NEG[op]
    d = a - b
    if op == ">":
        return (">", d)
    if op == ">=":
        return (">", d + Aff.c(1))
    if op == "<":
        return (">", -d)
    if op == "<=":
        return (">", -d + Aff.c(1))
    # canonical sign for (in)equalities
    lead = None
    for t, k in sorted(d.terms, key=lambda x: repr(x[0])):
        lead = k
        break
    if lead is None:
        lead = 1 if d.const >= 0 else -1
    return (op, d if lead > 0 else -d)


def eq_pair(sem: Sem, test: ast.expr, pol: bool, at: ast.AST) -> Optional[Tuple[bool, Aff, Aff]]:
    """(is_equality, left, right) of `a == b` / `a != b` with polarity applied."""
    if isinstance(test, ast.UnaryOp) and isinstance(test.op, ast.Not):
        return eq_pair(sem, test.operand, not pol, at)
    if isinstance(test, ast.Compare) and len(test.ops) == 1 and isinstance(test.ops[0], (ast.Eq, ast.NotEq)):
        env = sem.env_at(at)
        a, b = env.ev(test.left), env.ev(test.comparators[0])
        if isinstance(a, Aff) and isinstance(b, Aff):
            is_eq = isinstance(test.ops[0], ast.Eq) == pol
            return is_eq, canon(a), canon(b)
    return None


def quantified(sem: Sem, test: ast.expr, pol: bool) -> Optional[Tuple[str, Any, ast.expr, ast.AST, bool]]:
    """`all(P(x) for x in X)` / `any(...)` / negations as (quantifier, iterable value, predicate expr, comprehension, predicate polarity):
    the statement  `Q x in X: P(x) is pred_pol`  with Q in {'all', 'any'} after pushing the outer polarity inwards."""
    test = sem.resolve_test(test)
    if isinstance(test, ast.UnaryOp) and isinstance(test.op, ast.Not):
        return quantified(sem, test.operand, not pol)
    if not (isinstance(test, ast.Call) and isinstance(test.func, ast.Name) and test.func.id in ("all", "any") and len(test.args) == 1 and not test.keywords):
        return None
    comp = test.args[0]
    if not isinstance(comp, (ast.ListComp, ast.GeneratorExp, ast.SetComp)) or len(comp.generators) != 1 or comp.generators[0].ifs:
        return None
    g = comp.generators[0]
    it = canon(sem.env_at(comp).ev(g.iter))
    if isinstance(it, Aff):
        it = atom_of(it)
    q = test.func.id
    pred_pol = True
    if not pol:
        # not all(P) == any(not P); not any(P) == all(not P)
        q = "any" if q == "all" else "all"
        pred_pol = False
    return q, it, comp.elt, comp, pred_pol


# ---------------------------------------------------------------------------------------------------------------------


def _role_lists(sem: Sem) -> Optional[Dict[str, str]]:
    rets = [n for n in astq.walk_no_nested(sem.fn) if isinstance(n, ast.Return) and isinstance(n.value, ast.Tuple) and len(n.value.elts) == 4 and all(isinstance(e, ast.Name) for e in n.value.elts)]
    full = [r for r in rets if not all(isinstance(astq.single_def(sem.fn, e.id), ast.List) and False for e in r.value.elts)]
    if not full:
        return None
    r = full[-1]
    names = [e.id for e in r.value.elts]
    return dict(zip(("stems", "single", "hairpins", "loops"), names))


def emissions(sem: Sem, name: str) -> List[Tuple[ast.expr, ast.AST]]:
    """(value expression, node to take scope and guards from) for everything that is put into list `name`."""
    out = []
    for n in astq.walk_no_nested(sem.fn):
        if isinstance(n, ast.Call) and isinstance(n.func, ast.Attribute) and isinstance(n.func.value, ast.Name) and n.func.value.id == name and n.args:
            if n.func.attr == "append":
                out.append((n.args[0], n.args[0]))
            elif n.func.attr == "extend":
                a = n.args[0]
                if isinstance(a, (ast.ListComp, ast.GeneratorExp)):
                    out.append((a.elt, a.elt))
                elif isinstance(a, (ast.List, ast.Tuple)):
                    out.extend((e, e) for e in a.elts)
                else:
                    out.append((a, None))
        elif isinstance(n, ast.AugAssign) and isinstance(n.target, ast.Name) and n.target.id == name and isinstance(n.op, ast.Add):
            a = n.value
            if isinstance(a, (ast.List, ast.Tuple)):
                out.extend((e, e) for e in a.elts)
            elif isinstance(a, ast.ListComp):
                out.append((a.elt, a.elt))
            else:
                out.append((a, None))
    return out


def _ctor(e: ast.AST, name: str) -> Optional[ast.Call]:
    return e if isinstance(e, ast.Call) and astq.dotted(e.func) == name else None


def _strand_window(sem: Sem, e: ast.AST, at: ast.AST) -> Optional[Any]:
    """Canonical value of W in Strand.from_bpseq_entries(W, db) (through single-assignment names)."""
    seen = 0
    while isinstance(e, ast.Name) and seen < 4:
        d = astq.single_def(sem.fn, e.id)
        if d is None:
            break
        e, at = d, d
        seen += 1
    c = _ctor(e, "Strand.from_bpseq_entries")
    if c is None or not c.args:
        return None
    v = sem.ev(c.args[0], at if at is not None else c)
    return atom_of(v) if isinstance(v, Aff) else v


def check(chk, fi) -> Dict[str, str]:
    """Runs the fact-level rules one by one; returns {aspect: reason} for those that could not read the code (the caller falls back to
    the pinned form of exactly these aspects)."""
    failed: Dict[str, str] = {}
    try:
        sem = Sem(fi.node)
        roles = _role_lists(sem)
        if roles is None:
            raise NotRecognised("result is not a 4-tuple of local lists")
    except NotRecognised as e:
        return {k: str(e) for k in ("stops", "windows", "tails", "links", "closure", "walk")}
    cands: Optional[str] = None

    def attempt(aspect: str, fn) -> None:
        n0 = len(chk.obligations)
        try:
            fn()
        except NotRecognised as e:
            del chk.obligations[n0:]
            failed[aspect] = str(e)

    def windows():
        nonlocal cands
        cands = windows_fact(chk, fi, sem, roles)

    attempt("prelude", lambda: prelude_fact(chk, fi, sem))
    attempt("stops", lambda: stops_fact(chk, fi, sem, roles))
    attempt("windows", windows)
    if "windows" in failed:
        # the candidate list is found by the window rule; without it the later rules cannot bind their roles
        for k in ("tails", "links", "closure", "walk"):
            failed[k] = "window loop not read: " + failed["windows"]
        return failed
    attempt("tails", lambda: tails_fact(chk, fi, sem, roles, cands))
    attempt("links", lambda: links_fact(chk, fi, sem, cands))
    attempt("closure", lambda: closure_fact(chk, fi, sem, roles, cands))
    attempt("walk", lambda: walk_fact(chk, fi, sem, roles, cands))
    return failed


def prelude_fact(chk, fi, sem: Sem) -> None:
    """Early returns at the top of the function: only 'there is no stem at all' may short-cut the decomposition."""
    rule = "elements-prelude-fact"
    n = 0
    for st in sem.fn.body:
        if isinstance(st, ast.If) and st.body and isinstance(st.body[-1], ast.Return) and not st.orelse:
            n += 1
            t = st.test
            pol = True
            while isinstance(t, ast.UnaryOp) and isinstance(t.op, ast.Not):
                t, pol = t.operand, not pol
            src = None
            if not pol:
                src = t  # `not X`
            elif isinstance(t, ast.Compare) and len(t.ops) == 1 and isinstance(t.ops[0], ast.Eq) and isinstance(t.comparators[0], ast.Constant) and t.comparators[0].value == 0 and isinstance(t.left, ast.Call) and isinstance(t.left.func, ast.Name) and t.left.func.id == "len" and len(t.left.args) == 1:
                src = t.left.args[0]
            ok = src is not None and norm(src).endswith("__stems_entries")
            rv = st.body[-1].value
            empty = isinstance(rv, ast.Tuple) and len(rv.elts) == 4 and all(isinstance(e, ast.List) and not e.elts for e in rv.elts)
            if ok and empty:
                chk.ok(rule, fi.site(st), "the only early return is `no stems -> four empty lists`")
            else:
                chk.violation(rule, fi.site(st), f"early return under `{norm(st.test)[:80]}`: structures satisfying it get no (or a truncated) decomposition", K(fi, "prelude"))
    if n == 0:
        chk.ok(rule, fi.where, "no early return")


# -- stops -------------------------------------------------------------------------------------------------------------


def _stops_list(sem: Sem) -> Tuple[str, str]:
    """(name of the sorted stop list, name of the set it is sorted from)."""
    found = []
    for n in astq.walk_no_nested(sem.fn):
        if isinstance(n, ast.Assign) and len(n.targets) == 1 and isinstance(n.targets[0], ast.Name) and isinstance(n.value, ast.Call) and isinstance(n.value.func, ast.Name) and n.value.func.id == "sorted":
            c = n.value
            if len(c.args) == 1 and isinstance(c.args[0], ast.Name):
                found.append((n.targets[0].id, c.args[0].id, c))
    if len(found) != 1:
        raise NotRecognised(f"{len(found)} assignments of sorted(<name>) (the stop list)")
    return found[0][0], found[0][1], found[0][2]


def stops_fact(chk, fi, sem: Sem, roles) -> None:
    rule = "elements-stops-fact"
    L, S, call = _stops_list(sem)
    if call.keywords:
        chk.violation(rule, fi.site(call), f"the stop list is `{norm(call)}`: not the ascending order of the stop positions", K(fi, "stops-sorted"))
    init = astq.assignments(sem.fn, S)
    inits = [v for st, v in init if v is not None]
    if len(inits) != 1 or not (isinstance(inits[0], ast.Call) and isinstance(inits[0].func, ast.Name) and inits[0].func.id == "set" and not inits[0].args or isinstance(inits[0], ast.Set) and not inits[0].elts):
        raise NotRecognised(f"stop set `{S}` is not initialised empty exactly once")
    added: List[Tuple[Any, ast.AST]] = []
    for n in astq.walk_no_nested(sem.fn):
        if isinstance(n, ast.Call) and isinstance(n.func, ast.Attribute) and isinstance(n.func.value, ast.Name) and n.func.value.id == S:
            if n.func.attr == "add" and len(n.args) == 1:
                added.append((sem.ev(n.args[0]), n))
            elif n.func.attr == "update":
                for a in n.args:
                    els = expand_comprehension(a)
                    if els is None:
                        raise NotRecognised(f"`{norm(n)[:80]}`: elements of the update not enumerable")
                    for e in els:
                        # substituted copies have no parents: evaluate in the scope of the call
                        added.append((canon(sem.env_at(n).ev(e)), n))
            elif n.func.attr in ("discard", "remove", "clear", "pop", "difference_update", "intersection_update"):
                chk.violation(rule, fi.site(n), f"`{norm(n)[:80]}` removes stop positions: a strand end no longer delimits a window", K(fi, "stops"))
        elif isinstance(n, ast.AugAssign) and isinstance(n.target, ast.Name) and n.target.id == S:
            els = expand_comprehension(n.value) if isinstance(n.op, ast.BitOr) else None
            if els is None:
                raise NotRecognised(f"`{norm(n)[:80]}`: stop-set update not enumerable")
            for e in els:
                added.append((canon(sem.env_at(n).ev(e)), n))
    # the stem of the same iteration
    stems = emissions(sem, roles["stems"])
    if len(stems) != 1 or stems[0][1] is None:
        raise NotRecognised("stems list is not filled by exactly one append")
    stem_val = sem.ev(stems[0][0])
    stem_atom = atom_of(stem_val) if isinstance(stem_val, Aff) else stem_val
    if not (isinstance(stem_atom, tuple) and stem_atom[0] == "call" and stem_atom[1] == "Stem.from_bpseq_entries"):
        raise NotRecognised(f"appended stem `{show(stem_val)}` is not a Stem.from_bpseq_entries(...) value")
    want = {}
    for s in ("strand5p", "strand3p"):
        for f in ("first", "last"):
            want[Aff.of(("attr", f, ("attr", s, stem_atom))) - Aff.c(1)] = f"{s}.{f} - 1"
    got = {}
    for v, n in added:
        if not isinstance(v, Aff):
            raise NotRecognised(f"stop value `{show(v)}` is not an integer form")
        got.setdefault(v, n)
    missing = [nm for v, nm in want.items() if v not in got]
    extra = [(v, n) for v, n in got.items() if v not in want]
    site = fi.site(added[0][1]) if added else fi.where
    if not missing and not extra:
        chk.ok(rule, site, f"the stop set receives exactly strand5p/strand3p x first/last - 1 of the stem of the same iteration ({len(added)} stores); {L} = sorted({S})")
    else:
        chk.violation(
            rule,
            site,
            "the stop set is not exactly the four strand ends of every stem as 0-based positions: "
            + (f"missing {missing}" if missing else "")
            + ("; " if missing and extra else "")
            + (f"unexpected {[show(v) for v, _ in extra]}" if extra else ""),
            K(fi, "stops"),
            expected=sorted(want.values()),
            found=[show(v) for v in got],
        )


# -- windows -----------------------------------------------------------------------------------------------------------


def _consecutive(sem: Sem, lo: Aff, hi: Aff, loop: ast.AST, L: str) -> Optional[str]:
    """None if (lo, hi - 1) is (L[t], L[t + 1]) for every t in 0 .. len(L) - 2 as `loop` runs; else the reason."""
    Lv = sem.base.ev(ast.Name(id=L, ctx=ast.Load()))
    La = canon_atom(atom_of(Lv))
    p, n = atom_of(lo), atom_of(hi - Aff.c(1))

    def item_of(a):
        if isinstance(a, tuple) and a and a[0] == "item" and a[2] == La:
            return a[1]
        return None

    ip, inn = item_of(p), item_of(n)
    if ip is not None and inn is not None:
        if inn - ip != Aff.c(1):
            return f"window is entries[{L}[{show(ip)}] : {L}[{show(inn)}] + 1]: not two consecutive stops"
        # the index runs over a range
        it = loop.iter
        if not (isinstance(it, ast.Call) and isinstance(it.func, ast.Name) and it.func.id == "range" and isinstance(loop.target, ast.Name)):
            raise NotRecognised("window index is not a range counter")
        env = sem.env_at(loop)
        args = [canon(env.ev(a)) for a in it.args]
        if len(args) == 1:
            start, stop = Aff.c(0), args[0]
        elif len(args) == 2:
            start, stop = args
        else:
            raise NotRecognised("range with a step")
        lv = sem.env_at(loop.body[0]).ev(ast.Name(id=loop.target.id, ctx=ast.Load()))
        lv = canon(lv)
        off = ip - lv  # L index of the lower stop = counter + off
        if not off.is_const:
            raise NotRecognised("lower stop index is not counter + constant")
        first, last_excl = start + off, stop + off
        lenL = Aff.of(("len", La))
        if first != Aff.c(0):
            return f"windows start at stop number {show(first)}, not at the first stop"
        if last_excl != lenL - Aff.c(1):
            return f"windows end before/after the last pair of stops (lower index runs to {show(last_excl)} exclusive, expected len({L}) - 1)"
        return None
    # zip(L, L[1:]) / zip(L[:-1], L[1:]) / pairwise(L)
    def elem_of(a):
        return a[1] if isinstance(a, tuple) and a and a[0] == "elem" else None

    ep, en = elem_of(p), elem_of(n)
    if ep is not None and en is not None:
        it = loop.iter
        if isinstance(it, ast.Call) and isinstance(it.func, ast.Name) and it.func.id == "zip" and len(it.args) == 2:
            ok_p = ep == La or ep == ("slice", None, atom_of(Aff.of(("len", La)) - Aff.c(1)), La)
            ok_n = en == ("slice", atom_of(Aff.c(1)), None, La)
            if ok_p and ok_n:
                return None
            return f"window bounds come from zip({show(ep)}, {show(en)}): not consecutive stops of {L}"
    # pairwise(L): items 0 / 1 of each(pairwise(L))
    def pw(a):
        if isinstance(a, tuple) and a and a[0] == "item" and isinstance(a[2], tuple) and a[2] and a[2][0] == "elem":
            src = a[2][1]
            if isinstance(src, tuple) and src[0] == "call" and src[1] in ("pairwise", "itertools.pairwise") and len(src) == 3 and src[2] == La:
                return a[1]
        return None

    pp, pn = pw(p), pw(n)
    if pp is not None and pn is not None:
        if pp == Aff.c(0) and pn == Aff.c(1):
            return None
        return "window bounds are not (first, second) of pairwise(stops)"
    raise NotRecognised(f"window bounds `{show(lo)}` .. `{show(hi)}` are not read from consecutive stops in a recognised way")


def windows_fact(chk, fi, sem: Sem, roles) -> Optional[str]:
    rule = "elements-windows-fact"
    L, S, _ = _stops_list(sem)
    hp = emissions(sem, roles["hairpins"])
    if len(hp) != 1 or hp[0][1] is None:
        raise NotRecognised(f"{len(hp)} emission sites into the hairpin list")
    hnode = hp[0][0]
    loops = sem.loops_of(hnode)
    if len(loops) != 1 or not isinstance(loops[0], ast.For):
        raise NotRecognised("the hairpin emission is not inside exactly one for loop")
    loop = loops[0]
    h = _ctor(hnode, "Hairpin")
    W = _strand_window(sem, h.args[0], h.args[0]) if h is not None and h.args else None
    if W is None:
        raise NotRecognised(f"hairpin emission `{norm(hnode)[:60]}` is not Hairpin(Strand.from_bpseq_entries(<window>, ...))")
    if not (isinstance(W, tuple) and W and W[0] == "slice" and W[3] == ENTRIES):
        raise NotRecognised(f"window `{show(W)}` is not a slice of self.entries")
    # the candidate list: the list receiving a bare strand in the same loop
    cand_name = None
    for n in ast.walk(loop):
        if isinstance(n, ast.Call) and isinstance(n.func, ast.Attribute) and n.func.attr == "append" and isinstance(n.func.value, ast.Name) and n.func.value.id not in roles.values() and n.args:
            a = n.args[0]
            if _strand_window(sem, a, a) is not None:
                cand_name = n.func.value.id
    if cand_name is None:
        chk.violation(rule, fi.site(loop), "no window is kept as a loop-strand candidate: windows whose ends are not paired with each other are dropped", K(fi, "windows"))
        return None
    bad: List[str] = []
    n_paths = 0
    for events, end in enum_paths(loop.body):
        n_paths += 1
        interior: Optional[bool] = None
        ends: Optional[bool] = None
        other: List[str] = []
        acts: List[Tuple[str, Any, ast.AST]] = []
        for ev in events:
            if ev[0] == "test":
                _, text, val, node = ev
                kind = _classify_window_test(sem, node, W)
                if kind is None:
                    other.append(f"{text} is {val}")
                    continue
                what, positive = kind
                v = val if positive else (not val)
                if what == "interior":
                    interior = v
                else:
                    ends = v
            elif ev[0] == "stmt":
                for c in ast.walk(ev[1]):
                    if isinstance(c, ast.Call) and isinstance(c.func, ast.Attribute) and c.func.attr in ("append", "extend", "insert") and isinstance(c.func.value, ast.Name) and c.args:
                        tgt = c.func.value.id
                        if tgt == roles["hairpins"]:
                            hh = _ctor(c.args[0], "Hairpin")
                            w = _strand_window(sem, hh.args[0], hh.args[0]) if hh is not None and hh.args and c.func.attr == "append" else None
                            acts.append(("hairpin", w, c))
                        elif tgt == cand_name:
                            acts.append(("candidate", _strand_window(sem, c.args[0], c.args[0]) if c.func.attr == "append" else None, c))
                        elif tgt in roles.values():
                            acts.append(("other:" + tgt, None, c))
            elif ev[0] == "loop":
                for c in ast.walk(ev[1]):
                    if isinstance(c, ast.Call) and isinstance(c.func, ast.Attribute) and c.func.attr in ("append", "extend") and isinstance(c.func.value, ast.Name) and c.func.value.id in list(roles.values()) + [cand_name]:
                        raise NotRecognised("an element is emitted from a nested loop of the window loop")
        if other:
            # closed world: an unclassified condition decides what a window becomes
            bad.append(f"additional condition ({'; '.join(other)[:120]}) decides what is emitted for a window")
            continue
        kinds = [a[0] for a in acts]
        for a in acts:
            if a[1] is None and a[0] in ("hairpin", "candidate"):
                raise NotRecognised(f"emitted strand `{norm(a[2])[:60]}` is not Strand.from_bpseq_entries(<window>, ...)")
            if a[1] is not None and a[1] != W:
                bad.append(f"`{norm(a[2])[:70]}` emits another window ({show(a[1])}) than the hairpin window ({show(W)})")
        if interior is None and acts:
            bad.append(f"`{norm(acts[0][2])[:60]}` is emitted without testing that the interior of the window is unpaired")
        elif interior is False and acts:
            bad.append(f"`{norm(acts[0][2])[:60]}` is emitted for a window whose interior is not all unpaired")
        elif interior is True:
            if ends is None:
                bad.append("a window with unpaired interior is classified without testing whether its ends pair with each other")
            elif ends is True and kinds != ["hairpin"]:
                bad.append(f"window with unpaired interior and ends paired with each other emits {kinds or 'nothing'} (expected exactly one Hairpin)")
            elif ends is False and kinds != ["candidate"]:
                bad.append(f"window with unpaired interior whose ends are not paired with each other emits {kinds or 'nothing'} (expected exactly one loop-strand candidate)")
    lo, hi, _ = _slice_bounds(W)
    why = _consecutive(sem, lo, hi, loop, L)
    if why:
        bad.insert(0, why)
    if bad:
        uniq: List[str] = []
        for b in bad:
            if b not in uniq:
                uniq.append(b)
        chk.violation(rule, fi.site(loop), "window loop: " + "; ".join(uniq[:4]), K(fi, "windows"), found=show(W))
    else:
        chk.ok(rule, fi.site(loop), f"{n_paths} paths: every consecutive pair of stops cuts the closed window {show(W)}; interior unpaired & ends paired -> Hairpin, interior unpaired & ends not paired -> candidate, else nothing")
    return cand_name


def _classify_window_test(sem: Sem, node: ast.expr, W: Any) -> Optional[Tuple[str, bool]]:
    """('interior' | 'ends', positive): what an atomic test of the window loop says about the window W.
    positive=True: the test being true means 'interior all unpaired' / 'ends paired with each other'."""
    lo, hi, _ = _slice_bounds(W)
    at = node
    node_r = sem.resolve_test(node)
    if node_r is not node:
        at = node_r
    q = quantified(sem, node_r, True)
    if q is not None:
        quant, it, pred, comp, pred_pol = q
        g = comp.generators[0]
        if not isinstance(g.target, ast.Name):
            return None
        env = sem.env_at(pred)
        tv = env.ev(ast.Name(id=g.target.id, ctx=ast.Load()))
        elem_pair = canon(Aff.of(("item", 2, atom_of(tv))))
        unpaired: Optional[bool] = None
        r = eq_pair(sem, pred, True, pred)
        if r is not None:
            is_eq, a, b = r
            if (a == elem_pair and b == Aff.c(0)) or (b == elem_pair and a == Aff.c(0)):
                unpaired = is_eq
        elif isinstance(pred, ast.UnaryOp) and isinstance(pred.op, ast.Not):
            pv = env.ev(pred.operand)
            if isinstance(pv, Aff) and canon(pv) == elem_pair:
                unpaired = True
        else:
            pv = env.ev(pred)
            if isinstance(pv, Aff) and canon(pv) == elem_pair:
                unpaired = False  # truthiness of pair = paired
        if unpaired is None:
            return None
        if not pred_pol:
            unpaired = not unpaired
        want = canon_atom(("slice", atom_of(lo + Aff.c(1)), atom_of(hi - Aff.c(1)), ENTRIES))
        if it != want:
            return None
        if quant == "all" and unpaired:
            return ("interior", True)
        if quant == "any" and not unpaired:
            return ("interior", False)
        return None
    r = eq_pair(sem, node_r, True, at)
    if r is not None:
        is_eq, a, b = r
        pair_lo = Aff.of(("item", Aff.c(2), ("item", lo, ENTRIES)))
        pair_hi = Aff.of(("item", Aff.c(2), ("item", hi - Aff.c(1), ENTRIES)))
        # index_ of entries[k] is k + 1
        if {a, b} == {pair_lo, hi} or (a == pair_lo and b == hi) or (b == pair_lo and a == hi):
            return ("ends", is_eq)
        if (a == pair_hi and b == lo + Aff.c(1)) or (b == pair_hi and a == lo + Aff.c(1)):
            return ("ends", is_eq)
    return None


# -- tails and leftovers -----------------------------------------------------------------------------------------------


def _stop_end(sem: Sem, L: str, S: str, which: str) -> List[Aff]:
    La = canon_atom(atom_of(sem.base.ev(ast.Name(id=L, ctx=ast.Load()))))
    Sa = canon_atom(atom_of(sem.base.ev(ast.Name(id=S, ctx=ast.Load()))))
    if which == "first":
        return [Aff.of(("item", Aff.c(0), La)), Aff.of(("call", "min", La)), Aff.of(("call", "min", Sa))]
    return [Aff.of(("item", Aff.c(-1), La)), Aff.of(("call", "max", La)), Aff.of(("call", "max", Sa))]


def tails_fact(chk, fi, sem: Sem, roles, cands: Optional[str]) -> None:
    rule = "elements-tails-fact"
    L, S, _ = _stops_list(sem)
    singles = emissions(sem, roles["single"])
    seen = {"5": 0, "3": 0, "mid": 0}
    for val, at in singles:
        c = _ctor(val, "SingleStrand")
        if c is None or at is None or len(c.args) + len(c.keywords) != 3:
            raise NotRecognised(f"single-strand emission `{norm(val)[:60]}` is not SingleStrand(strand, is5p, is3p)")
        args = list(c.args) + [None] * (3 - len(c.args))
        for kw in c.keywords:
            pos = {"strand": 0, "is5p": 1, "is3p": 2}.get(kw.arg)
            if pos is None:
                raise NotRecognised(f"SingleStrand keyword {kw.arg}")
            args[pos] = kw.value
        if not all(isinstance(a, ast.Constant) and isinstance(a.value, bool) for a in args[1:]):
            raise NotRecognised(f"SingleStrand flags of `{norm(c)[:60]}` are not literals")
        f5, f3 = args[1].value, args[2].value
        gs = [rel(sem, t, p, at) or _truthy_rel(sem, t, p, at) for t, p in sem.guards(at)]
        if (f5, f3) in ((True, False), (False, True)):
            w = _strand_window(sem, args[0], at)
            if not (isinstance(w, tuple) and w and w[0] == "slice" and w[3] == ENTRIES):
                raise NotRecognised(f"tail `{norm(c)[:60]}`: strand is not cut from self.entries")
            lo, hi, _ = _slice_bounds(w)
            n = Aff.of(("len", ENTRIES))
            if f5:
                seen["5"] += 1
                firsts = _stop_end(sem, L, S, "first")
                okw = lo == Aff.c(0) and any(hi == f + Aff.c(1) for f in firsts)
                okg = any(g is not None and g[0] == ">" and any(g[1] == f for f in firsts) or g is not None and g[0] == "!=" and any(g[1] == f for f in firsts) for g in gs)
                side, wtxt, gtxt = "5'", f"entries[0 .. {L}[0]] (closed)", f"{L}[0] > 0"
            else:
                seen["3"] += 1
                lasts = _stop_end(sem, L, S, "last")
                okw = hi == n and any(lo == l for l in lasts)
                okg = any(g is not None and g[0] == ">" and any(g[1] == n - Aff.c(1) - l for l in lasts) or g is not None and g[0] == "!=" and any(g[1] in (n - Aff.c(1) - l, l - n + Aff.c(1)) for l in lasts) for g in gs)
                side, wtxt, gtxt = "3'", f"entries[{L}[-1] .. end]", f"{L}[-1] < len(entries) - 1"
            extra = [g for g in gs if g is None]
            if okw and okg and not extra:
                chk.ok(rule, fi.site(c), f"{side} tail = {wtxt} exactly when {gtxt}")
            elif extra and okw and okg:
                chk.violation(rule, fi.site(c), f"{side} tail is emitted under an additional condition: some structures lose their {side} single strand", K(fi, "tail5" if f5 else "tail3"), found=[norm(t) for t, p in sem.guards(at)])
            else:
                chk.violation(
                    rule,
                    fi.site(c),
                    f"{side} single strand is {show(w)} under {[('not ' if not p else '') + norm(t) for t, p in sem.guards(at)]}: expected {wtxt} exactly when {gtxt}",
                    K(fi, "tail5" if f5 else "tail3"),
                    found=show(w),
                )
        elif (f5, f3) == (False, False):
            seen["mid"] += 1
            if cands is None:
                continue
            v = sem.ev(args[0], at)
            a = atom_of(v) if isinstance(v, Aff) else v
            Ca = canon_atom(atom_of(sem.base.ev(ast.Name(id=cands, ctx=ast.Load()))))
            is_elem = isinstance(a, tuple) and a and (a[0] == "elem" and a[1] == Ca or a[0] == "item" and a[2] == Ca)
            guards = sem.guards(at)
            used_ok = False
            for t, p in guards:
                if isinstance(t, ast.Compare) and len(t.ops) == 1 and isinstance(t.ops[0], (ast.NotIn, ast.In)):
                    neg = isinstance(t.ops[0], ast.NotIn) == p
                    lv = sem.ev(t.left, at)
                    la = atom_of(lv) if isinstance(lv, Aff) else lv
                    if neg and isinstance(t.comparators[0], ast.Name) and _receives_loops(sem, t.comparators[0].id):
                        sem.leftover_set = t.comparators[0].id
                        if la == a:
                            used_ok = True
                            sem.leftover_domain = "strand"
                        elif isinstance(a, tuple) and a and a[0] == "item" and isinstance(lv, Aff) and a[1] == lv:
                            # the candidate's own number is looked up: `for i, c in enumerate(cands): if i not in used`
                            used_ok = True
                            sem.leftover_domain = "index"
            others = [1 for t, p in guards if not (isinstance(t, ast.Compare) and isinstance(t.ops[0], (ast.NotIn, ast.In)))]
            if is_elem and used_ok and not others:
                chk.ok(rule, fi.site(c), "every loop-strand candidate that is in no recorded loop is reported as SingleStrand(candidate, False, False)")
            else:
                chk.violation(rule, fi.site(c), "interior single strands are not exactly the loop-strand candidates that are in no recorded loop", K(fi, "leftover"), found=[('not ' if not p else '') + norm(t) for t, p in guards])
        else:
            chk.violation(rule, fi.site(c), f"SingleStrand flags ({f5}, {f3}): a strand cannot be both the 5' and the 3' end", K(fi, "tail-flags"))
    for k, nm in (("5", "5' tail (True, False)"), ("3", "3' tail (False, True)"), ("mid", "interior single strand (False, False)")):
        if seen[k] != 1:
            chk.violation(rule, fi.where, f"{seen[k]} emission sites of a {nm}: expected exactly one", K(fi, f"single-{k}"))


def _truthy_rel(sem: Sem, t: ast.expr, p: bool, at: ast.AST) -> Optional[Tuple[str, Aff]]:
    """`if stops[0]:` on a non-negative position means stops[0] > 0."""
    if isinstance(t, (ast.Subscript, ast.Name, ast.Call)) and not (isinstance(t, ast.Call) and isinstance(t.func, ast.Name) and t.func.id in ("all", "any")):
        v = sem.env_at(at).ev(t)
        if isinstance(v, Aff):
            v = canon(v)
            return (">", v) if p else ("==", v)
    return None


def _receives_loops(sem: Sem, name: str) -> bool:
    for n in astq.walk_no_nested(sem.fn):
        if isinstance(n, ast.Call) and isinstance(n.func, ast.Attribute) and isinstance(n.func.value, ast.Name) and n.func.value.id == name and n.func.attr in ("update", "add"):
            return True
        if isinstance(n, ast.AugAssign) and isinstance(n.target, ast.Name) and n.target.id == name:
            return True
    return False


# -- links -------------------------------------------------------------------------------------------------------------


def _index_maps(sem: Sem, Ca) -> Dict[str, Tuple[ast.For, ast.AST, ast.AST]]:
    """defaultdicts filled by exactly one unguarded `M[key(x)].append(i)` in a loop over all candidates: name -> (loop, key expr, index expr).
    Iterating `M[K]` / `M.get(K, ())` then yields exactly the indices j with key(cand[j]) == K."""
    out: Dict[str, Tuple[ast.For, ast.AST, ast.AST]] = {}
    sites: Dict[str, List[ast.Call]] = {}
    for n in astq.walk_no_nested(sem.fn):
        if isinstance(n, ast.Call) and isinstance(n.func, ast.Attribute) and isinstance(n.func.value, ast.Subscript) and isinstance(n.func.value.value, ast.Name):
            sites.setdefault(n.func.value.value.id, []).append(n)
    for name, calls in sites.items():
        d = astq.single_def(sem.fn, name)
        if not (d is not None and isinstance(d, ast.Call) and astq.callee_name(d) == "defaultdict" and len(calls) == 1):
            continue
        c = calls[0]
        if c.func.attr not in ("append", "add") or len(c.args) != 1:
            continue
        loops = [l for l in sem.loops_of(c) if isinstance(l, ast.For)]
        if len(loops) != 1 or sem.guards(c):
            continue
        idx = sem.ev(c.args[0], c)
        key = sem.ev(c.func.value.slice, c)
        if not isinstance(idx, Aff) or not isinstance(key, Aff):
            continue
        # the stored value is the index of the loop's candidate, the key is computed from that candidate and is not itself the index
        dom = _single_domain(sem, loops[0], idx, Ca)
        if dom and key != idx:
            out[name] = (loops[0], c.func.value.slice, c.args[0])
    return out


def _single_domain(sem: Sem, loop: ast.For, idx: Aff, Ca) -> bool:
    """The loop runs idx over every index of the candidate list."""
    it = loop.iter
    env = sem.env_at(loop.body[0])
    if isinstance(it, ast.Call) and isinstance(it.func, ast.Name) and it.func.id == "enumerate" and len(it.args) == 1 and isinstance(loop.target, (ast.Tuple, ast.List)) and len(loop.target.elts) == 2:
        base = canon_atom(atom_of(sem.env_at(loop).ev(it.args[0])))
        iv = canon(env.ev(loop.target.elts[0]))
        return base == Ca and iv == idx
    r = _range_of(sem, loop)
    if r is not None:
        v, start, stop = r
        return v == idx and start == Aff.c(0) and stop == Aff.of(("len", Ca))
    return False


def links_fact(chk, fi, sem: Sem, cands: Optional[str]) -> None:
    rule = "elements-links-fact"
    if cands is None:
        return
    Ca = canon_atom(atom_of(sem.base.ev(ast.Name(id=cands, ctx=ast.Load()))))
    imaps = _index_maps(sem, Ca)
    # edge insertions: (call node, a expr, b expr, scope node for b, implicit facts [(x, y)], inner domain is full)
    adds: List[Tuple[ast.Call, ast.AST, ast.AST, ast.AST, List[Tuple[Aff, Aff]], bool]] = []
    for n in astq.walk_no_nested(sem.fn):
        if not (isinstance(n, ast.Call) and isinstance(n.func, ast.Attribute) and isinstance(n.func.value, ast.Subscript) and isinstance(n.func.value.value, ast.Name)):
            continue
        g = n.func.value.value.id
        if g in imaps:
            continue
        d = astq.single_def(sem.fn, g)
        if not (d is not None and isinstance(d, ast.Call) and astq.callee_name(d) == "defaultdict"):
            continue
        if n.func.attr in ("add", "append") and len(n.args) == 1:
            implicit, full = _implicit_from_loops(sem, n, imaps, Ca)
            adds.append((n, n.func.value.slice, n.args[0], n, implicit, full))
        elif n.func.attr in ("update", "extend") and len(n.args) == 1 and isinstance(n.args[0], (ast.GeneratorExp, ast.ListComp, ast.SetComp)):
            comp = n.args[0]
            implicit, full = _implicit_from_comp(sem, comp, imaps, Ca)
            adds.append((n, n.func.value.slice, comp.elt, comp.elt, implicit, full))
        elif n.func.attr in ("update", "extend", "add", "append"):
            raise NotRecognised(f"edge insertion `{norm(n)[:70]}` not enumerable")
    if not adds:
        raise NotRecognised("no edge insertion `graph[a].add(b)` into a defaultdict found")
    dirs = set()
    domain = None
    bad = []
    for n, a_expr, b_expr, b_at, implicit, inner_full in adds:
        a = sem.ev(a_expr, n)
        b = sem.ev(b_expr, b_at)
        if not isinstance(a, Aff) or not isinstance(b, Aff):
            raise NotRecognised(f"edge endpoints of `{norm(n)[:60]}` are not index forms")
        facts: List[Tuple[bool, Aff, Aff, str]] = [(True, x, y, "index look-up") for x, y in implicit]
        for t, p in sem.guards(b_at):
            r = eq_pair(sem, t, p, b_at)
            if r is None:
                bad.append((n, f"edge `{norm(n)[:60]}` under a condition `{norm(t)[:60]}` that is not the pairing test"))
                continue
            facts.append((r[0], r[1], r[2], norm(t)[:80]))
        hit = False
        want_l = Aff.of(("item", Aff.c(2), ("item", Aff.of(("attr", "last", ("item", a, Ca))) - Aff.c(1), ENTRIES)))
        want_r = Aff.of(("attr", "first", ("item", b, Ca)))
        # the mirrored statement: entries[first(b) - 1].pair == last(a)
        want_l2 = Aff.of(("item", Aff.c(2), ("item", Aff.of(("attr", "first", ("item", b, Ca))) - Aff.c(1), ENTRIES)))
        want_r2 = Aff.of(("attr", "last", ("item", a, Ca)))
        for is_eq, x, y, txt in facts:
            if not is_eq:
                if {x, y} == {a, b}:
                    continue  # `a != b`: a strand is not linked to itself
                bad.append((n, f"edge `{norm(n)[:60]}` added when `{txt}` is false"))
                continue
            if {x, y} == {want_l, want_r} or {x, y} == {want_l2, want_r2}:
                hit = True
            else:
                bad.append((n, f"edge {show(a)} -> {show(b)} is added when `{txt}` i.e. {show(x)} == {show(y)}: not `entries[cand[{show(a)}].last - 1].pair == cand[{show(b)}].first`"))
        if not facts:
            bad.append((n, f"edge `{norm(n)[:60]}` is added unconditionally"))
        if hit:
            loops = [l for l in sem.loops_of(n) if isinstance(l, ast.For)]
            if inner_full:
                # b ranges over every index whose key matches (index map); a must range over every candidate
                dom = ("full", "fwd") if loops and _single_domain(sem, loops[-1], a, Ca) else None
            else:
                dom = _pair_domain(sem, loops, a, b, Ca)
            if dom is None:
                raise NotRecognised(f"iteration domain of edge `{norm(n)[:60]}` not recognised")
            kind, direction = dom
            domain = kind if domain in (None, kind) else "mixed"
            dirs.add(direction)
    for n, msg in bad:
        chk.violation(rule, fi.site(n), "linking graph: " + msg, K(fi, "links"))
    if bad:
        return
    if domain == "full" or (domain == "triangle" and dirs == {"fwd", "bwd"}):
        chk.ok(rule, fi.site(adds[0][0]), f"edge a -> b iff entries[cand[a].last - 1].pair == cand[b].first; every ordered pair of candidates examined ({domain} domain, {len(adds)} insertion sites{', through an index of the candidates by .first' if imaps else ''})")
    else:
        chk.violation(rule, fi.site(adds[0][0]), f"linking graph: only one direction of each unordered pair of candidates is examined ({domain} domain, directions {sorted(dirs)}): links from a later to an earlier strand are lost", K(fi, "links"))


def _lookup_of(sem: Sem, it: ast.AST, imaps) -> Optional[Tuple[str, ast.AST]]:
    """`M[K]` / `M.get(K, <empty>)` on an index map: (M, K expr)."""
    if isinstance(it, ast.Subscript) and isinstance(it.value, ast.Name) and it.value.id in imaps and not isinstance(it.slice, ast.Slice):
        return it.value.id, it.slice
    if isinstance(it, ast.Call) and isinstance(it.func, ast.Attribute) and it.func.attr == "get" and isinstance(it.func.value, ast.Name) and it.func.value.id in imaps and 1 <= len(it.args) <= 2:
        if len(it.args) == 2:
            dflt = it.args[1]
            empty = (isinstance(dflt, (ast.Tuple, ast.List, ast.Set)) and not dflt.elts) or (isinstance(dflt, ast.Call) and not dflt.args and astq.callee_name(dflt) in ("list", "tuple", "set", "frozenset"))
            if not empty:
                return None
        else:
            return None  # .get(K) may be None: not iterable
        return it.func.value.id, it.args[0]
    return None


def _instantiate_key(sem: Sem, imap: Tuple[ast.For, ast.AST, ast.AST], j: Aff, Ca) -> Optional[Aff]:
    """key(cand[j]) for the index map's key expression."""
    loop, key_expr, idx_expr = imap
    over = {}
    it = loop.iter
    if isinstance(it, ast.Call) and isinstance(it.func, ast.Name) and it.func.id == "enumerate" and isinstance(loop.target, (ast.Tuple, ast.List)) and len(loop.target.elts) == 2:
        i_t, e_t = loop.target.elts
        if isinstance(i_t, ast.Name):
            over[i_t.id] = j
        if isinstance(e_t, ast.Name):
            over[e_t.id] = Aff.of(("item", atom_of(j), atom_of(sem.env_at(loop).ev(it.args[0]))))
    elif isinstance(loop.target, ast.Name):
        over[loop.target.id] = j
    else:
        return None
    v = sem.base.with_(**over).ev(key_expr)
    return canon(v) if isinstance(v, Aff) else None


def _implicit_from_comp(sem: Sem, comp: ast.AST, imaps, Ca) -> Tuple[List[Tuple[Aff, Aff]], bool]:
    out: List[Tuple[Aff, Aff]] = []
    full = False
    for g in comp.generators:
        lk = _lookup_of(sem, g.iter, imaps)
        if lk is None:
            continue
        m, kexpr = lk
        if not isinstance(g.target, ast.Name):
            raise NotRecognised("index look-up with a structured target")
        j = canon(sem.env_at(comp.elt).ev(ast.Name(id=g.target.id, ctx=ast.Load())))
        K_ = sem.ev(kexpr, comp)
        kj = _instantiate_key(sem, imaps[m], j, Ca)
        if kj is None or not isinstance(K_, Aff):
            raise NotRecognised("index look-up key not an integer form")
        out.append((kj, K_))
        full = True
    return out, full


def _implicit_from_loops(sem: Sem, n: ast.AST, imaps, Ca) -> Tuple[List[Tuple[Aff, Aff]], bool]:
    out: List[Tuple[Aff, Aff]] = []
    full = False
    for l in sem.loops_of(n):
        if not isinstance(l, ast.For):
            continue
        lk = _lookup_of(sem, l.iter, imaps)
        if lk is None:
            continue
        m, kexpr = lk
        if not isinstance(l.target, ast.Name):
            raise NotRecognised("index look-up with a structured target")
        j = canon(sem.env_at(l.body[0]).ev(ast.Name(id=l.target.id, ctx=ast.Load())))
        K_ = sem.ev(kexpr, l)
        kj = _instantiate_key(sem, imaps[m], j, Ca)
        if kj is None or not isinstance(K_, Aff):
            raise NotRecognised("index look-up key not an integer form")
        out.append((kj, K_))
        full = True
    return out, full


def _pair_domain(sem: Sem, loops: List[ast.For], a: Aff, b: Aff, Ca) -> Optional[Tuple[str, str]]:
    """('full' | 'triangle', 'fwd' | 'bwd'): which ordered pairs (a, b) the enclosing loops produce."""
    n = Aff.of(("len", Ca))
    if len(loops) >= 2:
        outer, inner = loops[-2], loops[-1]
        ro, ri = _range_of(sem, outer), _range_of(sem, inner)
        if ro is None or ri is None:
            return None
        vo, so, eo = ro
        vi, si, ei = ri
        if so == Aff.c(0) and eo == n and si == Aff.c(0) and ei == n:
            if {a, b} == {vo, vi}:
                return ("full", "fwd")
            return None
        if so == Aff.c(0) and eo in (n, n - Aff.c(1)) and si == vo + Aff.c(1) and ei == n:
            if a == vo and b == vi:
                return ("triangle", "fwd")
            if a == vi and b == vo:
                return ("triangle", "bwd")
            return None
        if so == Aff.c(0) and eo == n and si == Aff.c(0) and ei == vo:
            # inner < outer
            if a == vi and b == vo:
                return ("triangle", "fwd")
            if a == vo and b == vi:
                return ("triangle", "bwd")
        return None
    if len(loops) == 1:
        it = loops[0].iter
        if isinstance(it, ast.Call) and astq.callee_name(it) in ("combinations", "permutations") and len(it.args) == 2 and isinstance(it.args[1], ast.Constant) and it.args[1].value == 2:
            src = canon(sem.env_at(loops[0]).ev(it.args[0]))
            sa = atom_of(src) if isinstance(src, Aff) else src
            if sa == ("call", "range", atom_of(n)) or sa == ("call", "range", n) or (isinstance(sa, tuple) and sa[0] == "call" and sa[1] == "range" and len(sa) == 3 and _aff(sa[2]) == n):
                env = sem.env_at(loops[0].body[0])
                tv = canon(env.ev(loops[0].target)) if isinstance(loops[0].target, (ast.Tuple, ast.List)) else None
                if tv is not None and len(tv) == 3:
                    x, y = tv[1], tv[2]
                    kind = "full" if astq.callee_name(it) == "permutations" else "triangle"
                    if a == x and b == y:
                        return (kind, "fwd")
                    if a == y and b == x:
                        return (kind, "bwd")
    return None


def _range_of(sem: Sem, loop: ast.For) -> Optional[Tuple[Aff, Aff, Aff]]:
    it = loop.iter
    if not (isinstance(it, ast.Call) and isinstance(it.func, ast.Name) and it.func.id == "range" and isinstance(loop.target, ast.Name) and 1 <= len(it.args) <= 2):
        return None
    env = sem.env_at(loop)
    args = [canon(env.ev(x)) for x in it.args]
    start, stop = (Aff.c(0), args[0]) if len(args) == 1 else args
    v = canon(sem.env_at(loop.body[0]).ev(ast.Name(id=loop.target.id, ctx=ast.Load())))
    return v, start, stop


# -- closure -----------------------------------------------------------------------------------------------------------


def closure_fact(chk, fi, sem: Sem, roles, cands: Optional[str]) -> None:
    rule = "elements-closure-fact"
    em = emissions(sem, roles["loops"])
    if len(em) != 1 or em[0][1] is None:
        raise NotRecognised(f"{len(em)} emission sites into the loop list")
    val, at = em[0]
    c = _ctor(val, "Loop")
    if c is None or len(c.args) != 1:
        raise NotRecognised(f"`{norm(val)[:60]}` is not Loop(<strands>)")
    arg = c.args[0]
    inner = arg
    # list(x) / x[:] / x.copy() / tuple(x) keep the order
    while True:
        if isinstance(inner, ast.Call) and isinstance(inner.func, ast.Name) and inner.func.id in ("list", "tuple") and len(inner.args) == 1 and not inner.keywords:
            inner = inner.args[0]
        elif isinstance(inner, ast.Call) and isinstance(inner.func, ast.Attribute) and inner.func.attr == "copy" and not inner.args:
            inner = inner.func.value
        elif isinstance(inner, ast.Subscript) and isinstance(inner.slice, ast.Slice) and inner.slice.lower is None and inner.slice.upper is None and inner.slice.step is None:
            inner = inner.value
        else:
            break
    if not isinstance(inner, ast.Name):
        chk.violation(rule, fi.site(c), f"the loop is recorded as `{norm(c)[:80]}`: not the strands in the order the walk linked them (consecutive strands of a reported loop must be base-paired end to start)", K(fi, "closure"))
        return
    Wv = sem.ev(inner, at)
    Wa = atom_of(Wv) if isinstance(Wv, Aff) else Wv
    guards = sem.guards(at)
    closes = interior = False
    extra = []
    want_l = Aff.of(("item", Aff.c(2), ("item", Aff.of(("attr", "first", ("item", Aff.c(0), Wa))) - Aff.c(1), ENTRIES)))
    want_r = Aff.of(("attr", "last", ("item", Aff.c(-1), Wa)))
    want_l2 = Aff.of(("item", Aff.c(2), ("item", Aff.of(("attr", "last", ("item", Aff.c(-1), Wa))) - Aff.c(1), ENTRIES)))
    want_r2 = Aff.of(("attr", "first", ("item", Aff.c(0), Wa)))
    for t, p in guards:
        r = eq_pair(sem, t, p, at)
        if r is not None:
            is_eq, x, y = r
            if is_eq and ({x, y} == {want_l, want_r} or {x, y} == {want_l2, want_r2}):
                closes = True
                continue
            extra.append(f"{'' if p else 'not '}{norm(t)[:70]}")
            continue
        q = quantified(sem, t, p)
        if q is not None:
            quant, it, pred, comp, pred_pol = q
            ita = atom_of(it) if isinstance(it, Aff) else it
            g = comp.generators[0]
            if ita == Wa and isinstance(g.target, ast.Name):
                env = sem.env_at(pred)
                s = atom_of(env.ev(ast.Name(id=g.target.id, ctx=ast.Load())))
                s = canon_atom(s)
                rr = rel(sem, pred, pred_pol, pred)
                span = Aff.of(("attr", "last", s)) - Aff.of(("attr", "first", s))
                if rr is not None and rr[0] == ">" and quant == "any" and rr[1] == span - Aff.c(1):
                    interior = True
                    continue
            extra.append(f"{'' if p else 'not '}{norm(t)[:70]}")
            continue
        # membership tests of the enclosing walk (`if i in used: continue`) do not concern the closure
        if isinstance(t, ast.Compare) and len(t.ops) == 1 and isinstance(t.ops[0], (ast.In, ast.NotIn)):
            continue
        if isinstance(t, ast.Constant):
            continue
        extra.append(f"{'' if p else 'not '}{norm(t)[:70]}")
    if not closes:
        chk.violation(rule, fi.site(c), f"a walk is recorded as a loop without the closure test entries[walk[0].first - 1].pair == walk[-1].last (conditions: {[('' if p else 'not ') + norm(t)[:60] for t, p in guards]})", K(fi, "closure"))
        return
    if not interior:
        chk.violation(rule, fi.site(c), f"a closed walk is recorded without the test that some strand has an interior (last - first > 1) (conditions: {[('' if p else 'not ') + norm(t)[:60] for t, p in guards]})", K(fi, "closure-interior"))
        return
    if extra:
        chk.violation(rule, fi.site(c), f"a closed walk is recorded only under additional conditions {extra}: some loops are not reported", K(fi, "closure-extra"))
        return
    # its strands are marked used (so that they are not reported again as single strands)
    st = sem.stmt_of(c)
    blk = _block_of(sem, st)
    recv = getattr(sem, "leftover_set", None)
    marks = _marks(blk, inner.id, recv)
    domain = "strand"
    if not marks:
        # the walk may be kept as candidate numbers, the strands being their image: walk = [cands[i] for i in numbers]
        numbers = _index_image(sem, inner.id, cands)
        if numbers is not None:
            marks = _marks(blk, numbers, recv)
            domain = "index"
    want = getattr(sem, "leftover_domain", None)
    if marks and want is not None and want != domain:
        chk.violation(rule, fi.site(c), f"the strands of a recorded loop are marked as used by their {'numbers' if domain == 'index' else 'values'}, the leftover test looks up their {'numbers' if want == 'index' else 'values'}: they are reported again as single strands", K(fi, "closure-used"))
        return
    if not marks:
        chk.violation(rule, fi.site(c), "the strands of a recorded loop are not marked as used: they are reported again as single strands", K(fi, "closure-used"))
        return
    chk.ok(rule, fi.site(c), "Loop(walk) in walk order iff entries[walk[0].first - 1].pair == walk[-1].last and some strand has last - first > 1; its strands are marked used")


def _marks(blk: Sequence[ast.stmt], name: str, recv: Optional[str] = None) -> List[ast.AST]:
    """Statements that put every element of the list `name` into a set: S.update(name), S.update(set(name)), S |= set(name),
    S = S | set(name), for x in name: S.add(x)."""

    def is_coll(e: ast.AST) -> bool:
        while isinstance(e, ast.Call) and isinstance(e.func, ast.Name) and e.func.id in ("set", "frozenset", "list", "tuple") and len(e.args) == 1 and not e.keywords:
            e = e.args[0]
        return isinstance(e, ast.Name) and e.id == name

    def is_recv(e: ast.AST) -> bool:
        return recv is None or isinstance(e, ast.Name) and e.id == recv

    out: List[ast.AST] = []
    for st in blk:
        for n in ast.walk(st):
            if isinstance(n, ast.Call) and isinstance(n.func, ast.Attribute) and n.func.attr == "update" and len(n.args) == 1 and is_coll(n.args[0]) and is_recv(n.func.value):
                out.append(n)
            elif isinstance(n, ast.AugAssign) and isinstance(n.op, ast.BitOr) and is_coll(n.value) and is_recv(n.target):
                out.append(n)
            elif isinstance(n, ast.Assign) and isinstance(n.value, ast.BinOp) and isinstance(n.value.op, ast.BitOr) and len(n.targets) == 1 and isinstance(n.targets[0], ast.Name) and any(isinstance(x, ast.Name) and x.id == n.targets[0].id for x in (n.value.left, n.value.right)) and any(is_coll(x) for x in (n.value.left, n.value.right)) and is_recv(n.targets[0]):
                out.append(n)
            elif isinstance(n, ast.For) and isinstance(n.target, ast.Name) and is_coll(n.iter) and len(n.body) == 1 and isinstance(n.body[0], ast.Expr) and isinstance(n.body[0].value, ast.Call) and isinstance(n.body[0].value.func, ast.Attribute) and n.body[0].value.func.attr == "add" and len(n.body[0].value.args) == 1 and isinstance(n.body[0].value.args[0], ast.Name) and n.body[0].value.args[0].id == n.target.id and is_recv(n.body[0].value.func.value):
                out.append(n)
    return out


def _index_image(sem: Sem, name: str, cands: Optional[str]) -> Optional[str]:
    """`name` is bound once to [cands[t] for t in NUMBERS]: NUMBERS."""
    d = astq.single_def(sem.fn, name)
    if not (isinstance(d, ast.ListComp) and len(d.generators) == 1 and not d.generators[0].ifs):
        return None
    g = d.generators[0]
    e = d.elt
    if not (isinstance(g.target, ast.Name) and isinstance(g.iter, ast.Name) and isinstance(e, ast.Subscript) and isinstance(e.value, ast.Name) and isinstance(e.slice, ast.Name) and e.slice.id == g.target.id):
        return None
    if cands is not None and e.value.id != cands:
        return None
    return g.iter.id


# -- walk --------------------------------------------------------------------------------------------------------------


def _selection(sem: Sem, w: ast.While) -> Tuple[str, ast.AST, List[ast.expr], List[ast.stmt], Optional[ast.AST]]:
    """The three idioms of `take the first j of ITER that satisfies F, stop when there is none`:
    (j name, ITER, [conditions], body statements with j bound, substitution for j or None)."""
    body = list(w.body)
    # 1. for j in ITER: if F: BODY; break  else: break
    if len(body) == 1 and isinstance(body[0], ast.For) and isinstance(body[0].target, ast.Name):
        f = body[0]
        if [type(x) for x in f.orelse] == [ast.Break] and len(f.body) == 1 and isinstance(f.body[0], ast.If) and not f.body[0].orelse and f.body[0].body and isinstance(f.body[0].body[-1], ast.Break):
            return f.target.id, f.iter, [f.body[0].test], f.body[0].body[:-1], None
    # 2. L = [j for j in ITER if F]; if not L: break; ... L[0] ...
    if len(body) >= 2 and isinstance(body[0], ast.Assign) and len(body[0].targets) == 1 and isinstance(body[0].targets[0], ast.Name) and isinstance(body[0].value, (ast.ListComp,)) and len(body[0].value.generators) == 1:
        L = body[0].targets[0].id
        comp = body[0].value
        g = comp.generators[0]
        st = body[1]
        if isinstance(g.target, ast.Name) and isinstance(comp.elt, ast.Name) and comp.elt.id == g.target.id and isinstance(st, ast.If) and not st.orelse and [type(x) for x in st.body] == [ast.Break]:
            t = st.test
            empty = (isinstance(t, ast.UnaryOp) and isinstance(t.op, ast.Not) and isinstance(t.operand, ast.Name) and t.operand.id == L) or (
                isinstance(t, ast.Compare) and len(t.ops) == 1 and isinstance(t.ops[0], ast.Eq) and norm(t.left) == f"len({L})" and norm(t.comparators[0]) == "0"
            )
            if empty:
                first = ast.Subscript(value=ast.Name(id=L, ctx=ast.Load()), slice=ast.Constant(value=0), ctx=ast.Load())
                return g.target.id, g.iter, list(g.ifs), body[2:], first
    # 3. j = next((j for j in ITER if F), None); if j is None: break; ...
    if len(body) >= 2 and isinstance(body[0], ast.Assign) and len(body[0].targets) == 1 and isinstance(body[0].targets[0], ast.Name) and isinstance(body[0].value, ast.Call) and astq.callee_name(body[0].value) == "next" and len(body[0].value.args) == 2:
        j = body[0].targets[0].id
        gen, dflt = body[0].value.args
        st = body[1]
        if isinstance(gen, ast.GeneratorExp) and len(gen.generators) == 1 and isinstance(dflt, ast.Constant) and dflt.value is None and isinstance(gen.generators[0].target, ast.Name) and isinstance(gen.elt, ast.Name) and gen.elt.id == gen.generators[0].target.id:
            if isinstance(st, ast.If) and not st.orelse and [type(x) for x in st.body] == [ast.Break] and norm(st.test) == f"{j} is None":
                g = gen.generators[0]
                if g.target.id != j:
                    # rename the generator variable to the bound name
                    ifs = [_subst(t, g.target.id, ast.Name(id=j, ctx=ast.Load())) for t in g.ifs]
                else:
                    ifs = list(g.ifs)
                return j, g.iter, ifs, body[2:], None
    raise NotRecognised("the loop walk is not one of the `first eligible successor` idioms")


def _next_selection(sem: Sem, e: ast.AST) -> Optional[Tuple[str, ast.AST, List[ast.expr]]]:
    """`next(filter(P, ITER), None)` / `next((j for j in ITER if F), None)`: (j, ITER, [conditions])."""
    if not (isinstance(e, ast.Call) and astq.callee_name(e) == "next" and len(e.args) == 2 and isinstance(e.args[1], ast.Constant) and e.args[1].value is None):
        return None
    g = e.args[0]
    if isinstance(g, ast.GeneratorExp) and len(g.generators) == 1 and isinstance(g.generators[0].target, ast.Name) and isinstance(g.elt, ast.Name) and g.elt.id == g.generators[0].target.id:
        return g.generators[0].target.id, g.generators[0].iter, list(g.generators[0].ifs)
    if isinstance(g, ast.Call) and isinstance(g.func, ast.Name) and g.func.id == "filter" and len(g.args) == 2:
        pred, it = g.args
        if isinstance(pred, ast.Lambda) and len(pred.args.args) == 1:
            return pred.args.args[0].arg, it, [pred.body]
        if isinstance(pred, ast.Name):
            for n in astq.walk_no_nested(sem.fn):
                pass
            for n in ast.walk(sem.fn):
                if isinstance(n, ast.FunctionDef) and n.name == pred.id and n is not sem.fn and len(n.args.args) == 1 and len(n.body) == 1 and isinstance(n.body[0], ast.Return) and n.body[0].value is not None:
                    return n.args.args[0].arg, it, [n.body[0].value]
    return None


def _carried_selection(sem: Sem, w: ast.While):
    """Fourth idiom: the selection is carried by the loop variable -
        s = SELECT(graph[start]);  while s is not None:  BODY;  s = SELECT(graph[s])
    Returns (j, ITER inside the loop, conditions, BODY, start ITER) or None."""
    t = w.test
    if not (isinstance(t, ast.Compare) and len(t.ops) == 1 and isinstance(t.ops[0], ast.IsNot) and isinstance(t.left, ast.Name) and isinstance(t.comparators[0], ast.Constant) and t.comparators[0].value is None):
        return None
    sname = t.left.id
    if not w.body or w.orelse:
        return None
    last = w.body[-1]
    if not (isinstance(last, ast.Assign) and len(last.targets) == 1 and isinstance(last.targets[0], ast.Name) and last.targets[0].id == sname):
        return None
    inner = _next_selection(sem, last.value)
    # the statement right before the loop seeds the selection
    blk = _block_of(sem, w)
    k = next((i for i, x in enumerate(blk) if x is w), None)
    if inner is None or k is None or k == 0:
        return None
    seed = blk[k - 1]
    if not (isinstance(seed, ast.Assign) and len(seed.targets) == 1 and isinstance(seed.targets[0], ast.Name) and seed.targets[0].id == sname):
        return None
    first = _next_selection(sem, seed.value)
    if first is None:
        return None
    j1, it1, c1 = first
    j2, it2, c2 = inner
    # same predicate in both selections (modulo the bound name)
    def atoms_of(conds, j):
        out = set()
        for c in conds:
            for t, p in sem._split(_subst(c, j, ast.Name(id="_j", ctx=ast.Load())), True):
                out.add(("" if p else "not ") + norm(t))
        return out

    if atoms_of(c1, j1) != atoms_of(c2, j2):
        return None
    conds = [_subst(c, j2, ast.Name(id=sname, ctx=ast.Load())) for c in c2]
    return sname, it2, conds, list(w.body[:-1]), it1


def walk_fact(chk, fi, sem: Sem, roles, cands: Optional[str]) -> None:
    rule = "elements-walk-fact"
    if cands is None:
        return
    whiles = [w for w in astq.walk_no_nested(sem.fn) if isinstance(w, ast.While)]
    if len(whiles) != 1:
        raise NotRecognised(f"{len(whiles)} while loops")
    w = whiles[0]
    carried = _carried_selection(sem, w)
    start_iter = None
    if carried is not None:
        jname, it, conds, body, start_iter = carried
        jsub = None
    else:
        if not (isinstance(w.test, ast.Constant) and w.test.value is True) or w.orelse:
            raise NotRecognised("walk loop is neither `while True` nor carried by its selection")
        jname, it, conds, body, jsub = _selection(sem, w)
    # roles: walk list = argument of Loop(...), used set = receiver of .update(walk)
    em = emissions(sem, roles["loops"])
    lc = _ctor(em[0][0], "Loop") if em else None
    walk = None
    if lc is not None and lc.args:
        a = lc.args[0]
        while isinstance(a, ast.Call) and a.args:
            a = a.args[0]
        if isinstance(a, ast.Name):
            walk = a.id
    if walk is None:
        raise NotRecognised("walk list not identified")
    used = None
    for n in astq.walk_no_nested(sem.fn):
        if isinstance(n, ast.Call) and isinstance(n.func, ast.Attribute) and n.func.attr == "update" and isinstance(n.func.value, ast.Name) and n.args and isinstance(n.args[0], ast.Name) and n.args[0].id == walk:
            used = n.func.value.id
    if used is None:
        raise NotRecognised("used set not identified")
    # the graph and the current position
    if not (isinstance(it, ast.Subscript) and isinstance(it.value, ast.Name) and isinstance(it.slice, ast.Name)):
        raise NotRecognised(f"successors are read from `{norm(it)[:40]}`")
    graph, cur = it.value.id, it.slice.id
    if carried is not None:
        if cur != jname:
            chk.violation(rule, fi.site(w), f"loop walk: the next successor is looked up in {graph}[{cur}], not in {graph}[<the strand just appended>]: the walk never moves on, only successors of `{cur}` are followed", K(fi, "walk"))
            return
        if not (isinstance(start_iter, ast.Subscript) and isinstance(start_iter.value, ast.Name) and start_iter.value.id == graph and isinstance(start_iter.slice, ast.Name)):
            raise NotRecognised("carried selection is not seeded from the graph")
    gd = astq.single_def(sem.fn, graph)
    if not (gd is not None and isinstance(gd, ast.Call) and astq.callee_name(gd) == "defaultdict"):
        raise NotRecognised("successor container is not the linking graph")
    bad: List[str] = []
    # eligibility: cand[j] not in used and cand[j] not in walk
    atoms: List[Tuple[ast.expr, bool]] = []
    for c in conds:
        atoms.extend(sem._split(c, True))
    want = {f"{cands}[{jname}] not in {used}", f"{cands}[{jname}] not in {walk}"}
    got = set()
    for t, p in atoms:
        txt = norm(t)
        if isinstance(t, ast.Compare) and len(t.ops) == 1 and isinstance(t.ops[0], (ast.In, ast.NotIn)):
            neg = isinstance(t.ops[0], ast.NotIn) == p
            txt = f"{norm(t.left)} {'not in' if neg else 'in'} {norm(t.comparators[0])}"
        got.add(txt)
    if got != want:
        missing = sorted(want - got)
        extra = sorted(got - want)
        bad.append("a successor is eligible under " + " and ".join(sorted(got)) + f" (expected exactly: not yet used and not yet in the walk{'; missing ' + str(missing) if missing else ''}{'; additional ' + str(extra) if extra else ''})")
    # the step: walk.append(cand[j]); cur = j
    jexpr = jsub if jsub is not None else ast.Name(id=jname, ctx=ast.Load())
    jtxt = norm(jexpr)
    alias = {jtxt}
    appended = moved = False
    other: List[str] = []
    for st in body:
        t = norm(st)
        if isinstance(st, ast.Assign) and len(st.targets) == 1 and isinstance(st.targets[0], ast.Name) and norm(st.value) in alias:
            if st.targets[0].id == cur:
                moved = True
            alias.add(st.targets[0].id)
            continue
        if isinstance(st, ast.Expr) and isinstance(st.value, ast.Call) and isinstance(st.value.func, ast.Attribute) and st.value.func.attr == "append" and norm(st.value.func.value) == walk and len(st.value.args) == 1:
            a = st.value.args[0]
            if isinstance(a, ast.Subscript) and norm(a.value) == cands and norm(a.slice) in alias:
                appended = True
                continue
            bad.append(f"the walk appends `{norm(a)[:50]}`, not the chosen successor {cands}[{jtxt}]")
            continue
        other.append(t[:60])
    if not appended and not any("appends" in b for b in bad):
        bad.append("the chosen successor is not appended to the walk")
    if not moved and carried is None:
        bad.append(f"the walk does not move on to the chosen successor (`{cur}` keeps its value): successors of the first strand only are followed")
    if other:
        bad.append(f"additional statements in the step: {other}")
    # start: walk = [cand[start]], cur starts at the same index
    wd = [v for stn, v in astq.assignments(sem.fn, walk) if v is not None]
    start = None
    if len(wd) == 1 and isinstance(wd[0], ast.List) and len(wd[0].elts) == 1 and isinstance(wd[0].elts[0], ast.Subscript) and norm(wd[0].elts[0].value) == cands:
        start = norm(wd[0].elts[0].slice)
    else:
        bad.append(f"the walk does not start as [{cands}[<start>]]")
    if carried is not None:
        if start is not None and start_iter.slice.id != start:
            bad.append(f"the first successor is looked up for `{start_iter.slice.id}`, not for the start strand `{start}`")
    elif start is not None and cur != start:
        cd = [v for stn, v in astq.assignments(sem.fn, cur) if v is not None and norm(v) not in alias]
        if not (len(cd) == 1 and norm(cd[0]) == start):
            bad.append(f"the walk's position `{cur}` does not start at the start strand `{start}`")
    if bad:
        chk.violation(rule, fi.site(w), "loop walk: " + "; ".join(bad[:3]), K(fi, "walk"))
    else:
        chk.ok(rule, fi.site(w), f"from every start strand the walk repeatedly appends the first successor in {graph}[position] that is neither used nor already in the walk, moves there, and stops when there is none")


def _block_of(sem: Sem, st: ast.stmt) -> List[ast.stmt]:
    p = sem.par.get(id(st))
    for fld in ("body", "orelse", "finalbody"):
        blk = getattr(p, fld, None)
        if isinstance(blk, list) and any(s is st for s in blk):
            return blk
    return [st]
