"""Round 5, worker W2 (C03, C04, C05, C11): firing mutants and silent twins for the rules added or generalised in round 5
(registration and centroid by value, records as site values, helpers executed symbolically, next()/dispatch tables, cosine forms of
the angle criteria, sort keys, format agreement of the two readers, visiting order followed downstream).  Most sit on a stored round-5
refactor (base=...-r6 / -r7) or on a stored bug whose shape is kept while the slip is repaired (silent twins on C04-n, C11-m)."""


def M(id, props, file, old, new, rule=None, kind="fire", count=1, **kw):
    return dict(id=id, props=props if isinstance(props, list) else [props], file=file, old=old, new=new, rule=rule, kind=kind, count=count, **kw)


AN, TT, PA = "annotator.py", "tertiary.py", "parser.py"
E = []
A = E.append
B36, B37, B46, B47, B57, B116, B117 = (dict(base=b) for b in ("C03-r6", "C03-r7", "C04-r6", "C04-r7", "C05-r7", "C11-r6", "C11-r7"))

# ---- C03-r6: one dict of _Point records, name -> kind helper memoised per letter, _same_residue, _is_in_hydrogen_bond_range
A(M("r5-kind-donor-overrides", ["C03", "C05"], AN, '        kinds.setdefault(atom_name, "donor")', '        kinds[atom_name] = "donor"', "contact-typing", **B36))
A(M("r5-kind-drop-ribose", ["C03", "C11"], AN, "        BASE_ACCEPTORS.get(one_letter_name, []) + RIBOSE_ACCEPTORS + PHOSPHATE_ACCEPTORS\n", "        BASE_ACCEPTORS.get(one_letter_name, []) + PHOSPHATE_ACCEPTORS\n", "contact-atoms", **B36))
A(M("r5-same-residue-partial", ["C03", "C05", "C11"], AN, "    return atom_i.auth is not None and atom_i.auth == atom_j.auth\n", "    return atom_i.auth is not None and atom_i.auth.chain == atom_j.auth.chain and atom_i.auth.number == atom_j.auth.number\n", ["same-residue-identity", "contact-skips"], **B36))
A(M("r5-donor-record-swapped", "C11", AN, '(point_i, point_j) if point_i.kind == "donor" else (point_j, point_i)', '(point_i, point_j) if point_i.kind == "acceptor" else (point_j, point_i)', "bph-roles", **B36))
A(M("r5-range-one-sided", "C03", AN, "    return HYDROGEN_BOND_ANGLE_RANGE[0] < angle < HYDROGEN_BOND_ANGLE_RANGE[1]\n", "    return HYDROGEN_BOND_ANGLE_RANGE[0] < angle\n", "angle-window", **B36))
A(M("r5-range-closed-silent", ["C03", "C05", "C11"], AN, "    return HYDROGEN_BOND_ANGLE_RANGE[0] < angle < HYDROGEN_BOND_ANGLE_RANGE[1]\n", "    return not (angle <= HYDROGEN_BOND_ANGLE_RANGE[0] or angle >= HYDROGEN_BOND_ANGLE_RANGE[1])\n", kind="silent", **B36))
A(M("r5-point-atom-truthy-silent", ["C03", "C05", "C11"], AN, "            if atom is None:\n                continue\n            xyz = (atom.x, atom.y, atom.z)\n            coordinates.append(xyz)\n            points[xyz]", "            if not atom:\n                continue\n            xyz = (atom.x, atom.y, atom.z)\n            coordinates.append(xyz)\n            points[xyz]", kind="silent", **B36))
A(M("r5-point-other-key", "C03", AN, "            points[xyz] = _Point(atom, kind, residue)", "            points[(atom.x, atom.y)] = _Point(atom, kind, residue)", None, kind="unrecognised", **B36))
A(M("r5-model-filter-by-value", ["C03", "C11"], AN, "        if model is not None and residue.model != model:\n            continue\n        if residue.one_letter_name not in kinds_by_name:", "        if model is not None and residue.model == model:\n            continue\n        if residue.one_letter_name not in kinds_by_name:", "model-filter", **B36))

# ---- C03-r7: _glycosidic_bond helper, torsion_angle(*atoms), labels.extend(generator over product), break / isdisjoint / update
A(M("r5-cis-abs-60", ["C03", "C18"], AN, '    return "c" if abs(torsion) < 90.0 else "t"', '    return "c" if abs(torsion) < 60.0 else "t"', "cis-trans", **B37))
A(M("r5-cis-atoms-order", "C03", AN, "    atoms = (c1p_i, n9n1_i, n9n1_j, c1p_j)\n", "    atoms = (c1p_i, n9n1_j, n9n1_i, c1p_j)\n", "cis-trans-atoms", **B37))
A(M("r5-extend-else-edges", ["C03", "C11"], AN, "                (residue_j, residue_i, cis_trans, edge_j, edge_i)\n", "                (residue_j, residue_i, cis_trans, edge_i, edge_j)\n", "label-orientation", **B37))
A(M("r5-edges-in-use-mixed", "C03", AN, "edges_in_use = ((residue_i, edge_i), (residue_j, edge_j))", "edges_in_use = ((residue_i, edge_i), (residue_j, edge_i))", "edge-exclusive", **B37))
A(M("r5-normal-names", ["C03", "C04"], TT, 'origin_name, first_name, second_name = "N1", "C4", "O2"', 'origin_name, first_name, second_name = "N1", "C4", "O4"', "base-normal", **B37))
A(M("r5-normal-generator-list-silent", ["C03", "C04", "C05"], TT, "        origin, first, second = (\n            self.find_atom(name) for name in (origin_name, first_name, second_name)\n        )\n", "        origin, first, second = [\n            self.find_atom(name) for name in (origin_name, first_name, second_name)\n        ]\n", kind="silent", **B37))

# ---- C04-r6: centroid helper with map(), is_stacking_geometry predicate, comprehension-built point list, table (same way, in order)
A(M("r5-topology-table-swapped", "C04", AN, '    (False, True): "inward",\n    (True, False): "downward",\n', '    (False, True): "downward",\n    (True, False): "inward",\n', "stack-labels", **B46))
A(M("r5-centers-model-negated", ["C04"], AN, "        if model is None or residue.model == model\n        for center in", "        if model is None or residue.model != model\n        for center in", "model-filter", **B46))
A(M("r5-center-count-all", "C04", AN, "    count = len(atoms)\n", "    count = len(BASE_ATOMS.get(residue.one_letter_name, []))\n", "centroid-mean", **B46))
A(M("r5-center-axis-swapped", "C04", AN, "        sum(atom.y for atom in atoms) / count,\n        sum(atom.z for atom in atoms) / count,\n", "        sum(atom.z for atom in atoms) / count,\n        sum(atom.y for atom in atoms) / count,\n", "centroid-mean", **B46))
A(M("r5-center-listcomp-silent", ["C04", "C05", "C11"], AN, "    candidates = map(residue.find_atom, BASE_ATOMS.get(residue.one_letter_name, []))\n", "    candidates = [residue.find_atom(name) for name in BASE_ATOMS.get(residue.one_letter_name, [])]\n", kind="silent", **B46))
A(M("r5-geometry-max", "C04", AN, "    return not math.degrees(angle) > STACKING_MAX_ANGLE_BETWEEN_VECTOR_AND_NORMAL\n", "    return not math.degrees(angle) > STACKING_MAX_ANGLE_BETWEEN_NORMALS\n", "stack-offset", **B46))

# ---- C04-r7: plane-atom tuples on the class, private helper, find_atom with next()
A(M("r5-plane-atoms-pyrimidine", ["C04", "C03"], TT, 'pyrimidine_plane_atoms = ("N1", "C4", "O2")', 'pyrimidine_plane_atoms = ("N1", "C2", "O2")', "base-normal", **B47))
A(M("r5-plane-atoms-list-silent", ["C04", "C03"], TT, 'purine_plane_atoms = ("N9", "N7", "N3")', 'purine_plane_atoms = ["N9", "N7", "N3"]', kind="silent", **B47))

# ---- cosine forms of the angle criteria: the stored bug C04-n with its constants repaired is a behaviour-preserving rewrite
A(M("r5-cosine-exact-silent", ["C04", "C11", "C05"], AN, None, None, kind="silent", base="C04-n", edits=[
    ("STACKING_MIN_COSINE_BETWEEN_NORMALS = 0.8192  # cos(35 deg)", "STACKING_MIN_COSINE_BETWEEN_NORMALS = math.cos(math.radians(STACKING_MAX_ANGLE_BETWEEN_NORMALS))"),
    ("STACKING_MIN_COSINE_BETWEEN_VECTOR_AND_NORMAL = 0.7071  # cos(45 deg)", "STACKING_MIN_COSINE_BETWEEN_VECTOR_AND_NORMAL = math.cos(math.radians(STACKING_MAX_ANGLE_BETWEEN_VECTOR_AND_NORMAL))"),
]))
A(M("r5-cosine-min-for-max", "C04", AN, None, None, "stack-offset", base="C04-n", edits=[
    ("STACKING_MIN_COSINE_BETWEEN_NORMALS = 0.8192  # cos(35 deg)", "STACKING_MIN_COSINE_BETWEEN_NORMALS = math.cos(math.radians(STACKING_MAX_ANGLE_BETWEEN_NORMALS))"),
    ("STACKING_MIN_COSINE_BETWEEN_VECTOR_AND_NORMAL = 0.7071  # cos(45 deg)", "STACKING_MIN_COSINE_BETWEEN_VECTOR_AND_NORMAL = math.cos(math.radians(STACKING_MAX_ANGLE_BETWEEN_VECTOR_AND_NORMAL))"),
    ("cosine_offset = max(numpy.dot(vector, normal_i), numpy.dot(vector, normal_j))", "cosine_offset = min(numpy.dot(vector, normal_i), numpy.dot(vector, normal_j))"),
]))
A(M("r5-cosine-no-abs", "C04", AN, None, None, "stack-normals", base="C04-n", edits=[
    ("STACKING_MIN_COSINE_BETWEEN_NORMALS = 0.8192  # cos(35 deg)", "STACKING_MIN_COSINE_BETWEEN_NORMALS = math.cos(math.radians(STACKING_MAX_ANGLE_BETWEEN_NORMALS))"),
    ("STACKING_MIN_COSINE_BETWEEN_VECTOR_AND_NORMAL = 0.7071  # cos(45 deg)", "STACKING_MIN_COSINE_BETWEEN_VECTOR_AND_NORMAL = math.cos(math.radians(STACKING_MAX_ANGLE_BETWEEN_VECTOR_AND_NORMAL))"),
    ("        if abs(cosine_normals) < STACKING_MIN_COSINE_BETWEEN_NORMALS:", "        if cosine_normals < STACKING_MIN_COSINE_BETWEEN_NORMALS:"),
]))
A(M("r5-hbond-cosine-exact-silent", ["C03", "C05", "C11"], AN, "HYDROGEN_BOND_MAX_ABS_COSINE = 0.64", "HYDROGEN_BOND_MAX_ABS_COSINE = math.cos(math.radians(HYDROGEN_BOND_ANGLE_RANGE[0]))", kind="silent", base="C03-m"))

# ---- sort keys (sorted-emission / stack-emission): the stored bug C11-m with the full key is the same order
FULLKEY = '        return (residue_i.model, residue_i.chain, residue_i.number, residue_i.icode or " ", residue_j.model, residue_j.chain, residue_j.number, residue_j.icode or " ")'
A(M("r5-sort-key-full-silent", ["C11", "C04"], AN, "        return (residue_i.chain, residue_i.number, residue_j.chain, residue_j.number)", FULLKEY, kind="silent", base="C11-m"))
A(M("r5-sort-key-second-first", ["C11", "C04"], AN, "        return (residue_i.chain, residue_i.number, residue_j.chain, residue_j.number)", FULLKEY.replace("residue_i", "residue_X").replace("residue_j", "residue_i").replace("residue_X", "residue_j"), ["sorted-emission", "stack-emission"], base="C11-m"))
A(M("r5-sort-key-lambda-partner", "C11", AN, "    for residue_i, residue_j, topology in sorted(pairs):", "    for residue_i, residue_j, topology in sorted(pairs, key=lambda pair: pair[0]):", ["sorted-emission"]))

# ---- C05-r7 / C11-r6: helper with a loop over the two kinds, dict of lists; next() over a dispatch tuple
A(M("r5-kind-helper-priority", "C11", AN, '        (PHOSPHATE_ACCEPTORS, "base-phosphate"),\n        (RIBOSE_ACCEPTORS, "base-ribose"),\n', '        (RIBOSE_ACCEPTORS, "base-ribose"),\n        (PHOSPHATE_ACCEPTORS, "base-phosphate"),\n', "bph-branch", **B57))
A(M("r5-kind-fixed-store", "C11", AN, "                backbone_contacts[kind].append(", '                backbone_contacts["base-phosphate"].append(', "bph-branch", **B57))
A(M("r5-interactions-swapped", "C11", AN, "            Residue(residue_i.label, residue_i.auth),\n            Residue(residue_j.label, residue_j.auth),\n            classification_enum", "            Residue(residue_j.label, residue_j.auth),\n            Residue(residue_i.label, residue_i.auth),\n            classification_enum", "bph-emission", **B57))
A(M("r5-interactions-unsorted", "C11", AN, 'merge_and_clean_bph_br(sorted(backbone_contacts["base-ribose"]))', 'merge_and_clean_bph_br(backbone_contacts["base-ribose"])', "sorted-emission", **B57))
A(M("r5-next-drop-used-test", "C11", AN, "                and atom_i not in used_atoms\n                and atom_j not in used_atoms\n            ),\n            None,", "                and atom_i not in used_atoms\n            ),\n            None,", "bph-branch", **B116))
A(M("r5-dispatch-enum-mixed", "C11", AN, "            (base_ribose_pairs, BaseRibose, BR),", "            (base_ribose_pairs, BaseRibose, BPh),", "bph-emission", **B116))
A(M("r5-dispatch-list-silent", ["C11", "C03", "C05"], AN, "    backbone_kinds = (\n", "    backbone_kinds = (  # first match wins\n", kind="silent", **B116))
A(M("r5-class-table-value", ["C11", "C18"], AN, '    ("G", "N1"): 5,', '    ("G", "N1"): 4,', "bph-class-table", **B117))
A(M("r5-amino-classes-swapped", "C11", AN, '    ("G", "N2"): ("N3", "C2", 1, 3),', '    ("G", "N2"): ("N3", "C2", 3, 1),', "bph-split", **B117))
A(M("r5-merge-table", "C11", AN, "BPH_BR_MERGE_RULES = ((3, 5, 4), (7, 9, 8))", "BPH_BR_MERGE_RULES = ((3, 5, 4), (7, 9, 9))", "bph-merge", **B117))

# ---- C05: the two readers keep the same records; visiting order followed downstream; per-atom values picked by position
A(M("r5-pdb-skips-altloc-b", "C05", PA, '        elif line.startswith("ATOM") or line.startswith("HETATM"):\n', '        elif (line.startswith("ATOM") or line.startswith("HETATM")) and line[16] in " A":\n', "format-same-atoms"))
A(M("r5-pdb-hetatm-only-first-altloc", "C05", PA, '        elif line.startswith("ATOM") or line.startswith("HETATM"):\n', '        elif line.startswith("ATOM") or (line.startswith("HETATM") and line[16] in " A"):\n', "format-same-atoms"))
A(M("r5-visit-order-downstream", "C05", AN, None, None, "contact-visit-order", edits=[
    ("    for i, j in sorted(kdtree.query_pairs(HYDROGEN_BOND_MAX_DISTANCE)):", "    for i, j in kdtree.query_pairs(HYDROGEN_BOND_MAX_DISTANCE):"),
    ("            (atom_i.name in PHOSPHATE_ACCEPTORS or atom_j.name in PHOSPHATE_ACCEPTORS)\n            and atom_i not in used_atoms\n            and atom_j not in used_atoms\n", "            (atom_i.name in PHOSPHATE_ACCEPTORS or atom_j.name in PHOSPHATE_ACCEPTORS)\n"),
    ("            (atom_i.name in RIBOSE_ACCEPTORS or atom_j.name in RIBOSE_ACCEPTORS)\n            and atom_i not in used_atoms\n            and atom_j not in used_atoms\n", "            (atom_i.name in RIBOSE_ACCEPTORS or atom_j.name in RIBOSE_ACCEPTORS)\n"),
]))
A(M("r5-visit-order-break", "C05", AN, "        # check angle between normals\n        normal_i = residue_i.base_normal_vector", "        if len(pairs) >= 100000:\n            break\n        # check angle between normals\n        normal_i = residue_i.base_normal_vector", "contact-visit-order"))
A(M("r5-visit-order-break-sorted-silent", "C05", AN, None, None, kind="silent", edits=[
    ("    for i, j in kdtree.query_pairs(STACKING_MAX_DISTANCE):", "    for i, j in sorted(kdtree.query_pairs(STACKING_MAX_DISTANCE)):"),
    ("        # check angle between normals\n        normal_i = residue_i.base_normal_vector", "        if len(pairs) >= 100000:\n            break\n        # check angle between normals\n        normal_i = residue_i.base_normal_vector"),
]))
A(M("r5-positional-coordinates", "C05", TT, "        o3p = self.find_atom(\"O3'\")\n        p = next_residue_candidate.find_atom(\"P\")", "        ends = [atom.coordinates for atom in self.atoms if atom.name in (\"O3'\", \"C3'\")]\n        o3p = self.find_atom(\"O3'\") if len(ends) > 1 and ends[0] is not None else None\n        p = next_residue_candidate.find_atom(\"P\")", "positional-atom"))
