"""Round 7, worker W4 (C06, C14, C17, C18, C19, C20): firing mutants and silent twins for the rules generalised in round 7.
One file per (sub-)worker; each exports the list E, imported by selftest/mutants.py."""


def M(id, props, file, old, new, rule=None, kind="fire", count=1, **kw):
    return dict(id=id, props=props if isinstance(props, list) else [props], file=file, old=old, new=new, rule=rule, kind=kind, count=count, **kw)


E = []
A = E.append

# ---- sub-worker W4-c18, round 7: the torsion table through itertools.takewhile / next over a definition table (base C18-r11) ----
T2 = "tertiary_v2.py"
R11 = dict(base="C18-r11")
A(M("c18e-r11-takewhile-inverted", ["C18", "C15"], T2, "                            lambda candidate: candidate is not None, found\n", "                            lambda candidate: candidate is None, found\n", "backbone-atoms", **R11))
A(M("c18e-r11-offset-sign", "C18", T2, "                        segment[i + offset].find_atom(atom_name)\n                        if 0 <= i + offset < len(segment)\n", "                        segment[i - offset].find_atom(atom_name)\n                        if 0 <= i - offset < len(segment)\n", "backbone-atoms", **R11))
A(M("c18e-r11-chi-table-swapped", ["C18", "C15"], T2, '                    (purine_bases, ("N9", "C4")),\n                    (pyrimidine_bases, ("N1", "C2")),\n', '                    (purine_bases, ("N1", "C2")),\n                    (pyrimidine_bases, ("N9", "C4")),\n', "chi-atoms", **R11))
A(M("c18e-r11-next-default", "C18", T2, "                            if residue.residue_name in bases\n                        ),\n                        None,\n", "                            if residue.residue_name in bases\n                        ),\n                        (\"N1\", \"C2\"),\n", "chi-bases", **R11))
A(M("c18e-r11-predicate-silent", ["C18", "C15"], T2, "                            lambda candidate: candidate is not None, found\n", "                            lambda candidate: not (candidate is None), found\n", kind="silent", **R11))
A(M("c18e-r11-list-silent", "C18", T2, "                        for atom_name, offset in atoms_def\n                    )\n", "                        for atom_name, offset in list(atoms_def)\n                    )\n", kind="silent", **R11))
