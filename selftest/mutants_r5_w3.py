"""Round 5, worker W3 (C08, C09, C10, C15): firing mutants and silent twins for the rules added / generalised in round 5, on top of the
round-5 refactors where one exists (base=...)."""


def M(id, props, file, old, new, rule=None, kind="fire", count=1, **kw):
    return dict(id=id, props=props if isinstance(props, list) else [props], file=file, old=old, new=new, rule=rule, kind=kind, count=count, **kw)


PA, P2, SP, T2F = "parser.py", "parser_v2.py", "splitter.py", "tertiary_v2.py"
E = []
A = E.append

# ---- F24: atoms keep their order whatever the row labels are (fit_to_pdb evaluated on a table with labels 7, 3, 12, 5, 9, 4)
_LOOP = "    for index, row in df_fitted.iterrows():\n        current_chain_id = row[chain_col]\n"
A(M("w3r5-f24-sort-index-back", ["C10"], P2, _LOOP, "    df_fitted.sort_index(inplace=True)\n" + _LOOP, "row-order"))
A(M("w3r5-f24-sorted-copy", ["C10"], P2, "    df_fitted = df.copy()\n", "    df_fitted = df.sort_index()\n", "row-order"))
A(M("w3r5-f24-reset-index-silent", ["C10"], P2, "    df_fitted = df.copy()\n", "    df_fitted = df.copy().reset_index(drop=True)\n", kind="silent"))

# ---- the write paths: a local name that stands for the writer; a table fitted as a whole before it is split
_W_OLD = "            if output_format == \"PDB\":\n                df_to_write = fit_to_pdb(model_df)\n                write_pdb(df_to_write, output_path)\n            else:  # mmCIF\n                write_cif(model_df, output_path)\n"
_W_NEW = "            df_to_write = fit_to_pdb(model_df) if output_format == \"PDB\" else model_df\n            writer = write_pdb if output_format == \"PDB\" else write_cif\n            writer(%s, output_path)\n"
A(M("w3r5-writer-alias-silent", ["C09", "C10"], SP, _W_OLD, _W_NEW % "df_to_write", kind="silent"))
A(M("w3r5-writer-alias-unfitted", ["C10"], SP, _W_OLD, _W_NEW % "model_df", "fit-before-write"))
A(M("w3r5-writer-alias-unfitted-c09", ["C09"], SP, _W_OLD, _W_NEW % "model_df", "fit-before-write"))

# ---- readers start at the beginning of the file whatever the handle's position
A(M("w3r5-cif-stringio-no-rewind", ["C15", "C09"], P2, "            content.seek(0)  # Ensure reading from the start\n            temp_file.write(content.read())", "            temp_file.write(content.read())", "cif-table"))
A(M("w3r5-cif-named-file-rewind-silent", ["C15", "C09"], P2, "        data = adapter.readFile(content.name)\n", "        content.seek(0)\n        data = adapter.readFile(content.name)\n", kind="silent"))
A(M("w3r5-pdb-atoms-no-rewind", ["C15", "C09"], P2, "        content.seek(0)  # Ensure we're at the beginning of the file\n", "", ["pdb-record-filter", "pdb-decode-v2", "null-agreement"]))
A(M("w3r5-pdb-no-rewind", ["C08"], PA, "    pdb.seek(0)\n    atoms_to_process: List[Atom] = []", "    atoms_to_process: List[Atom] = []", ["pdb-record-loop", "pdb-atom-branch"]))
A(M("w3r5-pdb-skips-altloc-b", ["C08", "C15"], PA, "            atom_name = line[12:16].strip()\n", "            if line[16] not in (\" \", \"A\"):\n                continue\n            atom_name = line[12:16].strip()\n", "pdb-atom-branch"))

# ---- parse_pdb_atoms driven by a field table and a generator (base C09-r7)
R7 = dict(base="C09-r7")
A(M("w3r5-r7-atom-only", ["C15", "C09"], P2, '        elif record_type in ("ATOM", "HETATM"):', '        elif record_type in ("ATOM",):', "pdb-record-filter", **R7))
A(M("w3r5-r7-resseq-column", ["C15", "C09"], P2, '    ("resSeq", 22, 26, False),', '    ("resSeq", 23, 26, False),', ["pdb-slices-v2", "pdb-decode-v2", "pdb-slices-agree", "writer-reader-columns", "pdb-round-trip"], **R7))
A(M("w3r5-r7-icode-not-optional", ["C09"], P2, '    ("iCode", 26, 27, True),', '    ("iCode", 26, 27, False),', ["null-agreement", "pdb-round-trip", "field-map-pdb-to-cif", "field-map-cif-to-pdb"], **R7))
A(M("w3r5-r7-model-after-yield-silent", ["C15", "C09"], P2, "            record[\"model\"] = current_model\n            yield record\n", "            yield {**record, \"model\": current_model}\n", kind="silent", **R7))

# ---- fit_to_pdb with feasibility helpers and module constants for the limits (base C10-r6)
R6 = dict(base="C10-r6")
A(M("w3r5-r6-residue-limit", ["C10"], P2, "_MAX_PDB_RESIDUE = 9999\n", "_MAX_PDB_RESIDUE = 99999\n", "limits", **R6))
A(M("w3r5-r6-chains-ge", ["C10"], P2, "    if num_chains > max_pdb_chains:\n", "    if num_chains >= max_pdb_chains:\n", ["feasibility", "chain-alphabet"], **R6))
A(M("w3r5-r6-alphabet-52", ["C10"], P2, "_PDB_CHAIN_IDS = string.ascii_uppercase + string.ascii_lowercase + string.digits\n", "_PDB_CHAIN_IDS = string.ascii_uppercase + string.ascii_lowercase\n", ["chain-alphabet", "limits", "feasibility"], **R6))
A(M("w3r5-r6-alphabet-list-silent", ["C10"], P2, "_PDB_CHAIN_IDS = string.ascii_uppercase + string.ascii_lowercase + string.digits\n", "_PDB_CHAIN_IDS = tuple(string.ascii_uppercase + string.ascii_lowercase + string.digits)\n", kind="silent", **R6))

# ---- the fit test evaluated on tables (a piece of a larger table is judged by its own rows)
A(M("w3r5-fit-test-categories", ["C10"], P2, 'pd.to_numeric(df["id"], errors="coerce").max() > 99999', 'pd.to_numeric(pd.Series(df["id"].cat.categories), errors="coerce").max() > 99999', "fit-test"))
A(M("w3r5-fit-test-unique-silent", ["C10", "C09"], P2, 'pd.to_numeric(df["id"], errors="coerce").max() > 99999', 'pd.to_numeric(df["id"].drop_duplicates(), errors="coerce").max() > 99999', kind="silent"))
A(M("w3r5-fit-test-negative-numbers", ["C10"], P2, 'pd.to_numeric(df["auth_seq_id"], errors="coerce").max() > 9999', 'pd.to_numeric(df["auth_seq_id"], errors="coerce").abs().max() > 999', "fit-test"))

# ---- connected_residues with a generator helper on the class (base C15-r7)
S7 = dict(base="C15-r7")
A(M("w3r5-s7-min-three", ["C15"], T2F, "        # The last segment of the chain\n        if len(current_segment) > 1:\n            yield current_segment\n", "        # The last segment of the chain\n        if len(current_segment) > 2:\n            yield current_segment\n", "connect-order", **S7))
A(M("w3r5-s7-keeps-loose-residue", ["C15"], T2F, "                if len(current_segment) > 1:\n                    yield current_segment\n                current_segment = []\n", "                if len(current_segment) > 1:\n                    yield current_segment\n                    current_segment = []\n", "connect-order", **S7))
A(M("w3r5-s7-guard-swapped-silent", ["C15"], T2F, "            if current_segment and not current_segment[-1].is_connected(residue):", "            if not (not current_segment or current_segment[-1].is_connected(residue)):", kind="silent", **S7))
