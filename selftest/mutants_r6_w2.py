"""Round 6, worker W2 (C03, C04, C05, C11): firing mutants and silent twins for the rules added or generalised in round 6
(map / reversed / any over literals, *bond splicing, isdisjoint membership, partial residue keys, readers agree on atom names,
module-level sort keys, base normal with a fallback value, tables built from module-level names, takewhile over most_common)."""


def M(id, props, file, old, new, rule=None, kind="fire", count=1, **kw):
    return dict(id=id, props=props if isinstance(props, list) else [props], file=file, old=old, new=new, rule=rule, kind=kind, count=count, **kw)


AN, TT, PA = "annotator.py", "tertiary.py", "parser.py"
E = []
A = E.append
B39, B118, B38 = dict(base="C03-r9"), dict(base="C11-r8"), dict(base="C03-r8")

# ---- C03-r9: glycosidic_bond_atoms helper mapped over the two residues, torsion_angle(*bond_i, *reversed(bond_j)), cross(*in_plane)
A(M("r6-bond-not-reversed", ["C03", "C18"], AN, "torsion_angle(*bond_i, *reversed(bond_j))", "torsion_angle(*bond_i, *bond_j)", "cis-trans-atoms", **B39))
A(M("r6-bond-purine-set", "C03", AN, 'nitrogen_name = "N9" if residue.one_letter_name in "AG" else "N1"', 'nitrogen_name = "N9" if residue.one_letter_name in "AGU" else "N1"', "cis-trans-atoms", **B39))
A(M("r6-bond-all-silent", ["C03", "C18"], AN, "    if any(atom is None for atom in bond):\n        return None\n", "    if not all(atom is not None for atom in bond):\n        return None\n", kind="silent", **B39))
A(M("r6-normal-names-map", ["C03", "C04"], TT, 'names = ("N9", "N7", "N3") if is_purine else ("N1", "C4", "O2")', 'names = ("N9", "N7", "N3") if is_purine else ("N1", "C2", "O2")', "base-normal", **B39))
A(M("r6-in-plane-origin", ["C03", "C04", "C05"], TT, "in_plane = [atom.coordinates - origin.coordinates for atom in (first, second)]", "in_plane = [atom.coordinates - first.coordinates for atom in (origin, second)]", "base-normal", **B39))
A(M("r6-in-plane-absolute", "C05", TT, "in_plane = [atom.coordinates - origin.coordinates for atom in (first, second)]", "in_plane = [atom.coordinates for atom in (first, second)]", "invariance-typing", **B39))
A(M("r6-in-plane-tuple-silent", ["C03", "C04", "C05"], TT, "in_plane = [atom.coordinates - origin.coordinates for atom in (first, second)]", "in_plane = tuple(atom.coordinates - origin.coordinates for atom in (first, second))", kind="silent", **B39))

# ---- a value instead of None when a reference atom is missing (base-normal, also under the pinned reading)
A(M("r6-normal-fallback-zero", ["C03", "C04"], TT, "            if n9 is None or n7 is None or n3 is None:\n                return None\n", "            if n9 is None or n7 is None or n3 is None:\n                return numpy.zeros(3)\n", "base-normal"))

# ---- C11-r8: {name_i, name_j}.isdisjoint(<acceptor list>), shared orient_and_classify_contact helper
A(M("r6-isdisjoint-lists-swapped", "C11", AN, None, None, "bph-branch", edits=[("            if not atom_names.isdisjoint(PHOSPHATE_ACCEPTORS):", "            if not atom_names.isdisjoint(RIBOSE_ACCEPTORS_X):"), ("            elif not atom_names.isdisjoint(RIBOSE_ACCEPTORS):", "            elif not atom_names.isdisjoint(PHOSPHATE_ACCEPTORS):"), ("isdisjoint(RIBOSE_ACCEPTORS_X)", "isdisjoint(RIBOSE_ACCEPTORS)")], **B118))
A(M("r6-isdisjoint-one-name", "C11", AN, "        atom_names = {atom_i.name, atom_j.name}\n", "        atom_names = {atom_i.name}\n", "bph-branch", **B118))
A(M("r6-isdisjoint-in-silent", ["C11", "C03"], AN, "            if not atom_names.isdisjoint(PHOSPHATE_ACCEPTORS):", "            if atom_i.name in PHOSPHATE_ACCEPTORS or atom_j.name in PHOSPHATE_ACCEPTORS:", kind="silent", **B118))
A(M("r6-orient-helper-roles", "C11", AN, "        donor_residue, acceptor_residue = residue_j, residue_i\n        donor_atom, acceptor_atom = atom_j, atom_i\n    classification", "        donor_residue, acceptor_residue = residue_j, residue_i\n        donor_atom, acceptor_atom = atom_i, atom_j\n    classification", "bph-roles", **B118))

# ---- C03-r8: selection over takewhile(count >= 2, most_common())
A(M("r6-takewhile-three", "C03", AN, "lambda item: item[1] >= 2, Counter(labels).most_common()", "lambda item: item[1] >= 3, Counter(labels).most_common()", "select-min-contacts", **B38))
A(M("r6-takewhile-gt1-silent", "C03", AN, "lambda item: item[1] >= 2, Counter(labels).most_common()", "lambda item: item[1] > 1, Counter(labels).most_common()", kind="silent", tolerate_exit2=["C11"], **B38))
A(M("r6-claims-one", "C03", AN, "        claims = {(residue_i, edge_i), (residue_j, edge_j)}\n", "        claims = {(residue_i, edge_i)}\n", "edge-exclusive", **B38))

# ---- C05: a residue key made of chain and number only; the readers agree on atom names
A(M("r6-residue-key-partial", "C05", TT, None, None, "identity-partial-key", edits=[("            residue_map[residue] = i\n", "            residue_map[(residue.chain, residue.number)] = i\n"), ("            j = residue_map.get(base_pair.nt1_3d, None)\n            k = residue_map.get(base_pair.nt2_3d, None)\n", "            j = residue_map.get((base_pair.nt1_3d.chain, base_pair.nt1_3d.number), None)\n            k = residue_map.get((base_pair.nt2_3d.chain, base_pair.nt2_3d.number), None)\n")]))
A(M("r6-residue-key-full-silent", "C05", TT, None, None, kind="silent", edits=[("            residue_map[residue] = i\n", "            residue_map[(residue.model, residue.chain, residue.number, residue.icode)] = i\n"), ("            j = residue_map.get(base_pair.nt1_3d, None)\n            k = residue_map.get(base_pair.nt2_3d, None)\n", "            j = residue_map.get((base_pair.nt1_3d.model, base_pair.nt1_3d.chain, base_pair.nt1_3d.number, base_pair.nt1_3d.icode), None)\n            k = residue_map.get((base_pair.nt2_3d.model, base_pair.nt2_3d.chain, base_pair.nt2_3d.number, base_pair.nt2_3d.icode), None)\n")]))
A(M("r6-pdb-names-upper", "C05", PA, "            atom_name = line[12:16].strip()\n", "            atom_name = line[12:16].strip().replace(\"*\", \"'\")\n", "format-same-atoms"))
A(M("r6-pdb-names-strip-silent", "C05", PA, "            atom_name = line[12:16].strip()\n", "            atom_name = \"\".join(line[12:16].split())\n", kind="silent"))

# ---- sort keys in a module-level function shared by both emissions
KEYFN = "def residue_pair_sort_key(item):\n    residue_i, residue_j = item[0], item[1]\n    return ({I}, {J}) + tuple(item[2:])\n\n\ndef find_pairs("
FULL_I = 'residue_i.model, residue_i.chain, residue_i.number, residue_i.icode or " "'
A(M("r6-module-sort-key-full-silent", ["C11", "C04"], AN, None, None, kind="silent", edits=[("def find_pairs(", KEYFN.replace("{I}", FULL_I).replace("{J}", FULL_I.replace("residue_i", "residue_j"))), ("    for residue_i, residue_j, topology in sorted(pairs):", "    for residue_i, residue_j, topology in sorted(pairs, key=residue_pair_sort_key):")]))
A(M("r6-module-sort-key-no-icode", ["C11", "C04", "C05"], AN, None, None, ["sorted-emission", "stack-emission", "identity-partial-key"], edits=[("def find_pairs(", KEYFN.replace("{I}", "residue_i.model, residue_i.chain, residue_i.number").replace("{J}", "residue_j.model, residue_j.chain, residue_j.number")), ("    for residue_i, residue_j, topology in sorted(pairs):", "    for residue_i, residue_j, topology in sorted(pairs, key=residue_pair_sort_key):")]))

# ---- tables written through module-level names bound by a tuple assignment
A(M("r6-table-names-silent", ["C03", "C11", "C05"], TT, 'RIBOSE_ACCEPTORS = ["O4\'", "O2\'"]', '_O4P, _O2P = "O4\'", "O2\'"\nRIBOSE_ACCEPTORS = [_O4P, _O2P]', kind="silent"))
A(M("r6-table-names-wrong", ["C03"], TT, 'RIBOSE_ACCEPTORS = ["O4\'", "O2\'"]', '_O4P, _O2P = "O4\'", "O3\'"\nRIBOSE_ACCEPTORS = [_O4P, _O2P]', "table-pinned"))
