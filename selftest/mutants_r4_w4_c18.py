"""Round 4, sub-worker W4-c18 (C18; C15's chi part): firing mutants and silent twins for the rules generalised in round 4.

* torsion-closed-form, whole-circle reading (sa/circle.py): angle made by acos + sign / copysign / a conditional / two atan2
* clip-noop as the identity  clipped quantity = cos(phi)
* interstem-points / interstem-units: the inter-stem torsion evaluated on stub stems (if-chain and table-driven shape)
* lookup-current-state: find_atom / Atom.coordinates evaluated on stub frames over call histories
* the torsion table rules on top of the stored refactor C18-r5 (module helper _torsion_points, merged chi block)
"""


def M(id, props, file, old, new, rule=None, kind="fire", count=1, **kw):
    return dict(id=id, props=props if isinstance(props, list) else [props], file=file, old=old, new=new, rule=rule, kind=kind, count=count, **kw)


E = []
A = E.append
TT, T2 = "tertiary.py", "tertiary_v2.py"
R5 = dict(base="C18-r5")

# ---- whole circle: the tail of tertiary.calculate_torsion_angle_coords rewritten with a normalised cosine -----------------------------
_ATAN2 = "    # Clamp dot product arguments for acos/atan2 to avoid domain errors\n    dot_t1_t2 = numpy.clip(dot_t1_t2, -1.0, 1.0)\n\n    angle = math.atan2(dot_t2_t3, dot_t1_t2)\n"
_COS = "    cos_angle = numpy.clip(dot_t1_t2 / (numpy.linalg.norm(t1) * numpy.linalg.norm(t2)), -1.0, 1.0)\n"


def circle(id, tail, rule="torsion-closed-form", kind="fire", cos=_COS):
    A(M(id, "C18", TT, _ATAN2, cos + tail, rule if kind == "fire" else None, kind=kind))


circle("c18c-sign-acos", "    angle = float(numpy.sign(dot_t2_t3)) * math.acos(cos_angle)\n")
circle("c18c-acos-times-sign", "    magnitude = math.acos(cos_angle)\n    angle = magnitude * numpy.sign(dot_t2_t3)\n")
circle("c18c-cond-strict", "    angle = math.acos(cos_angle) if dot_t2_t3 > 0 else -math.acos(cos_angle)\n")
circle("c18c-acos-unsigned", "    angle = math.acos(cos_angle)\n")
circle("c18c-sign-flipped", "    angle = math.copysign(math.acos(cos_angle), -dot_t2_t3)\n")
circle("c18c-copysign-degrees", "    angle = math.degrees(math.copysign(math.acos(cos_angle), dot_t2_t3))\n")
circle("c18c-two-atan2-offset", "    angle = math.atan2(dot_t2_t3, dot_t1_t2) if dot_t1_t2 >= 0 else math.atan2(-dot_t2_t3, -dot_t1_t2) + math.pi\n")
circle("c18c-asin-only", "    sin_angle = numpy.clip(dot_t2_t3 / (numpy.linalg.norm(t1) * numpy.linalg.norm(t2)), -1.0, 1.0)\n    angle = math.asin(sin_angle)\n", cos="")
circle("c18c-copysign-silent", "    angle = math.copysign(math.acos(cos_angle), dot_t2_t3)\n", kind="silent")
circle("c18c-cond-silent", "    angle = math.acos(cos_angle) if dot_t2_t3 >= 0 else -math.acos(cos_angle)\n", kind="silent")
circle("c18c-if-negate-silent", "    angle = math.acos(cos_angle)\n    if dot_t2_t3 < 0:\n        angle = -angle\n", kind="silent")
circle("c18c-sign-zero-fixed-silent", "    s = numpy.sign(dot_t2_t3)\n    if s == 0:\n        s = 1.0\n    angle = s * math.acos(cos_angle)\n", kind="silent")
circle("c18c-two-atan2-silent", "    angle = math.atan2(dot_t2_t3, dot_t1_t2) if dot_t2_t3 != 0 else math.acos(cos_angle)\n", kind="silent")
circle("c18c-asin-folded-silent", "    sin_angle = numpy.clip(dot_t2_t3 / (numpy.linalg.norm(t1) * numpy.linalg.norm(t2)), -1.0, 1.0)\n    angle = math.asin(sin_angle)\n    if cos_angle < 0:\n        angle = math.pi - angle if dot_t2_t3 >= 0 else -math.pi - angle\n", kind="silent")
# acos of the raw dot product of the cross products of unit bonds: the factor sin(theta1) sin(theta2) is not 1 (the algebra takes the
# `v / |v| if |v| > 1e-6 else v` branch that holds on the property's domain); normalising the two normals the same way is the angle
A(M("c18c-acos-unnormalised", "C18", TT, _ATAN2, "    angle = math.copysign(math.acos(numpy.clip(dot_t1_t2, -1.0, 1.0)), dot_t2_t3)\n", "torsion-closed-form"))
A(M("c18c-acos-unit-normals-silent", "C18", TT, _ATAN2, "    n1 = t1 / numpy.linalg.norm(t1) if numpy.linalg.norm(t1) > 1e-6 else t1\n    n2 = t2 / numpy.linalg.norm(t2) if numpy.linalg.norm(t2) > 1e-6 else t2\n    angle = math.copysign(math.acos(numpy.clip(numpy.dot(n1, n2), -1.0, 1.0)), dot_t2_t3)\n", kind="silent"))
# a normalisation threshold that is not tiny leaves the factor open: honestly undecided (exit 2), never silent
A(M("c18c-acos-coarse-threshold-undecided", "C18", TT, _ATAN2, "    n1 = t1 / numpy.linalg.norm(t1) if numpy.linalg.norm(t1) > 0.5 else t1\n    n2 = t2 / numpy.linalg.norm(t2) if numpy.linalg.norm(t2) > 0.5 else t2\n    angle = math.copysign(math.acos(numpy.clip(numpy.dot(n1, n2), -1.0, 1.0)), dot_t2_t3)\n", kind="unrecognised"))
# second implementation: the same forms keep the known sign convention (KNOWN-FINDING F18, exit 0) / lose phi = pi
_V2 = "    angle = np.arctan2(y, x)\n"
A(M("c18c-v2-copysign-known-silent", "C18", T2, _V2, "    angle = np.copysign(np.arccos(np.clip(x, -1.0, 1.0)), y)\n", kind="silent"))
A(M("c18c-v2-sign-acos", "C18", T2, _V2, "    angle = np.sign(y) * np.arccos(np.clip(x, -1.0, 1.0))\n", "torsion-closed-form"))

# ---- inter-stem torsion ----------------------------------------------------------------------------------------------------------------
_CHAIN = '''        mu_degrees = 0.0

        if closest_pair_key == "cs55":
            # Closest: s1_first and s2_first
            # Torsion points: s1_second, s1_first, s2_first, s2_second
            s1p1, s1p2 = stem1_centroids[1], stem1_centroids[0]
            s2p1, s2p2 = stem2_centroids[0], stem2_centroids[1]
            mu_degrees = 180.0 - a_rna_twist
        elif closest_pair_key == "cs53":
            # Closest: s1_first and s2_last
            # Torsion points: s1_second, s1_first, s2_last, s2_second_last
            s1p1, s1p2 = stem1_centroids[1], stem1_centroids[0]
            s2p1, s2p2 = stem2_centroids[-1], stem2_centroids[-2]
            mu_degrees = 0.0 - a_rna_twist
        elif closest_pair_key == "cs35":
            # Closest: s1_last and s2_first
            # Torsion points: s1_second_last, s1_last, s2_first, s2_second
            s1p1, s1p2 = stem1_centroids[-2], stem1_centroids[-1]
            s2p1, s2p2 = stem2_centroids[0], stem2_centroids[1]
            mu_degrees = 0.0 + a_rna_twist
        elif closest_pair_key == "cs33":
            # Closest: s1_last and s2_last
            # Torsion points: s1_second_last, s1_last, s2_last, s2_second_last
            s1p1, s1p2 = stem1_centroids[-2], stem1_centroids[-1]
            s2p1, s2p2 = stem2_centroids[-1], stem2_centroids[-2]
            mu_degrees = 180.0 + a_rna_twist
        else:
            # This case should ideally not be reached if endpoint_distances is not empty
            logging.error(
                f"Unexpected closest pair key: {closest_pair_key}. Cannot calculate parameters."
            )
            return None
'''


def _table(cs33="(-2, -1, -1, -2, 180.0 + a_rna_twist)", cs53="(1, 0, -1, -2, 0.0 - a_rna_twist)"):
    return f'''        torsion_points = {{
            "cs55": (1, 0, 0, 1, 180.0 - a_rna_twist),
            "cs53": {cs53},
            "cs35": (-2, -1, 0, 1, 0.0 + a_rna_twist),
            "cs33": {cs33},
        }}

        if closest_pair_key not in torsion_points:
            logging.error(
                f"Unexpected closest pair key: {{closest_pair_key}}. Cannot calculate parameters."
            )
            return None

        i1, i2, j1, j2, mu_degrees = torsion_points[closest_pair_key]
        s1p1, s1p2 = stem1_centroids[i1], stem1_centroids[i2]
        s2p1, s2p2 = stem2_centroids[j1], stem2_centroids[j2]
'''


A(M("c18i-table-silent", "C18", TT, _CHAIN, _table(), kind="silent"))
A(M("c18i-table-cs33-swapped", "C18", TT, _CHAIN, _table(cs33="(-2, -1, -2, -1, 180.0 + a_rna_twist)"), "interstem-points"))
A(M("c18i-table-cs53-first", "C18", TT, _CHAIN, _table(cs53="(1, 0, 0, 1, 0.0 - a_rna_twist)"), "interstem-points"))
A(M("c18i-table-stem1-reversed", "C18", TT, _CHAIN, _table(cs33="(-1, -2, -1, -2, 180.0 + a_rna_twist)"), "interstem-points"))
A(M("c18i-chain-cs33-swapped", "C18", TT, "            # Torsion points: s1_second_last, s1_last, s2_last, s2_second_last\n            s1p1, s1p2 = stem1_centroids[-2], stem1_centroids[-1]\n            s2p1, s2p2 = stem2_centroids[-1], stem2_centroids[-2]\n", "            # Torsion points: s1_second_last, s1_last, s2_last, s2_second_last\n            s1p1, s1p2 = stem1_centroids[-2], stem1_centroids[-1]\n            s2p1, s2p2 = stem2_centroids[-2], stem2_centroids[-1]\n", "interstem-points"))
A(M("c18i-second-is-third", "C18", TT, "            s1p1, s1p2 = stem1_centroids[1], stem1_centroids[0]\n            s2p1, s2p2 = stem2_centroids[0], stem2_centroids[1]\n", "            s1p1, s1p2 = stem1_centroids[1], stem1_centroids[0]\n            s2p1, s2p2 = stem2_centroids[0], stem2_centroids[min(2, len(stem2_centroids) - 1)]\n", "interstem-points"))
A(M("c18i-type-labels-swapped", "C18", TT, '            "cs53": numpy.linalg.norm(s1_first - s2_last),\n            "cs35": numpy.linalg.norm(s1_last - s2_first),\n', '            "cs35": numpy.linalg.norm(s1_first - s2_last),\n            "cs53": numpy.linalg.norm(s1_last - s2_first),\n', "interstem-points"))
A(M("c18i-farthest-pair", "C18", TT, "closest_pair_key = min(endpoint_distances, key=endpoint_distances.get)", "closest_pair_key = max(endpoint_distances, key=endpoint_distances.get)", "interstem-points"))
A(M("c18i-call-order", "C18", TT, "torsion_radians = calculate_torsion_angle_coords(s1p1, s1p2, s2p1, s2p2)", "torsion_radians = calculate_torsion_angle_coords(s1p2, s1p1, s2p1, s2p2)", "interstem-points"))
A(M("c18i-min-lambda-silent", "C18", TT, "closest_pair_key = min(endpoint_distances, key=endpoint_distances.get)", "closest_pair_key = min(endpoint_distances, key=lambda k: endpoint_distances[k])", kind="silent"))
A(M("c18i-sorted-silent", "C18", TT, "closest_pair_key = min(endpoint_distances, key=endpoint_distances.get)", "closest_pair_key = sorted(endpoint_distances.items(), key=lambda kv: kv[1])[0][0]", kind="silent"))
A(M("c18i-pdf-degrees", "C18", TT, "torsion_probability = vm_dist.pdf(torsion_radians)", "torsion_probability = vm_dist.pdf(math.degrees(torsion_radians))", "interstem-units"))
A(M("c18i-loc-degrees", "C18", TT, "vm_dist = vonmises(kappa=kappa, loc=mu_radians)", "vm_dist = vonmises(kappa=kappa, loc=mu_degrees)", "interstem-units"))
A(M("c18i-out-radians", "C18", TT, '            "torsion_angle": math.degrees(torsion_radians),\n', '            "torsion_angle": torsion_radians,\n', "interstem-units"))
A(M("c18i-numpy-units-silent", "C18", TT, None, None, kind="silent", edits=[("        mu_radians = math.radians(mu_degrees)\n", "        mu_radians = numpy.deg2rad(mu_degrees)\n"), ('            "torsion_angle": math.degrees(torsion_radians),\n', '            "torsion_angle": numpy.rad2deg(torsion_radians),\n')]))

# ---- lookups answer from the current frame (tertiary_v2.Residue.find_atom), on top of the refactor C18-r5 ---------------------------------
_FIND = '''        if self.format == "PDB":
            mask = self.atoms["name"] == atom_name
            atoms_df = self.atoms[mask]
            if len(atoms_df) > 0:
                return Atom(atoms_df.iloc[0], self.format)
        elif self.format == "mmCIF":
            if "auth_atom_id" in self.atoms.columns:
                mask = self.atoms["auth_atom_id"] == atom_name
                atoms_df = self.atoms[mask]
                if len(atoms_df) > 0:
                    return Atom(atoms_df.iloc[0], self.format)
            else:
                mask = self.atoms["label_atom_id"] == atom_name
                atoms_df = self.atoms[mask]
                if len(atoms_df) > 0:
                    return Atom(atoms_df.iloc[0], self.format)
        return None
'''
_DEF = '    def find_atom(self, atom_name: str) -> Optional["Atom"]:\n'
A(M("c18l-attr-dict-memo", "C18", T2, _DEF, _DEF + '        cache = getattr(self, "_atom_cache", None)\n        if cache is None:\n            cache = self._atom_cache = {}\n        if atom_name not in cache:\n            cache[atom_name] = self._lookup_atom(atom_name)\n        return cache[atom_name]\n\n    def _lookup_atom(self, atom_name: str) -> Optional["Atom"]:\n', "lookup-current-state", **R5))
A(M("c18l-lru-cache", "C18", T2, _DEF, "    @__import__('functools').lru_cache(maxsize=None)\n" + _DEF, "lookup-current-state", **R5))
A(M("c18l-cached-index", "C18", T2, _DEF, "    @cached_property\n    def _atoms_by_name(self):\n        return {atom.name: atom for atom in reversed(self.atoms_list)}\n\n" + _DEF.rstrip("\n") + "\n        if self.format in (\"PDB\", \"mmCIF\"):\n            return self._atoms_by_name.get(atom_name)\n", "lookup-current-state", **R5))
A(M("c18l-positive-memo", "C18", T2, _FIND, "        known = self.__dict__.setdefault(\"_known_atoms\", {})\n        if atom_name in known:\n            return known[atom_name]\n" + _FIND.replace("                return Atom(atoms_df.iloc[0], self.format)\n        elif", "                known[atom_name] = Atom(atoms_df.iloc[0], self.format)\n                return known[atom_name]\n        elif"), "lookup-current-state", **R5))
A(M("c18l-scan-silent", "C18", T2, _FIND, '        column = "name" if self.format == "PDB" else ("auth_atom_id" if "auth_atom_id" in self.atoms.columns else "label_atom_id")\n        if self.format not in ("PDB", "mmCIF"):\n            return None\n        for i in range(len(self.atoms)):\n            row = self.atoms.iloc[i]\n            if row[column] == atom_name:\n                return Atom(row, self.format)\n        return None\n', kind="silent", **R5))
A(M("c18l-local-cache-silent", "C18", T2, '        if self.format == "PDB":\n            mask = self.atoms["name"] == atom_name\n', '        seen = {}\n        if atom_name in seen:\n            return seen[atom_name]\n        if self.format == "PDB":\n            mask = self.atoms["name"] == atom_name\n', kind="silent", **R5))
A(M("c18l-counter-silent", "C18", T2, '        if self.format == "PDB":\n            mask = self.atoms["name"] == atom_name\n', '        self.__dict__["_lookups"] = self.__dict__.get("_lookups", 0) + 1\n        if self.format == "PDB":\n            mask = self.atoms["name"] == atom_name\n', kind="silent", **R5))

# ---- the torsion table of tertiary_v2 on top of C18-r5 (module helper with early returns, merged chi block) ------------------------------
A(M("c18e-r5-offset-sign", ["C18", "C15"], T2, "        res_idx = i + offset\n", "        res_idx = i - offset\n", "backbone-atoms", **R5))
A(M("c18e-r5-missing-skipped", "C18", T2, "        if atom is None:\n            return None\n        points.append(atom.coordinates)\n", "        if atom is None:\n            continue\n        points.append(atom.coordinates)\n", "backbone-atoms", **R5))
# equivalent: the only definitions with offset +1 (epsilon, zeta) are skipped at the last residue before the helper is called
A(M("c18e-r5-range-open-silent", "C18", T2, "        if not 0 <= res_idx < len(segment):\n", "        if not 0 <= res_idx <= len(segment):\n", kind="silent", **R5))
A(M("c18e-r5-range-strict", "C18", T2, "        if not 0 <= res_idx < len(segment):\n", "        if not 0 < res_idx < len(segment):\n", "backbone-atoms", **R5))
A(M("c18e-r5-guard-merged-wrong", "C18", T2, '                        angle_name in ("epsilon", "zeta") and i == len(segment) - 1\n', '                        angle_name in ("epsilon", "zeta") and i == len(segment) - 2\n', "backbone-atoms", **R5))
A(M("c18e-r5-chi-c8", ["C18", "C15"], T2, '                        base_atom_names = ("N9", "C4")\n', '                        base_atom_names = ("N9", "C8")\n', "chi-atoms", **R5))
A(M("c18e-r5-chi-swapped", "C18", T2, "                        nitrogen = residue.find_atom(base_atom_names[0])\n                        carbon = residue.find_atom(base_atom_names[1])\n", "                        nitrogen = residue.find_atom(base_atom_names[1])\n                        carbon = residue.find_atom(base_atom_names[0])\n", "chi-atoms", **R5))
A(M("c18e-r5-bases", "C18", T2, '                    elif residue.residue_name in pyrimidine_bases:\n                        base_atom_names = ("N1", "C2")\n                    else:\n                        base_atom_names = None\n', '                    else:\n                        base_atom_names = ("N1", "C2")\n', "chi-bases", **R5))
A(M("c18e-r5-range-silent", ["C18", "C15"], T2, "        if not 0 <= res_idx < len(segment):\n", "        if res_idx < 0 or res_idx >= len(segment):\n", kind="silent", **R5))
A(M("c18e-r5-star-silent", "C18", T2, "calculate_torsion_angle(*points) if points is not None else None", "calculate_torsion_angle(points[0], points[1], points[2], points[3]) if points is not None else None", kind="silent", **R5))
A(M("c18e-r5-filter-silent", "C18", T2, '            if angle_name != "chi"\n', "            if atoms_def is not None\n", kind="silent", **R5))
