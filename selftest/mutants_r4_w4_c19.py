"""Round 4, worker W4 (C06, C14, C17, C18, C19, C20): firing mutants and silent twins for the rules generalised in round 4.
One file per (sub-)worker; each exports the list E, imported by selftest/mutants.py."""


def M(id, props, file, old, new, rule=None, kind="fire", count=1, **kw):
    return dict(id=id, props=props if isinstance(props, list) else [props], file=file, old=old, new=new, rule=rule, kind=kind, count=count, **kw)


E = []
A = E.append

# ---- C19 (W4-c19), on the refactored base C19-r5 (category table + stacking table + next() name matching) and on the clean tree
AD = "adapter.py"
R5 = dict(base="C19-r5")
DEF_FR3D = "def parse_fr3d_output(file_path: str) -> BaseInteractions:\n"
LISTS = '        "base_pairs": [],\n        "stackings": [],\n        "base_ribose_interactions": [],\n        "base_phosphate_interactions": [],\n        "other_interactions": [],\n'
LIT = "    interactions_data = {\n" + LISTS + "    }\n"
POOL = "_EMPTY = {\n" + LISTS.replace("        ", "    ") + "}\n\n\n"


def pool(init, *more):
    """module-level pool of five lists in front of parse_fr3d_output + another initialisation of the local dictionary"""
    return [(DEF_FR3D, POOL + DEF_FR3D), (LIT, init)] + list(more)


# import-history: two imports in one process give what each gives alone; a result already returned is not rewritten (sa/procstate.py)
A(M("c19-r5-history-shallow-copy", "C19", AD, None, None, "import-history", edits=pool("    interactions_data = _EMPTY.copy()\n"), **R5))
A(M("c19-r5-history-dict-ctor", "C19", AD, None, None, "import-history", edits=pool("    interactions_data = dict(_EMPTY)\n"), **R5))
A(M("c19-r5-history-same-lists", "C19", AD, None, None, "import-history", edits=pool("    interactions_data = {key: collected for key, collected in _EMPTY.items()}\n"), **R5))
A(M("c19-r5-history-cleared", "C19", AD, None, None, "import-history", edits=pool("    interactions_data = _EMPTY\n    for collected in interactions_data.values():\n        collected.clear()\n"), **R5))  # the second import is right, the first result is emptied and refilled under its owner
A(M("c19-history-copy-module", "C19", AD, None, None, "import-history", edits=pool("    interactions_data = copy.copy(_EMPTY)\n", ("import argparse\n", "import argparse\nimport copy\n"))))
A(M("c19-history-default-arg", "C19", AD, None, None, "import-history", edits=[("def parse_fr3d_output(file_path: str) -> BaseInteractions:\n", "def parse_fr3d_output(\n    file_path: str,\n    interactions_data: Dict[str, list] = {\n" + LISTS + "    },\n) -> BaseInteractions:\n"), (LIT, "")]))
A(M("c19-r5-history-deepcopy-silent", "C19", AD, None, None, kind="silent", edits=pool("    interactions_data = copy.deepcopy(_EMPTY)\n", ("import argparse\n", "import argparse\nimport copy\n")), **R5))
A(M("c19-r5-history-fresh-lists-silent", "C19", AD, None, None, kind="silent", edits=pool("    interactions_data = {key: [] for key in _EMPTY}\n"), **R5))
A(M("c19-r5-history-list-copies-silent", "C19", AD, None, None, kind="silent", edits=pool("    interactions_data = {key: list(collected) for key, collected in _EMPTY.items()}\n"), **R5))
A(M("c19-history-default-none-silent", "C19", AD, None, None, kind="silent", edits=[("def parse_fr3d_output(file_path: str) -> BaseInteractions:\n", "def parse_fr3d_output(\n    file_path: str, interactions_data: Optional[Dict[str, list]] = None\n) -> BaseInteractions:\n"), (LIT, "    if interactions_data is None:\n" + "".join("    " + line + "\n" for line in LIT.splitlines()))]))
# state that survives a call is not a violation as long as no result depends on it: a pool of parsed unit ids keyed by the whole id
A(M("c19-r5-unit-pool-silent", "C19", AD, None, None, kind="silent", edits=[("def parse_unit_id(nt: str) -> Residue:\n", "_UNITS: Dict[str, Residue] = {}\n\n\ndef parse_unit_id(nt: str) -> Residue:\n"), ("    fields = nt.split(\"|\")\n", "    if nt in _UNITS:\n        return _UNITS[nt]\n    fields = nt.split(\"|\")\n"), ("    return Residue(None, auth)\n", "    _UNITS[nt] = Residue(None, auth)\n    return _UNITS[nt]\n")], **R5))
A(M("c19-r5-unit-pool-number-key", "C19", AD, None, None, ["unit-id", "line-fields", "import-history"], edits=[("def parse_unit_id(nt: str) -> Residue:\n", "_UNITS: Dict[str, Residue] = {}\n\n\ndef parse_unit_id(nt: str) -> Residue:\n"), ("    auth = ResidueAuth(fields[2], int(fields[4]), icode, fields[3])\n    return Residue(None, auth)\n", "    if fields[4] not in _UNITS:\n        auth = ResidueAuth(fields[2], int(fields[4]), icode, fields[3])\n        _UNITS[fields[4]] = Residue(None, auth)\n    return _UNITS[fields[4]]\n")], **R5))  # keyed by the residue number alone: an id seen earlier answers for another chain
DSSR_INIT = "    stackings: List[Stacking] = []\n"
DEF_DSSR = "def parse_dssr_output(\n"
A(M("c19-r5-dssr-history-module-list", "C19", AD, None, None, "import-history", edits=[(DEF_DSSR, "_DSSR_STACKINGS: List[Stacking] = []\n\n\n" + DEF_DSSR), (DSSR_INIT, "    stackings = _DSSR_STACKINGS\n")], **R5))
A(M("c19-r5-dssr-history-list-copy-silent", "C19", AD, None, None, kind="silent", edits=[(DEF_DSSR, "_DSSR_STACKINGS: List[Stacking] = []\n\n\n" + DEF_DSSR), (DSSR_INIT, "    stackings = list(_DSSR_STACKINGS)\n")], **R5))

# label-total / fr3d-total / normaliser-eval: an exception on a label path is neither swallowed as 'malformed line' nor escapes
LW_NAME = '            return ("base-pair", LeontisWesthof[lw_format])\n        except KeyError:\n'
A(M("c19-r5-lw-by-value", "C19", AD, LW_NAME, '            return ("base-pair", LeontisWesthof(lw_format))\n        except KeyError:\n', ["label-total"], **R5))
A(M("c19-r5-lw-by-value-both-silent", "C19", AD, LW_NAME, '            return ("base-pair", LeontisWesthof(lw_format))\n        except (KeyError, ValueError):\n', kind="silent", **R5))
A(M("c19-r5-lw-by-value-members-silent", "C19", AD, LW_NAME, '            if lw_format not in LeontisWesthof.__members__:\n                raise KeyError(lw_format)\n            return ("base-pair", LeontisWesthof(lw_format))\n        except KeyError:\n', kind="silent", **R5))
A(M("c19-r5-br-by-value-silent", "C19", AD, None, None, kind="silent", edits=[('            br_type = f"_{fr3d_name[0]}"\n            return ("base-ribose", BR[br_type])\n', '            return ("base-ribose", BR(fr3d_name))\n'), ('            bph_type = f"_{fr3d_name[0]}"\n            return ("base-phosphate", BPh[bph_type])\n', '            return ("base-phosphate", BPh(fr3d_name))\n')], **R5))  # BR._3.value is "3BR": the value lookup of the label itself is the member; the handler names ValueError
A(M("c19-r5-br-by-value-narrow-handler", "C19", AD, None, None, ["label-total", "fr3d-total"], edits=[('            br_type = f"_{fr3d_name[0]}"\n            return ("base-ribose", BR[br_type])\n        except (ValueError, KeyError):\n', '            return ("base-ribose", BR(fr3d_name))\n        except KeyError:\n')], **R5))  # `\u00b2BR`: str.isdigit() accepts the superscript two, BR(value) raises ValueError, the handler names KeyError only
STACK_GET = "    topology = _FR3D_STACKING_TOPOLOGY.get(fr3d_name)\n    if topology is not None:\n        return (\"stacking\", topology)\n"
A(M("c19-r5-stack-table-subscript", "C19", AD, STACK_GET, '    if fr3d_name in _FR3D_STACKING_TOPOLOGY or fr3d_name[:2] == "s3":\n        return ("stacking", _FR3D_STACKING_TOPOLOGY[fr3d_name])\n', ["label-total", "fr3d-total"], **R5))  # `s36`: KeyError of a table lookup is not among the exceptions the line dispatcher contains
A(M("c19-r5-stack-table-subscript-silent", "C19", AD, STACK_GET, '    if fr3d_name in _FR3D_STACKING_TOPOLOGY:\n        return ("stacking", _FR3D_STACKING_TOPOLOGY[fr3d_name])\n', kind="silent", **R5))
LW_STEPS = '            edge_type = fr3d_name[0].lower()  # c or t\n            edge1 = fr3d_name[1].upper()  # W, H, S (convert to uppercase)\n            edge2 = fr3d_name[2].upper()  # W, H, S (convert to uppercase)\n\n            lw_format = f"{edge_type}{edge1}{edge2}"\n'
A(M("c19-r5-lw-slice-silent", "C19", AD, LW_STEPS, "            lw_format = fr3d_name[0].lower() + fr3d_name[1:].upper()\n", kind="silent", **R5))
A(M("c19-r5-lw-slice-keeps-case", "C19", AD, LW_STEPS, "            lw_format = fr3d_name[0] + fr3d_name[1:].upper()\n", "normaliser-eval", **R5))
A(M("c19-lw-slice-silent", "C19", AD, LW_STEPS, "            lw_format = fr3d_name[0].lower() + fr3d_name[1:].upper()\n", kind="silent"))  # on the clean tree the pinned form of the branch is no longer consulted when the labels can be evaluated

# unit-id on the refactored base
UNIT = '    fields = nt.split("|")\n'
A(M("c19-r5-unit-isdigit", "C19", AD, UNIT, UNIT + '    if len(fields) < 5 or not fields[4].isdigit():\n        raise ValueError(f"Malformed FR3D unit id: {nt!r}")\n', "unit-id", **R5))
A(M("c19-r5-unit-signed-digits-silent", "C19", AD, UNIT, UNIT + '    if len(fields) < 5 or not fields[4].lstrip("+-").isdigit():\n        raise ValueError(f"Malformed FR3D unit id: {nt!r}")\n', kind="silent", **R5))

# dssr-eval: a stacking is recorded exactly for the members adjacent in a stack's own list that both resolve
STACKS = '        nts = [\n            match_dssr_name_to_residue(structure3d, nt)\n            for nt in stack.get("nts_long", "").split(",")\n        ]\n        for i in range(1, len(nts)):\n            nt1 = nts[i - 1]\n            nt2 = nts[i]\n            if nt1 is not None and nt2 is not None:\n                stackings.append(Stacking(nt1, nt2, None))\n'
A(M("c19-r5-stack-filter-before-pairing", "C19", AD, STACKS, '        nts = [\n            residue\n            for residue in (\n                match_dssr_name_to_residue(structure3d, nt)\n                for nt in stack.get("nts_long", "").split(",")\n            )\n            if residue is not None\n        ]\n        for nt1, nt2 in zip(nts, nts[1:]):\n            stackings.append(Stacking(nt1, nt2, None))\n', "dssr-eval", **R5))
A(M("c19-r5-stack-index-shift-silent", "C19", AD, STACKS, '        nts = [\n            match_dssr_name_to_residue(structure3d, nt)\n            for nt in stack.get("nts_long", "").split(",")\n        ]\n        for i in range(len(nts) - 1):\n            nt1 = nts[i]\n            nt2 = nts[i + 1]\n            if nt1 is not None and nt2 is not None:\n                stackings.append(Stacking(nt1, nt2, None))\n', kind="silent", **R5))
A(M("c19-stack-index-shift-silent", "C19", AD, STACKS, '        nts = [\n            match_dssr_name_to_residue(structure3d, nt)\n            for nt in stack.get("nts_long", "").split(",")\n        ]\n        for i in range(len(nts) - 1):\n            nt1 = nts[i]\n            nt2 = nts[i + 1]\n            if nt1 is not None and nt2 is not None:\n                stackings.append(Stacking(nt1, nt2, None))\n', kind="silent"))
A(M("c19-r5-stack-zip-guarded-silent", "C19", AD, STACKS, '        nts = [\n            match_dssr_name_to_residue(structure3d, nt)\n            for nt in stack.get("nts_long", "").split(",")\n        ]\n        for nt1, nt2 in zip(nts, nts[1:]):\n            if nt1 is None or nt2 is None:\n                continue\n            stackings.append(Stacking(nt1, nt2, None))\n', kind="silent", **R5))
A(M("c19-r5-stack-index-skip-two", "C19", AD, STACKS, '        nts = [\n            match_dssr_name_to_residue(structure3d, nt)\n            for nt in stack.get("nts_long", "").split(",")\n        ]\n        for i in range(2, len(nts)):\n            nt1 = nts[i - 2]\n            nt2 = nts[i]\n            if nt1 is not None and nt2 is not None:\n                stackings.append(Stacking(nt1, nt2, None))\n', "dssr-eval", **R5))
JOINED = '    for stack in dssr.get("stacks", []):\n' + STACKS
A(M("c19-r5-stacks-joined", "C19", AD, JOINED, '    nts = [\n        match_dssr_name_to_residue(structure3d, nt)\n        for stack in dssr.get("stacks", [])\n        for nt in stack.get("nts_long", "").split(",")\n    ]\n    for nt1, nt2 in zip(nts, nts[1:]):\n        if nt1 is not None and nt2 is not None:\n            stackings.append(Stacking(nt1, nt2, None))\n', "dssr-eval", **R5))  # the last member of one stack and the first of the next are not members of one stack
