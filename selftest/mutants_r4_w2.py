"""Round 4, worker W2 (C03, C04, C05, C11): firing mutants and silent twins for the rules added or generalised in round 4.
Most sit on top of a stored behaviour-preserving refactor of round 4 (base=...-r5), so the rule has to decide rewritten code."""


def M(id, props, file, old, new, rule=None, kind="fire", count=1, **kw):
    return dict(id=id, props=props if isinstance(props, list) else [props], file=file, old=old, new=new, rule=rule, kind=kind, count=count, **kw)


AN, TT, C = "annotator.py", "tertiary.py", "common.py"
E = []
A = E.append
B3, B4, B5, B11 = dict(base="C03-r5"), dict(base="C04-r5"), dict(base="C05-r5"), dict(base="C11-r5")

# ---- exact neighbour query (contact-radius / stack-radius)
A(M("r4-query-eps", ["C03", "C11"], AN, "kdtree.query_pairs(HYDROGEN_BOND_MAX_DISTANCE)", "kdtree.query_pairs(HYDROGEN_BOND_MAX_DISTANCE, eps=0.05)", "contact-radius", **B3))
A(M("r4-query-p1", "C03", AN, "kdtree.query_pairs(HYDROGEN_BOND_MAX_DISTANCE)", "kdtree.query_pairs(HYDROGEN_BOND_MAX_DISTANCE, p=1)", "contact-radius"))
A(M("r4-query-eps0-silent", ["C03", "C05", "C11"], AN, "kdtree.query_pairs(HYDROGEN_BOND_MAX_DISTANCE)", "kdtree.query_pairs(HYDROGEN_BOND_MAX_DISTANCE, p=2.0, eps=0)", kind="silent", **B3))
A(M("r4-stack-query-eps", "C04", AN, "kdtree.query_pairs(STACKING_MAX_DISTANCE)", "kdtree.query_pairs(STACKING_MAX_DISTANCE, eps=0.01)", "stack-radius", **B4))
A(M("r4-stack-query-set-silent", "C04", AN, "kdtree.query_pairs(STACKING_MAX_DISTANCE)", "kdtree.query_pairs(STACKING_MAX_DISTANCE, output_type=\"set\")", kind="silent", **B4))

# ---- plain-dict memo keyed by identifiers (memo-key-state, sa/memo.py)
MEMO_OLD = "def detect_saenger(\n    residue_i: Residue3D, residue_j: Residue3D, lw: LeontisWesthof\n) -> Optional[Saenger]:\n"
A(M("r4-dictmemo-normal", ["C04"], AN, None, None, "memo-key-state",
    edits=[("def angle_between_vectors(", "_NORMALS: Dict[Tuple[int, str, int], object] = {}\n\n\ndef cached_normal(residue: Residue3D):\n    key = (residue.model, residue.chain, residue.number)\n    if key in _NORMALS:\n        return _NORMALS[key]\n    _NORMALS[key] = residue.base_normal_vector\n    return _NORMALS[key]\n\n\ndef angle_between_vectors("),
           ("        normal_i = residue_i.base_normal_vector\n        normal_j = residue_j.base_normal_vector\n", "        normal_i = cached_normal(residue_i)\n        normal_j = cached_normal(residue_j)\n")]))
A(M("r4-dictmemo-local-silent", ["C03", "C11", "C18"], AN, None, None, kind="silent",
    edits=[("    c1p_i = residue_i.find_atom(\"C1'\")\n    c1p_j = residue_j.find_atom(\"C1'\")\n", "    found = {}\n    for key, residue in ((\"i\", residue_i), (\"j\", residue_j)):\n        found[key] = residue.find_atom(\"C1'\")\n    c1p_i = found[\"i\"]\n    c1p_j = found[\"j\"]\n")]))

# ---- C04: labels through a constant table, orientation (stack-labels / stack-orientation)
A(M("r4-table-entry-swapped", "C04", AN, '    (False, True): "downward",\n    (False, False): "outward",\n', '    (False, True): "outward",\n    (False, False): "downward",\n', "stack-labels", **B4))
A(M("r4-table-key-swapped", "C04", AN, "STACKING_TOPOLOGIES[(in_order, same_direction)]", "STACKING_TOPOLOGIES[(same_direction, in_order)]", "stack-labels", **B4))
A(M("r4-first-second-fixed", ["C11", "C04"], AN, "first, second = (residue_i, residue_j) if in_order else (residue_j, residue_i)", "first, second = residue_i, residue_j", ["stack-orientation", "stack-labels"], **B4))
A(M("r4-in-order-gt-silent", ["C04", "C11"], AN, "in_order = bool(residue_i < residue_j)", "in_order = bool(residue_j > residue_i)", kind="silent", **B4))
A(M("r4-stack-unoriented", "C11", AN, '        if residue_i < residue_j:\n            if same_direction:\n                pairs.append((residue_i, residue_j, "upward"))\n            else:\n                pairs.append((residue_i, residue_j, "inward"))\n        else:\n            if same_direction:\n                pairs.append((residue_j, residue_i, "downward"))\n            else:\n                pairs.append((residue_j, residue_i, "outward"))\n', '        pairs.append((residue_i, residue_j, "upward" if same_direction else "inward"))\n', "stack-orientation"))

# ---- C11: one class per pair when the set is trimmed while iterated (bph-one-class), emission read over the elements (bph-emission)
A(M("r4-trim-while-iterating", "C11", AN, "    ambiguous = [key for key, bphs_brs in bph_br_map.items() if len(bphs_brs) > 1]\n    for key in ambiguous:\n        bph_br_map[key] = OrderedSet([bph_br_map[key][0]])\n", "    for bphs_brs in bph_br_map.values():\n        for classification in bphs_brs:\n            if classification != bphs_brs[0]:\n                bphs_brs.remove(classification)\n", "bph-one-class", **B11))
A(M("r4-trim-copy-silent", "C11", AN, "    ambiguous = [key for key, bphs_brs in bph_br_map.items() if len(bphs_brs) > 1]\n    for key in ambiguous:\n        bph_br_map[key] = OrderedSet([bph_br_map[key][0]])\n", "    for bphs_brs in bph_br_map.values():\n        for classification in list(bphs_brs)[1:]:\n            bphs_brs.remove(classification)\n", kind="silent", **B11))
A(M("r4-merge-rule-table", "C11", AN, "merge_rules = ((3, 5, 4), (7, 9, 8))", "merge_rules = ((3, 5, 4), (7, 9, 9))", "bph-merge", **B11))
A(M("r4-emission-swapped", "C11", AN, "BasePhosphate(as_residue(residue_i), as_residue(residue_j), BPh[f\"_{bph}\"])", "BasePhosphate(as_residue(residue_j), as_residue(residue_i), BPh[f\"_{bph}\"])", "bph-emission", **B5))
A(M("r4-emission-first-class", "C11", AN, "BaseRibose(as_residue(residue_i), as_residue(residue_j), BR[f\"_{br}\"])\n        for (residue_i, residue_j), brs in br_map.items()\n        for br in brs\n", "BaseRibose(as_residue(residue_i), as_residue(residue_j), BR[f\"_{brs[0]}\"])\n        for (residue_i, residue_j), brs in br_map.items()\n        for br in brs\n", "bph-emission", **B5))
A(M("r4-emission-helper-auth-only", "C11", AN, "        return Residue(residue.label, residue.auth)\n", "        return Residue(None, residue.auth)\n", ["bph-emission", "bp-emission-record"], **B5))
A(M("r4-r5-no-flag", ["C11", "C03"], AN, "        if backbone_contact:\n            continue\n", "        if backbone_contact and both_unused is None:\n            continue\n", "bph-branch", **B11))
A(M("r4-r5-forelse-priority", "C11", AN, "            (PHOSPHATE_ACCEPTORS, \"phosphate\", base_phosphate_pairs),\n            (RIBOSE_ACCEPTORS, \"ribose\", base_ribose_pairs),\n", "            (RIBOSE_ACCEPTORS, \"ribose\", base_ribose_pairs),\n            (PHOSPHATE_ACCEPTORS, \"phosphate\", base_phosphate_pairs),\n", "bph-branch", **B5))
A(M("r4-r5-ifexp-label-edges", ["C03", "C11"], AN, "            else (residue_j, residue_i, cis_trans, edge_j, edge_i)\n", "            else (residue_j, residue_i, cis_trans, edge_i, edge_j)\n", "label-orientation", **B5))
A(M("r4-r3-helper-roles", "C11", AN, "    return residue_j, residue_i, atom_j, atom_i\n", "    return residue_j, residue_i, atom_i, atom_j\n", "bph-roles", **B3))

# ---- ordering keys, path by path (order-keys / identity-order)
A(M("r4-order-label-branch-3d", ["C11", "C05"], TT, "    def __lt__(self, other):\n        return (self.model, self.chain, self.number, self.icode or \" \") < (", "    def __lt__(self, other):\n        if self.label is not None and other.label is not None:\n            return (self.model, self.label.chain, self.label.number) < (other.model, other.label.chain, other.label.number)\n        return (self.model, self.chain, self.number, self.icode or \" \") < (", ["order-keys", "identity-order"]))
A(M("r4-order-guard-same-key-silent", ["C11", "C05"], C, "    def __lt__(self, other):\n        return (self.chain, self.number, self.icode or \" \") < (\n            other.chain,", "    def __lt__(self, other):\n        if not isinstance(other, Residue):\n            return NotImplemented\n        return (self.chain, self.number, self.icode or \" \") < (\n            other.chain,", kind="silent"))

# ---- C05: gap count by role (identity-arithmetic)
A(M("r4-gap-local-count-silent", "C05", TT, "                        for k in range(residue.number - previous.number - 1):\n                            result[-1][1].append(\"?\")\n", "                        missing = residue.number - previous.number - 1\n                        result[-1][1].extend(\"?\" for _ in range(missing))\n", kind="silent"))
A(M("r4-gap-local-leaks", "C05", TT, "                        for k in range(residue.number - previous.number - 1):\n                            result[-1][1].append(\"?\")\n", "                        missing = residue.number - previous.number - 1\n                        result[-1][1].extend(\"?\" for _ in range(missing))\n                        result[-1][1].append(str(missing % 10))\n", "identity-arithmetic"))
