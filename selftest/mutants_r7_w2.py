"""Round 7, worker W2 (C03, C04, C05, C11): firing mutants and silent twins for the rules added in round 7
(positional unpacking of sequences that keep the file order of atoms, also through package functions that return them;
members of the structure parameter that are memoised although computed from its mutable residue list; stackings recorded in
a set before sorted())."""


def M(id, props, file, old, new, rule=None, kind="fire", count=1, **kw):
    return dict(id=id, props=props if isinstance(props, list) else [props], file=file, old=old, new=new, rule=rule, kind=kind, count=count, **kw)


AN, TT = "annotator.py", "tertiary.py"
E = []
A = E.append
PUR = '            n9 = self.find_atom("N9")\n            n7 = self.find_atom("N7")\n            n3 = self.find_atom("N3")\n'

# ---- positional-atom: names unpacked from a sequence in the order of Residue3D.atoms (clean tree and seed C05-s)
A(M("r7-unpack-file-order", "C05", TT, PUR, '            n9, n7, n3 = [a for a in self.atoms if a.name in ("N9", "N7", "N3")]\n', "positional-atom"))
A(M("r7-unpack-by-name-silent", "C05", TT, PUR, '            n9, n7, n3 = [self.find_atom(n) for n in ("N9", "N7", "N3")]\n', kind="silent"))
A(M("r7-find-atoms-by-name-silent", "C05", TT, "        found = tuple(atom for atom in self.atoms if atom.name in atom_names)\n", "        found = tuple(a for a in map(self.find_atom, atom_names) if a is not None)\n", kind="silent", base="C05-s"))

# ---- structure-state: seed C04-r memoises Structure3D.base_centers although it is computed from the mutable residue list
A(M("r7-centers-uncached-silent", "C04", TT, "    @cached_property\n    def base_centers(self)", "    @property\n    def base_centers(self)", kind="silent", base="C04-r"))
A(M("r7-centers-cached-behind-property", "C04", TT, "    @cached_property\n    def base_centers(self)", "    @property\n    def base_centers(self):\n        return self.cached_base_centers\n\n    @cached_property\n    def cached_base_centers(self)", "structure-state", base="C04-r"))

# ---- sorted-emission: the recorded stackings must keep their discovery order up to sorted()
SET = [("    pairs = []\n", "    pairs = set()\n")] + [(f'pairs.append(({a}, {b}, "{t}"))', f'pairs.add(({a}, {b}, "{t}"))') for a, b, t in (("residue_i", "residue_j", "upward"), ("residue_i", "residue_j", "inward"), ("residue_j", "residue_i", "downward"), ("residue_j", "residue_i", "outward"))]
A(M("r7-stackings-in-set", "C11", AN, None, None, "sorted-emission", edits=SET))
A(M("r7-stackings-list-call-silent", ["C11", "C04"], AN, "    pairs = []\n", "    pairs = list()\n", kind="silent"))

# ---- C04-r10: the pair loop lives in a generator helper consumed once by find_stackings (read as the loop it stands for)
B410 = dict(base="C04-r10")
A(M("r7-gen-orientation-lost", ["C04", "C11"], AN, "            else (residue_j, residue_i, topology)\n", "            else (residue_i, residue_j, topology)\n", None, **B410))
A(M("r7-gen-labels-swapped", "C04", AN, '    (True, False): "inward",\n    (False, True): "downward",\n', '    (True, False): "downward",\n    (False, True): "inward",\n', "stack-labels", **B410))
A(M("r7-gen-normal-angle-unit", "C04", AN, "    if math.degrees(angle) > STACKING_MAX_ANGLE_BETWEEN_NORMALS:\n        return False\n", "    if angle > STACKING_MAX_ANGLE_BETWEEN_NORMALS:\n        return False\n", None, **B410))
A(M("r7-gen-unsorted", ["C04", "C11"], AN, "    pairs = sorted(generate_stacked_pairs(coordinates, coordinates_residue_map))\n", "    pairs = list(generate_stacked_pairs(coordinates, coordinates_residue_map))\n", None, **B410))
A(M("r7-gen-order-test-silent", ["C04", "C11"], AN, "        in_order = bool(residue_i < residue_j)\n", "        in_order = residue_i < residue_j\n", kind="silent", **B410))

# ---- C03-r10: the label loop lives in a generator helper whose sequence a second (inlined) helper counts
B310 = dict(base="C03-r10")
A(M("r7-gen-edges-not-swapped", "C03", AN, "                yield residue_j, residue_i, cis_trans, edge_j, edge_i\n", "                yield residue_j, residue_i, cis_trans, edge_i, edge_j\n", None, **B310))
A(M("r7-gen-residues-not-swapped", ["C03", "C11"], AN, "                yield residue_j, residue_i, cis_trans, edge_j, edge_i\n", "                yield residue_i, residue_j, cis_trans, edge_j, edge_i\n", None, **B310))
A(M("r7-gen-single-bond-pair", "C03", AN, "        if hydrogen_bond_count < 2:\n", "        if hydrogen_bond_count < 1:\n", None, **B310))
A(M("r7-gen-occupied-one-side", "C03", AN, "        occupied.update(sides)\n", "        occupied.update(sides[:1])\n", None, **B310))
A(M("r7-gen-none-test-order-silent", ["C03", "C11"], AN, "        if edges_i is None or edges_j is None:\n", "        if edges_j is None or edges_i is None:\n", kind="silent", **B310))

# ---- C03-r11: dispatch tables keyed by the test `one_letter_name in "AG"` read like the branch they replace
B311 = dict(base="C03-r11")
A(M("r7-table-plane-atoms-order", ["C03", "C04"], TT, '    True: ("N9", "N7", "N3"),\n', '    True: ("N9", "N3", "N7"),\n', "base-normal", **B311))
A(M("r7-table-plane-atoms-pyrimidine", ["C03", "C04"], TT, '    False: ("N1", "C4", "O2"),\n', '    False: ("N1", "C2", "O2"),\n', "base-normal", **B311))
A(M("r7-table-glycosidic-swapped", ["C03", "C18"], AN, 'GLYCOSIDIC_NITROGEN = {True: "N9", False: "N1"}', 'GLYCOSIDIC_NITROGEN = {True: "N1", False: "N9"}', "cis-trans-atoms", **B311))
A(M("r7-table-key-order-silent", ["C03", "C18"], AN, 'GLYCOSIDIC_NITROGEN = {True: "N9", False: "N1"}', 'GLYCOSIDIC_NITROGEN = {False: "N1", True: "N9"}', kind="silent", **B311))
