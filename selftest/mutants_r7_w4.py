"""Round 7, worker W4 (C06, C14, C17, C18, C19, C20): firing mutants and silent twins for the rules generalised in round 7.
One file per (sub-)worker; each exports the list E, imported by selftest/mutants.py."""


def M(id, props, file, old, new, rule=None, kind="fire", count=1, **kw):
    return dict(id=id, props=props if isinstance(props, list) else [props], file=file, old=old, new=new, rule=rule, kind=kind, count=count, **kw)


E = []
A = E.append

CM, AN = "common.py", "annotator.py"

# ---- C14: sorted(set) without a key orders by the elements' own `<`; a class whose __lt__ reads less than its equality (Residue3D) leaves
# unequal elements unordered and the stable sort keeps them in set order (stored instance: C14-s, stackings collected in a set)
SETEDITS = [
    ("    # find all stacking interaction\n    pairs = []\n", "    # find all stacking interaction\n    pairs = set()\n"),
    ('pairs.append((residue_i, residue_j, "upward"))', 'pairs.add((residue_i, residue_j, "upward"))'),
    ('pairs.append((residue_i, residue_j, "inward"))', 'pairs.add((residue_i, residue_j, "inward"))'),
    ('pairs.append((residue_j, residue_i, "downward"))', 'pairs.add((residue_j, residue_i, "downward"))'),
    ('pairs.append((residue_j, residue_i, "outward"))', 'pairs.add((residue_j, residue_i, "outward"))'),
]
A(M("c14-r7-sorted-set-partial-order", "C14", AN, None, None, "order-taint", edits=SETEDITS))
A(M("c14-r7-min-of-residue-set", "C14", AN, "    stackings = []\n    for residue_i, residue_j, topology in sorted(pairs):", "    first = min({residue for residue, _, _ in pairs}) if pairs else None\n    logging.debug(f\"first stacked residue {first}\")\n    stackings = []\n    for residue_i, residue_j, topology in sorted(pairs):", "order-taint"))
DICTEDITS = [(a, b.replace("pairs = set()", "pairs = {}").replace("pairs.add((", "pairs.setdefault((").replace('"))', '"), None)')) for a, b in SETEDITS]
A(M("c14-r7-dict-as-ordered-set-silent", "C14", AN, None, None, kind="silent", edits=DICTEDITS))
A(M("c14-r7-sorted-set-of-numbers-silent", "C14", AN, "    stackings = []\n    for residue_i, residue_j, topology in sorted(pairs):", "    numbers = sorted({residue.number for residue, _, _ in pairs})\n    logging.debug(f\"stacked residue numbers {numbers}\")\n    stackings = []\n    for residue_i, residue_j, topology in sorted(pairs):", kind="silent"))

# ---- C14: a record that is serialised attribute by attribute must not grow instance state on a read (stored instance: C14-r,
# Stem.length as a cached_property; orjson writes what is in the object's __dict__)
STEM = "@dataclass\nclass Stem:\n    strand5p: Strand\n    strand3p: Strand\n"
A(M("c14-r7-cached-property-on-record", "C14", CM, STEM, STEM + "\n    @cached_property\n    def span(self) -> int:\n        return self.strand3p.last - self.strand5p.first + 1\n", "serialised-record-state"))
A(M("c14-r7-lazy-attribute-on-record", "C14", CM, STEM, STEM + "\n    def span(self) -> int:\n        if not hasattr(self, \"_span\"):\n            self._span = self.strand3p.last - self.strand5p.first + 1\n        return self._span\n", "serialised-record-state"))
A(M("c14-r7-plain-property-on-record-silent", "C14", CM, STEM, STEM + "\n    @property\n    def span(self) -> int:\n        return self.strand3p.last - self.strand5p.first + 1\n", kind="silent"))
