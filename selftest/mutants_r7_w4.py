"""Round 7, worker W4 (C06, C14, C17, C18, C19, C20): firing mutants and silent twins for the rules generalised in round 7.
One file per (sub-)worker; each exports the list E, imported by selftest/mutants.py."""


def M(id, props, file, old, new, rule=None, kind="fire", count=1, **kw):
    return dict(id=id, props=props if isinstance(props, list) else [props], file=file, old=old, new=new, rule=rule, kind=kind, count=count, **kw)


E = []
A = E.append
