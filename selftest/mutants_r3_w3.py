"""Round 3, worker W3 (C08, C09, C10, C15): firing mutants and silent twins for the rules that became evaluated / fact rules.
Most sit on top of a stored behaviour-preserving refactor (base=...), so the rule has to decide rewritten code."""

def M(id, props, file, old, new, rule=None, kind="fire", count=1, **kw):
    return dict(id=id, props=props if isinstance(props, list) else [props], file=file, old=old, new=new, rule=rule, kind=kind, count=count, **kw)


PA, P2, T2 = "parser.py", "parser_v2.py", "tertiary_v2.py"
E = []
A = E.append

# ---- C08 group_atoms, evaluated (bases: itertools.groupby forms of round 3)
G4 = dict(base="C15-r4")
A(M("c08e-r4-key-no-model", ["C08"], PA, None, None, "identity-key-model", edits=[
    ("    for (label, auth, model), group in itertools.groupby(\n        atoms, key=lambda atom: (atom.label, atom.auth, atom.model)\n    ):\n        residue_atoms = tuple(group)\n",
     "    for (label, auth), group in itertools.groupby(\n        atoms, key=lambda atom: (atom.label, atom.auth)\n    ):\n        residue_atoms = tuple(group)\n        model = residue_atoms[0].model\n")], **G4))
A(M("c08e-r4-drop-first-atom", ["C08"], PA, "        residue_atoms = tuple(group)\n", "        residue_atoms = tuple(group)[1:] or tuple(group)\n", "group-runs", **G4))
A(M("c08e-r4-sorted-runs", ["C08"], PA, "    for (label, auth, model), group in itertools.groupby(\n        atoms, key=lambda atom: (atom.label, atom.auth, atom.model)\n    ):", "    for (label, auth, model), group in itertools.groupby(\n        sorted(atoms, key=lambda atom: (str(atom.label), str(atom.auth), atom.model)), key=lambda atom: (atom.label, atom.auth, atom.model)\n    ):", "group-runs", **G4))
A(M("c08e-r4-key-rename-silent", ["C08", "C15", "C05"], PA, "atoms, key=lambda atom: (atom.label, atom.auth, atom.model)", "atoms, key=lambda a: (a.label, a.auth, a.model)", kind="silent", **G4))
A(M("c08e-r3-list-not-tuple", ["C08"], PA, "build_residue(label, auth, model, tuple(group), modified, sequence_by_entity)", "build_residue(label, auth, model, list(group), modified, sequence_by_entity)", "group-runs", base="C08-r3"))
A(M("c08e-r5-local-helper-key", ["C08"], PA, "atoms, key=lambda atom: (atom.label, atom.auth, atom.model)", "atoms, key=lambda atom: (atom.label, atom.auth, 1)", "identity-key-model", base="C05-r4"))

# ---- C08 parse_pdb record loop, evaluated
A(M("c08e-stop-at-endmdl", ["C08"], PA, "            modified[auth] = standard_residue_name\n\n    atoms = filter_clashing_atoms", "            modified[auth] = standard_residue_name\n        elif line.startswith(\"ENDMDL\"):\n            break\n\n    atoms = filter_clashing_atoms", "pdb-record-loop"))
A(M("c08e-stop-at-ter", ["C08"], PA, "            modified[auth] = standard_residue_name\n\n    atoms = filter_clashing_atoms", "            modified[auth] = standard_residue_name\n        elif line[:3] == \"TER\":\n            break\n\n    atoms = filter_clashing_atoms", "pdb-record-loop"))
A(M("c08e-stop-at-end-only-silent", ["C08", "C15"], PA, "            modified[auth] = standard_residue_name\n\n    atoms = filter_clashing_atoms", "            modified[auth] = standard_residue_name\n        elif line.startswith(\"END\") and not line.startswith(\"ENDMDL\"):\n            break\n\n    atoms = filter_clashing_atoms", kind="silent"))
A(M("c08e-anisou-as-atom", ["C08"], PA, 'elif line.startswith("ATOM") or line.startswith("HETATM"):', 'elif line.startswith("A") or line.startswith("HETATM"):', "pdb-atom-branch"))
A(M("c08e-x-column", ["C08", "C15"], PA, "x = float(line[30:38].strip())", "x = float(line[31:38].strip())", "pdb-columns"))
A(M("c08e-int-nostrip-silent", ["C08", "C15"], PA, "residue_number = int(line[22:26].strip())", "residue_number = int(line[22:26])", kind="silent"))
A(M("c08e-slice-helper-silent", ["C08", "C15"], PA, None, None, kind="silent", edits=[
    ("def parse_pdb(\n", "def _field(line, first, last):\n    return line[first - 1 : last].strip()\n\n\ndef parse_pdb(\n"),
    ("            atom_name = line[12:16].strip()\n            residue_name = line[17:20].strip()\n", "            atom_name = _field(line, 13, 16)\n            residue_name = _field(line, 18, 20)\n")]))
A(M("c08e-slice-helper-off-by-one", ["C08"], PA, None, None, "pdb-columns", edits=[
    ("def parse_pdb(\n", "def _field(line, first, last):\n    return line[first:last].strip()\n\n\ndef parse_pdb(\n"),
    ("            atom_name = line[12:16].strip()\n            residue_name = line[17:20].strip()\n", "            atom_name = _field(line, 13, 16)\n            residue_name = _field(line, 18, 20)\n")]))

# ---- C08 duplicate / clash / model selection on the guard-clause form (base C08-r4)
R4 = dict(base="C08-r4")
A(M("c08e-r4-dup-lower-wins", ["C08"], PA, "if current.occupancy is None or atom.occupancy > current.occupancy:", "if current.occupancy is None or atom.occupancy < current.occupancy:", "occupancy-wins", **R4))
A(M("c08e-r4-dup-none-guard", ["C08"], PA, "        if atom.occupancy is None:\n            continue\n", "", "optional-occupancy", **R4))
A(M("c08e-r4-dup-first-silent", ["C08"], PA, "        if current is None:\n", "        if key not in unique_atoms:\n", kind="silent", **R4))
A(M("c08e-r4-clash-loser", ["C08"], PA, "atoms_to_keep.discard(j if first.occupancy > second.occupancy else i)", "atoms_to_keep.discard(i if first.occupancy > second.occupancy else j)", "clash-loser", **R4))
A(M("c08e-r4-clash-model", ["C08"], PA, "            first.model != second.model\n            or first.occupancy is None", "            first.occupancy is None", "clash-same-model", **R4))
A(M("c08e-r4-model-last", ["C08"], PA, "model = list(atoms_by_model.keys())[0]", "model = list(atoms_by_model.keys())[-1]", "model-selection", **R4))
A(M("c08e-r4-model-truthy", ["C08"], PA, "if model is None or model not in atoms_by_model:", "if not model or model not in atoms_by_model:", "model-selection", **R4))
A(M("c08e-r4-model-min", ["C08"], PA, "model = list(atoms_by_model.keys())[0]", "model = min(atoms_by_model)", "model-selection", **R4))
A(M("c08e-r4-model-next-silent", ["C08"], PA, "model = list(atoms_by_model.keys())[0]", "model = next(iter(atoms_by_model))", kind="silent", **R4))
A(M("c08e-r4-wrong-reader", ["C08"], PA, "parse = parse_cif if is_cif(cif_or_pdb) else parse_pdb", "parse = parse_pdb if is_cif(cif_or_pdb) else parse_cif", "model-selection", **R4))

# ---- C09 write_pdb, evaluated (base C09-r3: TER helper + output helper)
W3 = dict(base="C09-r3")
A(M("c09e-r3-no-reset", ["C09"], P2, "            last_chain_id = None\n            last_res_info = None\n", "", "record-order", **W3))
A(M("c09e-r3-ter-only-on-chain-change", ["C09"], P2, "                if last_chain_id is not None:\n                    ter_line = _format_pdb_ter_line(\n                        last_serial, last_chain_id, last_res_info\n                    )\n                    buffer.write(ter_line + \"\\n\")\n", "", "record-order", **W3))
A(M("c09e-r3-cmp-swap-silent", ["C09"], P2, "if last_chain_id is not None and current_chain_id != last_chain_id:", "if last_chain_id is not None and last_chain_id != current_chain_id:", kind="silent", **W3))
A(M("c09e-r3-ter-serial", ["C09"], P2, "    ter_serial = str(last_serial + 1).rjust(5)\n    ter_res_name = res_name.strip().rjust(3)", "    ter_serial = str(last_serial).rjust(5)\n    ter_res_name = res_name.strip().rjust(3)", "ter-line", **W3))
A(M("c09e-r3-ter-width", ["C09"], P2, "    return ter_line.ljust(80)\n\n\ndef _deliver_content", "    return ter_line.ljust(79)\n\n\ndef _deliver_content", "ter-line", **W3))
A(M("c09e-r3-ter-icode-or-silent", ["C09"], P2, '    ter_icode = icode if icode else ""\n', '    ter_icode = icode or ""\n', kind="silent", **W3))
A(M("c09e-r3-endmdl-missing", ["C09"], P2, "    if last_model_num is not None:\n        buffer.write(\"ENDMDL\\n\")\n\n    buffer.write(\"END\\n\")", "    buffer.write(\"END\\n\")", "record-order", **W3))
A(M("c09e-key-one-producer", ["C09"], P2, '"record_name": row.get("group_PDB", "ATOM"),', '"record_type": row.get("group_PDB", "ATOM"),', ["atom-data-keys", "pdb-round-trip"]))
A(M("c09e-key-renamed-everywhere-silent", ["C09", "C10", "C15"], P2, None, None, kind="silent", edits=[
    ('record_name = atom_data.get("record_name", "ATOM").ljust(6)', 'record_name = atom_data.get("group", "ATOM").ljust(6)'),
    ('"record_name": row.get("record_type", "ATOM"),', '"group": row.get("record_type", "ATOM"),'),
    ('"record_name": row.get("group_PDB", "ATOM"),', '"group": row.get("group_PDB", "ATOM"),')]))
A(M("c09e-key-missing-default", ["C09"], P2, '                "tempFactor": float(row.get("B_iso_or_equiv", 0.0)),\n', "", ["atom-data-keys", "pdb-round-trip", "field-map-cif-to-pdb"]))
A(M("c09e-r4-optional-slice", ["C09", "C15"], P2, '"altLoc": _none_if_blank(line[16:17]),', '"altLoc": _none_if_blank(line[15:16]),', ["pdb-slices-v2", "writer-reader-columns"], base="C09-r4"))
A(M("c09e-r4-blank-not-none", ["C09"], P2, "    return stripped if stripped else None\n", "    return stripped\n", "null-agreement", base="C09-r4"))

# ---- C10 (bases C10-r3: tables + guard clauses, C10-r4: second half rewritten)
F3, F4 = dict(base="C10-r3"), dict(base="C10-r4")
A(M("c10e-chain-wraps", ["C10"], P2, "orig_chain: available_chain_ids[i] for i, orig_chain in enumerate(unique_chains)", "orig_chain: available_chain_ids[i % 26] for i, orig_chain in enumerate(unique_chains)", "chain-map"))
A(M("c10e-chain-keep-valid-correct-silent", ["C10"], P2, "    chain_mapping = {\n        orig_chain: available_chain_ids[i] for i, orig_chain in enumerate(unique_chains)\n    }\n",
    "    kept = {c for c in unique_chains if c in available_chain_ids}\n    free = (c for c in available_chain_ids if c not in kept)\n    chain_mapping = {}\n    for orig_chain in unique_chains:\n        chain_mapping[orig_chain] = orig_chain if orig_chain in kept else next(free)\n", kind="silent"))
A(M("c10e-chain-keep-valid-wrong", ["C10"], P2, "    chain_mapping = {\n        orig_chain: available_chain_ids[i] for i, orig_chain in enumerate(unique_chains)\n    }\n",
    "    free = iter(available_chain_ids)\n    chain_mapping = {}\n    for orig_chain in unique_chains:\n        chain_mapping[orig_chain] = orig_chain if orig_chain in available_chain_ids else next(free)\n", "chain-map"))
A(M("c10e-chain-first-letter", ["C10"], P2, "orig_chain: available_chain_ids[i] for i, orig_chain in enumerate(unique_chains)", "orig_chain: str(orig_chain)[:1] for i, orig_chain in enumerate(unique_chains)", "chain-map"))
A(M("c10e-r3-limit-serial", ["C10"], P2, '("id", _number_above(99999)),', '("id", _number_above(999999)),', "fit-test", **F3))
A(M("c10e-r3-limit-chain", ["C10"], P2, '("auth_asym_id", _text_longer_than(1)),', '("auth_asym_id", _text_longer_than(2)),', "fit-test", **F3))
A(M("c10e-r3-factory-ge", ["C10"], P2, 'return lambda column: pd.to_numeric(column, errors="coerce").max() > limit', 'return lambda column: pd.to_numeric(column, errors="coerce").max() >= limit', "fit-test", **F3))
A(M("c10e-r3-row-dropped", ["C10"], P2, '    ("auth_seq_id", _number_above(9999)),  # residue sequence number\n', "", "fit-test", **F3))
A(M("c10e-r3-demorgan-silent", ["C10"], P2, "        if column not in df.columns or exceeds_limit(df[column]):", "        if not (column in df.columns and not exceeds_limit(df[column])):", kind="silent", **F3))
A(M("c10e-r3-count-number-only", ["C10"], P2, 'return chain_atoms[["resSeq", "iCode"]].drop_duplicates().shape[0]', 'return chain_atoms[["resSeq"]].drop_duplicates().shape[0]', "feasibility", **F3))
A(M("c10e-r3-count-rename-silent", ["C10"], P2, None, None, kind="silent", edits=[("    def count_residues(chain_atoms: pd.DataFrame) -> int:\n        return chain_atoms[", "    def n_distinct(part: pd.DataFrame) -> int:\n        return part["), ('check_df.groupby("chain").apply(count_residues)', 'check_df.groupby("chain").apply(n_distinct)')], **F3))
A(M("c10e-r3-columns-label", ["C10"], P2, '("mmCIF", ("id", "auth_asym_id", "auth_seq_id", "pdbx_PDB_ins_code")),', '("mmCIF", ("id", "label_asym_id", "auth_seq_id", "pdbx_PDB_ins_code")),', "column-selection", **F3))
A(M("c10e-r3-columns-order", ["C10"], P2, "            serial_col, chain_col, resseq_col, icode_col = columns", "            serial_col, resseq_col, chain_col, icode_col = columns", "column-selection", **F3))
A(M("c10e-r4-store-other-column", ["C10"], P2, "        values = df_fitted[col]\n", '        values = df_fitted["name"]\n', "frame-condition", **F4))
A(M("c10e-r4-no-add-category", ["C10"], P2, '        if "" not in df_fitted[col].cat.categories:\n            # Add \'\' category explicitly before fillna\n            df_fitted[col] = df_fitted[col].cat.add_categories([""])\n', "", "dtype-typestate", **F4))
A(M("c10e-r4-in-test-silent", ["C10"], P2, '        if "" not in df_fitted[col].cat.categories:', '        if not ("" in df_fitted[col].cat.categories):', kind="silent", **F4))
A(M("c10e-r4-rename-label-first", ["C10"], P2, '        (atom_name_col, "name"),', '        ("label_atom_id", "name"),', "rename-coverage", **F4))
A(M("c10e-r4-rename-both", ["C10"], P2, '        (atom_name_col, "name"),', '        (atom_name_col, "name"),\n        ("label_atom_id", "name"),', "rename-injective", **F4))
A(M("c10e-r4-rename-missing-item", ["C10"], P2, '        ("B_iso_or_equiv", "tempFactor"),\n', "", "rename-coverage", **F4))
A(M("c10e-r4-serial-step", ["C10"], P2, "current_serial += 2 if chain_changed else 1", "current_serial += 1 if chain_changed else 1", "serial-renumber", **F4))

# ---- C15 grouping key, evaluated (base C15-r3)
S3 = dict(base="C15-r3")
A(M("c15e-r3-auth-or", ["C15"], T2, 'has_auth = "auth_asym_id" in columns and "auth_seq_id" in columns', 'has_auth = "auth_asym_id" in columns or "auth_seq_id" in columns', "group-columns", **S3))
A(M("c15e-r3-no-icode", ["C15"], T2, '            if "pdbx_PDB_ins_code" in columns:\n                groupby_cols.append("pdbx_PDB_ins_code")\n', "", "group-columns", **S3))
A(M("c15e-r3-dropna", ["C15"], T2, "grouped = self.atoms.groupby(groupby_cols, dropna=False, observed=False)", "grouped = self.atoms.groupby(groupby_cols, observed=False)", "group-columns", **S3))
A(M("c15e-r3-pdb-order", ["C15"], T2, 'col for col in ("chainID", "resSeq", "iCode") if col in columns', 'col for col in ("resSeq", "chainID", "iCode") if col in columns', "group-columns", **S3))
A(M("c15e-r3-prefix-silent", ["C15"], T2, 'prefix = "auth" if has_auth else "label"', 'prefix = "label" if not has_auth else "auth"', kind="silent", **S3))

# ---- other shapes of the same code: the evaluated rules must stay silent (and evaluable)
A(M("c08e-iterate-file-silent", ["C08", "C15"], PA, "    for line in pdb.readlines():\n        if line.startswith(\"MODEL\"):", "    for line in pdb:\n        if line.startswith(\"MODEL\"):", kind="silent"))
A(M("c08e-splitlines-silent", ["C08", "C15"], PA, "    for line in pdb.readlines():\n        if line.startswith(\"MODEL\"):", "    for line in pdb.read().splitlines():\n        if line.startswith(\"MODEL\"):", kind="silent"))
A(M("c08e-record-name-slice-silent", ["C08", "C15"], PA, 'elif line.startswith("ATOM") or line.startswith("HETATM"):', 'elif line[:6] in ("ATOM  ", "HETATM"):', kind="silent"))
A(M("c08e-record-name-strip", ["C08"], PA, 'elif line.startswith("ATOM") or line.startswith("HETATM"):', 'elif line.split()[0] in ("ATOM", "HETATM"):', ["pdb-atom-branch", "pdb-record-loop"]))
