"""Round 5, worker W4 (C06, C14, C17, C18, C19, C20): firing mutants and silent twins for the rules generalised in round 5.
One file per (sub-)worker; each exports the list E, imported by selftest/mutants.py."""


def M(id, props, file, old, new, rule=None, kind="fire", count=1, **kw):
    return dict(id=id, props=props if isinstance(props, list) else [props], file=file, old=old, new=new, rule=rule, kind=kind, count=count, **kw)


E = []
A = E.append

# ======================================================================================================================
# sub-worker W4-c18 (C18; C15's chi part)
# * clip-noop as a fact: the clipped quantity is k * cos(phi), sup of the monomial k over the property's domain must be <= 1
# * the algebra reads sequences / comprehensions / zip / module helpers with guard clauses / two-way assignment blocks,
#   degenerate guards written with any() / all()            (bases: clean tree and the stored refactor C18-r7)
# * borrowed-array-write (sa/alias.py)
# * the tertiary_v2 torsion table with static helpers of the class (base C18-r6), chi dispatch through a dict (base C18-r7)
# ======================================================================================================================
TT, T2 = "tertiary.py", "tertiary_v2.py"
R6, R7 = dict(base="C18-r6"), dict(base="C18-r7")

_NORM3 = "    v1_norm = v1 / numpy.linalg.norm(v1) if numpy.linalg.norm(v1) > 1e-6 else v1\n    v2_norm = v2 / numpy.linalg.norm(v2) if numpy.linalg.norm(v2) > 1e-6 else v2\n    v3_norm = v3 / numpy.linalg.norm(v3) if numpy.linalg.norm(v3) > 1e-6 else v3\n"
_CLIP = "    dot_t1_t2 = numpy.clip(dot_t1_t2, -1.0, 1.0)\n"
_COMMON = "    scale = numpy.linalg.norm({0})\n    if scale > 1e-6:\n        v1_norm, v2_norm, v3_norm = v1 / scale, v2 / scale, v3 / scale\n    else:\n        v1_norm, v2_norm, v3_norm = v1, v2, v3\n"
A(M("c18k-common-scale-v1", "C18", TT, _NORM3, _COMMON.format("v1"), "clip-noop"))
A(M("c18k-common-scale-mean", "C18", TT, _NORM3, "    scale = (numpy.linalg.norm(v1) * numpy.linalg.norm(v2) * numpy.linalg.norm(v3)) / (numpy.linalg.norm(v1) * numpy.linalg.norm(v3))\n    v1_norm, v2_norm, v3_norm = [v / scale for v in (v1, v2, v3)]\n", "clip-noop"))
A(M("c18k-outer-bonds-raw", "C18", TT, _NORM3, "    v1_norm = v1\n    v2_norm = v2 / numpy.linalg.norm(v2) if numpy.linalg.norm(v2) > 1e-6 else v2\n    v3_norm = v3\n", "clip-noop"))
A(M("c18k-double-length", "C18", TT, _NORM3, "    v1_norm, v2_norm, v3_norm = [2 * v / numpy.linalg.norm(v) for v in (v1, v2, v3)]\n", "clip-noop"))
# the same common scale WITHOUT the clip is the dihedral (atan2 only needs the ratio): silent
A(M("c18k-common-scale-no-clip-silent", "C18", TT, None, None, kind="silent", edits=[(_NORM3, _COMMON.format("v2")), ("    # Clamp dot product arguments for acos/atan2 to avoid domain errors\n" + _CLIP, "")]))
A(M("c18k-half-length-silent", "C18", TT, _NORM3, "    v1_norm, v2_norm, v3_norm = [v / (2 * numpy.linalg.norm(v)) for v in (v1, v2, v3)]\n", kind="silent"))
A(M("c18k-zip-bonds-silent", "C18", TT, "    v1 = p2 - p1\n    v2 = p3 - p2\n    v3 = p4 - p3\n", "    v1, v2, v3 = [b - a for a, b in zip((p1, p2, p3), (p2, p3, p4))]\n", kind="silent"))
A(M("c18k-zip-bonds-shifted", "C18", TT, "    v1 = p2 - p1\n    v2 = p3 - p2\n    v3 = p4 - p3\n", "    v1, v2, v3 = [b - a for a, b in zip((p1, p2, p3), (p2, p4, p3))]\n", "torsion-closed-form"))
# on the refactor C18-r7 (bonds by zip, _normalized helper with a guard clause, any() guard)
A(M("c18k-r7-helper-times-length", "C18", TT, "        return vector / length\n", "        return vector * length\n", "clip-noop", **R7))
A(M("c18k-r7-helper-central-only", "C18", TT, "    v1_norm, v2_norm, v3_norm = [_normalized(bond) for bond in bonds]\n", "    v1_norm, v2_norm, v3_norm = bonds[0], _normalized(bonds[1]), bonds[2]\n", "clip-noop", **R7))
A(M("c18k-r7-bonds-reversed", "C18", TT, "    bonds = [end - start for start, end in zip(points, points[1:])]\n", "    bonds = [start - end for start, end in zip(points, points[1:])]\n", "torsion-closed-form", **R7))
A(M("c18k-r7-bonds-skip", "C18", TT, "    bonds = [end - start for start, end in zip(points, points[1:])]\n", "    bonds = [end - start for start, end in zip(points, points[1:])]\n    bonds[2] = p4 - p2\n", kind="unrecognised", **R7))
A(M("c18k-r7-any-wide", "C18", TT, "    if any(numpy.linalg.norm(normal) < 1e-6 for normal in (t1, t2)):\n", "    if any(numpy.linalg.norm(normal) < 0.05 for normal in (t1, t2)):\n", "degenerate-guard", **R7))
A(M("c18k-r7-any-bonds", "C18", TT, "    if any(numpy.linalg.norm(normal) < 1e-6 for normal in (t1, t2)):\n", "    if any(numpy.linalg.norm(normal) < 1e-6 for normal in (t1, t2, numpy.cross(v1_norm, v3_norm))):\n", "degenerate-guard", **R7))
A(M("c18k-r7-not-all-silent", "C18", TT, "    if any(numpy.linalg.norm(normal) < 1e-6 for normal in (t1, t2)):\n", "    if not all(numpy.linalg.norm(normal) >= 1e-6 for normal in [t1, t2]):\n", kind="silent", **R7))
A(M("c18k-r7-helper-half-silent", "C18", TT, "        return vector / length\n", "        return vector / (2 * length)\n", kind="silent", **R7))
A(M("c18k-r7-helper-ifexp-silent", "C18", TT, "    if length > 1e-6:\n        return vector / length\n    return vector\n", "    return vector / length if length > 1e-6 else vector\n", kind="silent", **R7))

# ---- borrowed arrays ----------------------------------------------------------------------------------------------------------------
_MEAN = "        coordinates = [atom.coordinates for atom in base_atoms]\n        return numpy.mean(coordinates, axis=0)\n"
A(M("c18b-running-sum", "C18", TT, _MEAN, "        centroid = base_atoms[0].coordinates\n        for atom in base_atoms[1:]:\n            centroid += atom.coordinates\n        return centroid / len(base_atoms)\n", "borrowed-array-write"))
A(M("c18b-list-element-sum", "C18", TT, _MEAN, "        coordinates = [atom.coordinates for atom in base_atoms]\n        total = coordinates[0]\n        for xyz in coordinates[1:]:\n            total += xyz\n        return total / len(coordinates)\n", "borrowed-array-write"))
A(M("c18b-out-argument", "C18", TT, _MEAN, "        centroid = base_atoms[0].coordinates\n        for atom in base_atoms[1:]:\n            numpy.add(centroid, atom.coordinates, out=centroid)\n        return centroid / len(base_atoms)\n", "borrowed-array-write"))
A(M("c18b-slice-store", "C18", TT, _MEAN, "        centroid = base_atoms[0].coordinates\n        centroid[:] = numpy.mean([atom.coordinates for atom in base_atoms], axis=0)\n        return centroid\n", "borrowed-array-write"))
A(M("c18b-scaled-in-loop", "C18", TT, _MEAN, "        coordinates = [atom.coordinates for atom in base_atoms]\n        for xyz in coordinates:\n            xyz /= len(base_atoms)\n        return sum(coordinates)\n", "borrowed-array-write"))
A(M("c18b-v2-parameter", "C18", T2, "    v1 = a2 - a1\n    v2 = a3 - a2\n    v3 = a4 - a3\n", "    a4 -= a3\n    a3 -= a2\n    a2 -= a1\n    v1, v2, v3 = a2, a3, a4\n", "borrowed-array-write"))
A(M("c18b-copy-silent", "C18", TT, _MEAN, "        centroid = base_atoms[0].coordinates.copy()\n        for atom in base_atoms[1:]:\n            centroid += atom.coordinates\n        return centroid / len(base_atoms)\n", kind="silent"))
A(M("c18b-zeros-silent", "C18", TT, _MEAN, "        centroid = numpy.zeros(3)\n        for atom in base_atoms:\n            centroid += atom.coordinates\n        return centroid / len(base_atoms)\n", kind="silent"))
A(M("c18b-rebinding-silent", "C18", TT, _MEAN, "        centroid = base_atoms[0].coordinates\n        for atom in base_atoms[1:]:\n            centroid = centroid + atom.coordinates\n        return centroid / len(base_atoms)\n", kind="silent"))
A(M("c18b-array-copy-silent", "C18", TT, _MEAN, "        centroid = numpy.array(base_atoms[0].coordinates)\n        for atom in base_atoms[1:]:\n            centroid += atom.coordinates\n        return centroid / len(base_atoms)\n", kind="silent"))

# ---- torsion table with static helpers (C18-r6) ---------------------------------------------------------------------------------------
A(M("c18e-r6-offset-sign", ["C18", "C15"], T2, "            res_idx = i + offset\n", "            res_idx = i - offset\n", "backbone-atoms", **R6))
A(M("c18e-r6-last-early", "C18", T2, "                        i == last and angle_name in needs_next\n", "                        i == last - 1 and angle_name in needs_next\n", "backbone-atoms", **R6))
A(M("c18e-r6-needs-previous", "C18", T2, '        needs_previous = {"alpha"}\n', '        needs_previous = {"alpha", "beta"}\n', "backbone-atoms", **R6))
A(M("c18e-r6-chi-table-swapped", ["C18", "C15"], T2, '            (["A", "G", "DA", "DG"], ("N9", "C4")),\n            (["C", "U", "T", "DC", "DT"], ("N1", "C2")),\n', '            (["A", "G", "DA", "DG"], ("N1", "C2")),\n            (["C", "U", "T", "DC", "DT"], ("N9", "C4")),\n', "chi-atoms", **R6))
A(M("c18e-r6-chi-order", "C18", T2, "                return [atom.coordinates for atom in sugar_atoms + base_atoms]\n", "                return [atom.coordinates for atom in base_atoms + sugar_atoms]\n", "chi-atoms", **R6))
A(M("c18e-r6-chi-names", "C18", T2, '            (["C", "U", "T", "DC", "DT"], ("N1", "C2")),\n', '            (["C", "U", "T", "DC", "DT", "PSU"], ("N1", "C2")),\n', "chi-bases", **R6))
A(M("c18e-r6-chi-fallthrough", "C18", T2, "                if any(atom is None for atom in base_atoms):\n                    return None\n", "                if any(atom is None for atom in base_atoms):\n                    continue\n", kind="silent", **R6))
A(M("c18e-r6-needs-next-silent", "C18", T2, '        needs_next = {"epsilon", "zeta"}\n', '        needs_next = frozenset(("zeta", "epsilon"))\n', kind="silent", **R6))
A(M("c18e-r6-len-check-silent", "C18", T2, "        return coordinates if len(coordinates) == 4 else None\n", "        return coordinates\n", kind="silent", **R6))
# ---- chi of Residue3D through a dispatch dict (C18-r7) -----------------------------------------------------------------------------------
A(M("c18e-r7-dispatch-g", ["C18", "C15"], TT, '            "G": self.__chi_purine,\n', '            "G": self.__chi_pyrimidine,\n', "chi-dispatch", **R7))
A(M("c18e-r7-fallback-order", "C18", TT, "        for definition in (self.__chi_purine, self.__chi_pyrimidine):\n", "        for definition in (self.__chi_pyrimidine, self.__chi_purine):\n", "chi-dispatch", **R7))
A(M("c18e-r7-no-upper", "C18", TT, "        definition = definitions.get(self.one_letter_name.upper())\n", "        definition = definitions.get(self.one_letter_name)\n", "chi-dispatch", **R7))
A(M("c18e-r7-helper-order", "C18", TT, '        for atom_name in ("O4\'", "C1\'", base_atom1, base_atom2):\n', '        for atom_name in ("O4\'", "C1\'", base_atom2, base_atom1):\n', "chi-atoms", **R7))
A(M("c18e-r7-any-all", "C18", TT, "        if any(atom is None for atom in atoms):\n            return math.nan\n        return torsion_angle(*atoms)  # type: ignore\n", "        if all(atom is None for atom in atoms):\n            return math.nan\n        return torsion_angle(*atoms)  # type: ignore\n", ["chi-atoms", "chi-dispatch"], **R7))
A(M("c18e-r7-list-silent", "C18", TT, "        for definition in (self.__chi_purine, self.__chi_pyrimidine):\n", "        for definition in [self.__chi_purine, self.__chi_pyrimidine]:\n", kind="silent", **R7))
