"""Round 7, worker W4 (C06, C14, C17, C18, C19, C20): firing mutants and silent twins for the rules generalised in round 7.
One file per (sub-)worker; each exports the list E, imported by selftest/mutants.py.

This file: C17 (sub-worker W4-c17).  Bases: C17-s (round-7 bug: radius table RADIUS_BY_ELEMENT with the N row cloned
from C), C17-r8 (radius dispatch table inside the property), C17-r10 (candidates mapped through a generator first)."""


def M(id, props, file, old=None, new=None, rule=None, kind="fire", count=1, **kw):
    d = dict(id=id, props=props if isinstance(props, list) else [props], file=file, rule=rule, kind=kind, count=count, **kw)
    if "edits" not in kw:
        d.update(old=old, new=new)
    return d


E = []
A = E.append
CF = "clashfinder.py"
S = dict(base="C17-s")
R8 = dict(base="C17-r8")
R10 = dict(base="C17-r10")

# atom-radii: every atom type evaluates to the radius of its own element (reference: spec/constants.json C17.vdw_radii)
A(M("c17e-s-table-repaired-silent", "C17", CF, "    \"N\": CARBON_RADIUS,\n", "    \"N\": NITROGEN_RADIUS,\n", kind="silent", **S))
A(M("c17e-s-table-literal-silent", "C17", CF, "    \"N\": CARBON_RADIUS,\n", "    \"N\": 0.54,\n", kind="silent", **S))
A(M("c17e-s-table-two-rows-swapped", "C17", CF, rule="atom-radii", edits=[("    \"N\": CARBON_RADIUS,\n", "    \"N\": OXYGEN_RADIUS,\n"), ("    \"O\": OXYGEN_RADIUS,\n", "    \"O\": NITROGEN_RADIUS,\n")], **S))
A(M("c17e-chain-branch-cloned", "C17", CF, "            return NITROGEN_RADIUS\n", "            return CARBON_RADIUS\n", "atom-radii"))
A(M("c17e-constants-swapped", "C17", CF, rule="atom-radii", edits=[("NITROGEN_RADIUS = 0.54\n", "NITROGEN_RADIUS = 0.53\n"), ("OXYGEN_RADIUS = 0.53\n", "OXYGEN_RADIUS = 0.54\n")]))
A(M("c17e-constants-renamed-silent", "C17", CF, kind="silent", edits=[("NITROGEN_RADIUS = 0.54\n", "VDW_RADIUS_N = 0.54\n"), ("            return NITROGEN_RADIUS\n", "            return VDW_RADIUS_N\n")]))
A(M("c17e-constant-in-angstrom-tenths", "C17", CF, rule="atom-radii", edits=[("PHOSPHORUS_RADIUS = 0.94\n", "PHOSPHORUS_RADIUS = 9.4\n")]))
A(M("c17e-r8-table-row-cloned", "C17", CF, "            \"O\": OXYGEN_RADIUS,\n", "            \"O\": NITROGEN_RADIUS,\n", "atom-radii", **R8))
A(M("c17e-r8-table-computed-silent", "C17", CF, "            \"O\": OXYGEN_RADIUS,\n", "            \"O\": NITROGEN_RADIUS - 0.01,\n", kind="silent", **R8))
# candidates handed on as (residue, atom) records: the closed world still reads the pair
A(M("c17e-r10-names-filter", "C17", CF, "        if not are_too_close(ai, aj, molprobity_factor):\n            continue\n", "        if not are_too_close(ai, aj, molprobity_factor):\n            continue\n        if ai.name == \"OP3\" or aj.name == \"OP3\":\n            continue\n", "option-extra-filter", **R10))
A(M("c17e-r10-autoclash-by-number", "C17", CF, "        if ignore_autoclashes is True and ri == rj:\n", "        if ignore_autoclashes is True and ri.number == rj.number:\n", "option-filter", **R10))
A(M("c17e-r10-list-of-records-silent", "C17", CF, "    candidates = (\n        (reference[i], reference[j]) for i, j in kdtree.query_pairs(search_radius)\n    )\n", "    candidates = [\n        (reference[i], reference[j]) for i, j in sorted(kdtree.query_pairs(search_radius))\n    ]\n", kind="silent", **R10))
