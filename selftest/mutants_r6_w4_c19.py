"""Round 6, worker W4 (C06, C14, C17, C18, C19, C20): firing mutants and silent twins for the rules generalised in round 6.
One file per (sub-)worker; each exports the list E, imported by selftest/mutants.py."""


def M(id, props, file, old, new, rule=None, kind="fire", count=1, **kw):
    return dict(id=id, props=props if isinstance(props, list) else [props], file=file, old=old, new=new, rule=rule, kind=kind, count=count, **kw)


E = []
A = E.append

# ---- C19 (W4-c19): dssr-eval evaluates the whole import with the code's own way of resolving names (scan, index built once, helper)
AD = "adapter.py"
R9 = dict(base="C19-r9")
MATCH_OLD = (
    "def match_dssr_name_to_residue(\n    structure3d: Structure3D, nt_id: Optional[str]\n) -> Optional[Residue]:\n"
    "    if nt_id is not None:\n        nt_id = nt_id.split(\":\")[-1]\n        for residue in structure3d.residues:\n            if residue.full_name == nt_id:\n                return residue\n"
)


def indexed(key="residue.full_name", stacks=None):
    """name index built once per import and handed to the matcher (pairs and stacks pass it); `key`: what the index is keyed by"""
    e = [
        (
            MATCH_OLD,
            "def build_dssr_name_index(structure3d: Structure3D) -> Dict[str, Residue]:\n    index: Dict[str, Residue] = {}\n    for residue in structure3d.residues:\n        index.setdefault(" + key + ", residue)\n    return index\n\n\n"
            "def match_dssr_name_to_residue(\n    structure3d: Structure3D,\n    nt_id: Optional[str],\n    index: Optional[Dict[str, Residue]] = None,\n) -> Optional[Residue]:\n"
            "    if nt_id is not None:\n        nt_id = nt_id.split(\":\")[-1]\n        if index is not None:\n            if nt_id in index:\n                return index[nt_id]\n        else:\n            for residue in structure3d.residues:\n                if residue.full_name == nt_id:\n                    return residue\n",
        ),
        ('    for pair in dssr.get("pairs", []):\n', '    index = build_dssr_name_index(structure3d)\n\n    for pair in dssr.get("pairs", []):\n'),
        ('match_dssr_name_to_residue(structure3d, pair.get("nt1", None))', 'match_dssr_name_to_residue(structure3d, pair.get("nt1", None), index)'),
        ('match_dssr_name_to_residue(structure3d, pair.get("nt2", None))', 'match_dssr_name_to_residue(structure3d, pair.get("nt2", None), index)'),
        ("            match_dssr_name_to_residue(structure3d, nt)\n", "            match_dssr_name_to_residue(structure3d, nt, index)\n"),
    ]
    return e + list(stacks or [])


A(M("c19-r6-name-index-silent", "C19", AD, None, None, kind="silent", edits=indexed()))
A(M("c19-r9-name-index-silent", "C19", AD, None, None, kind="silent", edits=indexed(), **R9))
A(M("c19-r6-name-index-lower-key", "C19", AD, None, None, ["dssr-eval"], edits=indexed(key="residue.full_name.lower()")))  # no name of the document is found in the index: every pair and stacking is lost
A(M("c19-r9-name-index-filter-before-pairing", "C19", AD, None, None, "dssr-eval", edits=indexed(stacks=[("        nts = [\n            match_dssr_name_to_residue(structure3d, nt, index)\n            for nt in stack.get(\"nts_long\", \"\").split(\",\")\n        ]\n", "        resolved = (\n            match_dssr_name_to_residue(structure3d, nt, index)\n            for nt in stack.get(\"nts_long\", \"\").split(\",\")\n        )\n        nts = [nt for nt in resolved if nt is not None]\n")]), **R9))
A(M("c19-r9-name-index-per-stack", "C19", AD, None, None, "dssr-eval", edits=indexed(stacks=[('    for stack in dssr.get("stacks", []):\n', '    for stack in dssr.get("stacks", []):\n        index = {name: index[name] for name in list(index)[: len(stack.get("nts_long", "").split(","))]}\n')]), **R9))  # the index shrinks with every stack read: later members no longer resolve
