"""Round 4, worker W4 (C06, C14, C17, C18, C19, C20): firing mutants and silent twins for the rules generalised in round 4.
One file per (sub-)worker; each exports the list E, imported by selftest/mutants.py."""


def M(id, props, file, old, new, rule=None, kind="fire", count=1, **kw):
    return dict(id=id, props=props if isinstance(props, list) else [props], file=file, old=old, new=new, rule=rule, kind=kind, count=count, **kw)


E = []
A = E.append

# ---- round 4: C20 (W4-c20).  Bases: clean tree and C20-r5 (= round-4 ref1: helpers read_data / write_data / find_category with merged guards,
# hoisted look-ups, row value read once into a local, negated guard with swapped arms, list(rows), default alphabet as a sum of string constants).
TR = "transformer.py"
B20R5 = dict(base="C20-r5")
_CALL_REPLACE = "            file_content, args.category, args.replace, args.values\n"
_CALL_COPY = "            file_content, args.category, args.copy_from, args.copy_to\n"
_VALUES_DECL = '        "--values",\n'

# cli-eval / cli-inplace-eval: an option value reaches the library as the text that was given (round-4 bug4 = C20-k: type=sorted(set(text)))
A(M("c20r4-cli-values-sorted-type", "C20", TR, "", "", ["cli-eval", "cli-inplace-eval"], edits=[("def main():", "def _symbols(text):\n    return \"\".join(sorted(text))\n\n\ndef main():"), (_VALUES_DECL, _VALUES_DECL + "        type=_symbols,\n")], **B20R5))
A(M("c20r4-cli-values-dedupe-keeps-order", "C20", TR, _CALL_REPLACE, "            file_content, args.category, args.replace, \"\".join(dict.fromkeys(args.values))\n", ["cli-eval", "cli-inplace-eval"], **B20R5))
A(M("c20r4-cli-values-set-order", "C20", TR, _CALL_REPLACE, "            file_content, args.category, args.replace, \"\".join(set(args.values))\n", ["cli-eval", "cli-inplace-eval"]))
A(M("c20r4-cli-values-upper", "C20", TR, _CALL_REPLACE, "            file_content, args.category, args.replace, args.values.upper()\n", ["cli-eval", "cli-inplace-eval"], **B20R5))
A(M("c20r4-cli-values-reversed", "C20", TR, _CALL_REPLACE, "            file_content, args.category, args.replace, args.values[::-1]\n", ["cli-eval", "cli-inplace-eval"]))
A(M("c20r4-cli-category-strip-type", "C20", TR, '        "--category", help=', '        "--category", type=str.strip, help=', ["cli-eval", "cli-inplace-eval"], **B20R5))
A(M("c20r4-cli-item-lower", "C20", TR, _CALL_COPY, "            file_content, args.category, args.copy_from.lower(), args.copy_to\n", ["cli-eval", "cli-inplace-eval"]))
A(M("c20r4-cli-type-str-silent", "C20", TR, _VALUES_DECL, _VALUES_DECL + "        type=str,\n", kind="silent", **B20R5))
A(M("c20r4-cli-identity-type-silent", "C20", TR, "", "", kind="silent", edits=[("def main():", "def _symbols(text):\n    return \"\".join(list(text))\n\n\ndef main():"), (_VALUES_DECL, _VALUES_DECL + "        type=_symbols,\n")], **B20R5))
A(M("c20r4-cli-join-chars-silent", "C20", TR, _CALL_REPLACE, "            file_content, args.category, args.replace, \"\".join(c for c in args.values)\n", kind="silent"))
# fallback (main not evaluable - a class instantiated in it): a value-changing declaration is 'not decided', never silent
A(M("c20r4-cli-fallback-type-undecided", "C20", TR, "", "", "cli-wiring", kind="unrecognised", edits=[('        "--category", help=', '        "--category", type=str.strip, help='), ("def main():", "class _Opts:\n    pass\n\n\ndef main():"), ("    args = parser.parse_args()\n", "    args = parser.parse_args()\n    opts = _Opts()\n")]))

# mapping-total: with fewer symbols than distinct values a normal return is never the image of an injective mapping into the alphabet
# (round-4 bug2 = C20-i: IndexError swallowed, surplus values mapped to themselves)
_R5_NEXT = "            mapping[old] = values[len(mapping)]\n"
A(M("c20r4-r5-surplus-kept-on-indexerror", "C20", TR, _R5_NEXT, "            try:\n                mapping[old] = values[len(mapping)]\n            except IndexError:\n                mapping[old] = old\n", "mapping-total", **B20R5))
A(M("c20r4-r5-surplus-doubled-symbols", "C20", TR, _R5_NEXT, "            k = len(mapping)\n            mapping[old] = values[k % len(values)] * (k // len(values) + 1)\n", "mapping-total", **B20R5))
A(M("c20r4-surplus-question-mark", "C20", TR, "            mapping[row[i]] = values[len(mapping)]\n", "            mapping[row[i]] = values[len(mapping)] if len(mapping) < len(values) else \"?\"\n", "mapping-total"))
A(M("c20r4-r5-indexerror-translated-silent", "C20", TR, _R5_NEXT, "            try:\n                mapping[old] = values[len(mapping)]\n            except IndexError:\n                raise ValueError(\"alphabet exhausted\")\n", kind="silent", **B20R5))
A(M("c20r4-r5-indexerror-reraised-silent", "C20", TR, _R5_NEXT, "            try:\n                mapping[old] = values[len(mapping)]\n            except IndexError:\n                raise\n", kind="silent", **B20R5))

# repeat-eval: call sequences in one process against fresh processes, results owned by the caller (round-4 bug1 = C20-h: lru_cache on the parse);
# the form rule memo-mutable (any memoising decorator) is only the fallback: a memo that cannot leak is silent
_IMP = ("import argparse\n", "import argparse\nfrom functools import lru_cache\n")
A(M("c20r4-r5-memo-keyed-by-source-item", "C20", TR, "", "", "repeat-eval", edits=[_IMP, ("def copy_from_to(", "@lru_cache(maxsize=None)\ndef parsed(file_content, category, item):\n    adapter = IoAdapterPy()\n    data = read_data(adapter, file_content)\n    return adapter, data, find_category(data, category, item)\n\n\ndef copy_from_to("), ("    adapter = IoAdapterPy()\n    data = read_data(adapter, file_content)\n    category_obj = find_category(data, category, copy_from)\n", "    adapter, data, category_obj = parsed(file_content, category, copy_from)\n")], **B20R5))
A(M("c20r4-memo-whole-replace-shares-mapping", "C20", TR, "", "", "repeat-eval", edits=[_IMP, ("def replace_value(", "@lru_cache(maxsize=None)\ndef replace_value(")]))
A(M("c20r4-r5-memo-whole-replace-shares-mapping", "C20", TR, "", "", "repeat-eval", edits=[_IMP, ("def replace_value(", "@lru_cache(maxsize=None)\ndef replace_value(")], **B20R5))
A(M("c20r4-memo-whole-copy-silent", "C20", TR, "", "", kind="silent", edits=[_IMP, ("def copy_from_to(", "@lru_cache(maxsize=None)\ndef copy_from_to(")]))
A(M("c20r4-r5-memo-per-adapter-silent", "C20", TR, "", "", kind="silent", edits=[_IMP, ("def read_data(", "@lru_cache(maxsize=None)\ndef read_data(")], **B20R5))
A(M("c20r4-r5-memo-alphabet-silent", "C20", TR, "", "", kind="silent", edits=[_IMP, ("def copy_from_to(", "@lru_cache(maxsize=None)\ndef default_alphabet():\n    return string.digits + string.ascii_letters + string.punctuation\n\n\ndef copy_from_to("), ("    values: str = string.digits + string.ascii_letters + string.punctuation,\n", "    values: str = default_alphabet(),\n")], **B20R5))

# edit-eval: every row's target := its source, null markers included (round-4 bug3 = C20-j), names / values compared exactly
_R5_STORE = "        if j < len(row):\n            row[j] = value\n"
A(M("c20r4-r5-null-source-skipped", "C20", TR, _R5_STORE, "        if j < len(row):\n            if value not in (\"?\", \".\"):\n                row[j] = value\n", "edit-eval", **B20R5))
A(M("c20r4-r5-only-null-target-filled", "C20", TR, _R5_STORE, "        if j < len(row) and row[j] not in (\"?\", \".\"):\n            continue\n        if j < len(row):\n            row[j] = value\n", "edit-eval", **B20R5))
A(M("c20r4-r5-null-guard-empty-silent", "C20", TR, _R5_STORE, "        if j < len(row):\n            if value not in ():\n                row[j] = value\n", kind="silent", **B20R5))
A(M("c20r4-r5-replace-keys-stripped", "C20", TR, "        old = row[i]\n", "        old = row[i].strip()\n", "edit-eval", **B20R5))
A(M("c20r4-r5-replace-skips-null", "C20", TR, "        old = row[i]\n", "        old = row[i]\n        if old in (\"?\", \".\"):\n            continue\n", "edit-eval", **B20R5))
A(M("c20r4-r5-item-case-folded", "C20", TR, "    if item not in category_obj.getAttributeList():\n", "    if item.lower() not in [a.lower() for a in category_obj.getAttributeList()]:\n", "early-exit-eval", **B20R5))
A(M("c20r4-r5-category-case-folded", "C20", TR, "    if category not in data[0].getObjNameList():\n        return None\n    category_obj = data[0].getObj(category)\n", "    names = {n.lower(): n for n in data[0].getObjNameList()}\n    if category.lower() not in names:\n        return None\n    category_obj = data[0].getObj(names[category.lower()])\n", ["early-exit-eval", "edit-eval"], **B20R5))
A(M("c20r4-r5-str-of-value-silent", "C20", TR, "        old = row[i]\n", "        old = str(row[i])\n", kind="silent", **B20R5))
# the library hands out the symbols of the alphabet by position (the representatives used to be sorted alphabets only)
A(M("c20r4-r5-library-sorts-alphabet", "C20", TR, "    mapping = {}\n\n    for row in rows:\n        old = row[i]\n", "    mapping = {}\n    values = \"\".join(sorted(set(values)))\n\n    for row in rows:\n        old = row[i]\n", "edit-eval", **B20R5))
A(M("c20r4-library-sorts-alphabet", "C20", TR, "    transformed = []\n    mapping = {}\n", "    transformed = []\n    mapping = {}\n    values = sorted(values)\n", "edit-eval"))
A(M("c20r4-r5-library-lists-alphabet-silent", "C20", TR, "    mapping = {}\n\n    for row in rows:\n        old = row[i]\n", "    mapping = {}\n    values = list(values)\n\n    for row in rows:\n        old = row[i]\n", kind="silent", **B20R5))
