"""Round 6, worker W1 (C01, C02, C12, C13, C16): firing mutants and silent twins for the classes added in round 6 (the residue
column of a BPSEQ line as a free token, residue codes outside the IUPAC set in derived structures, five stems in two groups,
connected components through the scipy stand-in) and on top of two stored round-6 refactors."""


def M(id, props, file, old, new, rule=None, kind="fire", count=1, **kw):
    return dict(id=id, props=props if isinstance(props, list) else [props], file=file, old=old, new=new, rule=rule, kind=kind, count=count, **kw)


C = "common.py"
E = []
A = E.append

# ---- the residue column of a BPSEQ line is a free token (clean tree)
A(M("c01e-token-one-letter", "C01", C, "            fields = line.split()\n            if len(fields) != 3:", "            fields = line.split()\n            if len(fields) != 3 or not fields[1].isalpha():", "bpseq-text"))
A(M("c01e-token-one-char", "C01", C, "            fields = line.split()\n            if len(fields) != 3:", "            fields = line.split()\n            if len(fields) != 3 or len(fields[1]) != 1:", "bpseq-text"))
A(M("c01e-token-upper", "C01", C, "entry = Entry(int(fields[0]), fields[1], int(fields[2]))", "entry = Entry(int(fields[0]), fields[1].upper(), int(fields[2]))", "bpseq-text"))
A(M("c01e-token-comment-silent", "C01", C, "            fields = line.split()\n            if len(fields) != 3:", "            fields = line.split()\n            if line.startswith(\"#\") or len(fields) != 3:", kind="silent"))
# ---- residue codes outside the IUPAC set survive a derivation (clean tree)
A(M("c12e-unknown-to-n", ["C12", "C01"], C, "            Entry(i + 1, dot_bracket.sequence[i], 0)\n", "            Entry(i + 1, dot_bracket.sequence[i] if dot_bracket.sequence[i].isalpha() or dot_bracket.sequence[i] in \".-\" else \"N\", 0)\n", ["derived-sequence", "derived-structure", "from-db-fact"]))
A(M("c12e-unknown-kept-silent", ["C12", "C01"], C, "            Entry(i + 1, dot_bracket.sequence[i], 0)\n", "            Entry(i + 1, str(dot_bracket.sequence[i]), 0)\n", kind="silent"))
# ---- connected components: grouping that needs the stems of a group to be contiguous (clean tree; five stems, groups of 3 + 2)
_DFS = "        # find all connected components\n        visited = {vertex: False for vertex in vertices}\n        components = []\n\n        for vertex in vertices:\n            if not visited[vertex]:\n                visited[vertex] = True\n                stack = [vertex]\n                components.append([vertex])\n\n                while stack:\n                    current = stack[-1]\n                    next_vertex = None\n\n                    for neighbor in graph[current]:\n                        if not visited[neighbor]:\n                            next_vertex = neighbor\n                            break\n\n                    if next_vertex is not None:\n                        visited[next_vertex] = True\n                        stack.append(next_vertex)\n                        components[-1].append(next_vertex)\n                    else:\n                        stack.pop()\n"
_LABEL = "        label = {}\n        for vertex in vertices:\n            if vertex not in label:\n                label[vertex] = vertex\n                todo = [vertex]\n                while todo:\n                    for neighbor in graph[todo.pop()]:\n                        if neighbor not in label:\n                            label[neighbor] = vertex\n                            todo.append(neighbor)\n"
A(M("c16e-groupby-unsorted", ["C16", "C01"], C, _DFS, _LABEL + "        components = [list(group) for _, group in itertools.groupby(vertices, key=label.get)]\n", "enumeration-fact"))
A(M("c16e-groupby-sorted-silent", ["C16", "C01"], C, _DFS, _LABEL + "        components = [list(group) for _, group in itertools.groupby(sorted(vertices, key=label.get), key=label.get)]\n", kind="silent"))

# ---- C12-r9: static __conflict_graph over a named enumerate, static __greedy_orders(component, graph) with `if i == 0: continue`
B129 = dict(base="C12-r9")
A(M("c12e-r9-numbered-twice", ["C01", "C16", "C02"], C, "        numbered = enumerate(regions)\n\n        for (i, (k, l, _)), (j, (m, n, _)) in itertools.combinations(numbered, 2):", "        numbered = enumerate(regions)\n        next(numbered, None)\n\n        for (i, (k, l, _)), (j, (m, n, _)) in itertools.combinations(numbered, 2):", ["conflict-graph-fact", "enumeration-fact"], **B129))
A(M("c12e-r9-earlier", ["C16", "C01"], C, "                    for earlier in permutation[:i]\n", "                    for earlier in permutation[1:i]\n", "enumeration-fact", **B129))
A(M("c12e-r9-skip-silent", ["C16", "C01", "C12"], C, "                if i == 0:\n                    continue\n", "", kind="silent", **B129))
# ---- C16-r9: local greedy() with graph[region] & placed, itertools.count(), dict-merge product, dict.fromkeys de-duplication
B169 = dict(base="C16-r9")
A(M("c16e-r9-placed-never", ["C16", "C01"], C, "                placed.add(region)\n", "                placed.discard(region)\n", "enumeration-fact", **B169))
A(M("c16e-r9-no-final-dedup-silent", ["C16", "C01"], C, "        return list(dict.fromkeys(solutions))", "        return list(solutions)", kind="silent", **B169))  # per-group sets are duplicate-free, so are their products
A(M("c16e-r9-intersection-silent", ["C16", "C01"], C, "for other in graph[region] & placed}", "for other in placed.intersection(graph[region])}", kind="silent", **B169))
