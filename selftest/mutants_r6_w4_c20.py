"""Round 6, worker W4 (C06, C14, C17, C18, C19, C20): firing mutants and silent twins for the rules generalised in round 6.
One file per (sub-)worker; each exports the list E, imported by selftest/mutants.py."""


def M(id, props, file, old, new, rule=None, kind="fire", count=1, **kw):
    return dict(id=id, props=props if isinstance(props, list) else [props], file=file, old=old, new=new, rule=rule, kind=kind, count=count, **kw)


E = []
A = E.append

# ---- round 6: C20 (W4-c20).  Bases: C20-r9 (= round-6 ref2: first-seen loop as a generator function _substitute drained by list(...), module
# constant DEFAULT_VALUES, shared `untouched` tuple, main over _select_operation returning a lambda or None), C20-r8 (= ref1: copy_from_to over
# _parse / _serialize / _copy_within_row with a list comprehension), and the clean tree.
# The evaluator used to call a generator function like a plain function (false alarm on C20-r9: `yield` not reached on a category without rows ->
# list(None)); generator functions, generator expressions and zip/map/filter/enumerate/reversed are now lazy as in the language.
TR = "transformer.py"
B20R8 = dict(base="C20-r8")
B20R9 = dict(base="C20-r9")
_R9_DRAIN = "    transformed = list(\n        _substitute(\n            category_obj.getRowList(), attributes.index(column), values, mapping\n        )\n    )\n"
_R9_GEN = "_substitute(category_obj.getRowList(), attributes.index(column), values, mapping)"
_R9_STORE_YIELD = "        row[index] = mapping[old]\n        yield row\n"
_R9_YIELD_STORE = "        yield row\n        row[index] = mapping[old]\n"

# edit-eval on lazy objects: an edit that is made only while a generator is consumed is made only as far as it is consumed
A(M("c20r6-r9-generator-never-consumed", "C20", TR, _R9_DRAIN, "    rows = category_obj.getRowList()\n    pending = " + _R9_GEN + "\n    transformed = list(rows)\n", "edit-eval", **B20R9))
A(M("c20r6-r9-generator-first-row-only", "C20", TR, _R9_DRAIN, "    rows = category_obj.getRowList()\n    for _ in " + _R9_GEN + ":\n        break\n    transformed = list(rows)\n", "edit-eval", **B20R9))
A(M("c20r6-r9-yield-before-store-rows-first", "C20", TR, "", "", "edit-eval", edits=[(_R9_STORE_YIELD, _R9_YIELD_STORE), (_R9_DRAIN, "    rows = category_obj.getRowList()\n    transformed = [row for _, row in zip(rows, " + _R9_GEN + ")]\n")], **B20R9))
A(M("c20r6-r9-yield-before-store-generator-first-silent", "C20", TR, "", "", kind="silent", edits=[(_R9_STORE_YIELD, _R9_YIELD_STORE), (_R9_DRAIN, "    rows = category_obj.getRowList()\n    transformed = [row for row, _ in zip(" + _R9_GEN + ", rows)]\n")], **B20R9))
A(M("c20r6-r9-yield-before-store-drained-silent", "C20", TR, _R9_STORE_YIELD, _R9_YIELD_STORE, kind="silent", **B20R9))
A(M("c20r6-r9-comprehension-drain-silent", "C20", TR, _R9_DRAIN, "    transformed = [row for row in " + _R9_GEN + "]\n", kind="silent", **B20R9))
A(M("c20r6-r9-yield-from-silent", "C20", TR, "def replace_value(", "def _all_rows(rows, index, values, mapping):\n    yield from _substitute(rows, index, values, mapping)\n\n\ndef replace_value(", kind="silent", edits=[("def replace_value(", "def _all_rows(rows, index, values, mapping):\n    yield from _substitute(rows, index, values, mapping)\n\n\ndef replace_value("), ("    transformed = list(\n        _substitute(\n", "    transformed = list(\n        _all_rows(\n")], **B20R9))
A(M("c20r6-r9-generator-seen-values-only", "C20", TR, "        if old not in mapping:\n            mapping[old] = values[len(mapping)]\n\n        row[index] = mapping[old]\n        yield row\n", "        if old in mapping:\n            continue\n        mapping[old] = values[len(mapping)]\n        row[index] = mapping[old]\n        yield row\n", "edit-eval", **B20R9))
_R8_COMP = "    transformed = [\n        _copy_within_row(row, source, target) for row in category_obj.getRowList()\n    ]\n\n    block.replace(DataCategory(category_obj, attributes, transformed))"
A(M("c20r6-r8-genexp-never-consumed", "C20", TR, _R8_COMP, "    transformed = (\n        _copy_within_row(row, source, target) for row in category_obj.getRowList()\n    )\n\n    block.replace(DataCategory(category_obj, attributes, list(category_obj.getRowList())))", "edit-eval", **B20R8))
A(M("c20r6-r8-map-never-consumed", "C20", TR, _R8_COMP, "    transformed = map(lambda row: _copy_within_row(row, source, target), category_obj.getRowList())\n\n    block.replace(DataCategory(category_obj, attributes, list(category_obj.getRowList())))", "edit-eval", **B20R8))
A(M("c20r6-r8-genexp-drained-silent", "C20", TR, "    transformed = [\n        _copy_within_row(row, source, target) for row in category_obj.getRowList()\n    ]\n", "    transformed = list(\n        _copy_within_row(row, source, target) for row in category_obj.getRowList()\n    )\n", kind="silent", **B20R8))
A(M("c20r6-r8-map-drained-silent", "C20", TR, "    transformed = [\n        _copy_within_row(row, source, target) for row in category_obj.getRowList()\n    ]\n", "    transformed = list(map(lambda row: _copy_within_row(row, source, target), category_obj.getRowList()))\n", kind="silent", **B20R8))

# edit-eval: the item is the image of the mapping applied once per cell (round-6 bug1 = C20-o: DataCategory.replaceValue per mapping entry on the live column)
_LOOP = "        row[i] = mapping[row[i]]\n        transformed.append(row)\n"
A(M("c20r6-sequential-substitution", "C20", TR, _LOOP, "        transformed.append(row)\n\n    for old_value, new_value in mapping.items():\n        for row in transformed:\n            if row[attributes.index(column)] == old_value:\n                row[attributes.index(column)] = new_value\n", "edit-eval"))
A(M("c20r6-two-pass-substitution-silent", "C20", TR, _LOOP, "        transformed.append(row)\n\n    for row in transformed:\n        row[attributes.index(column)] = mapping[row[attributes.index(column)]]\n", kind="silent"))

# cli-eval on the closure shape of C20-r9 (round-6 bug3 = C20-q: --values split at commas)
_R9_LAMBDA = "        return lambda content: replace_value(\n            content, args.category, args.replace, args.values\n        )[0]\n"
A(M("c20r6-r9-closure-splits-values", "C20", TR, _R9_LAMBDA, "        values = args.values.split(\",\") if \",\" in args.values else args.values\n        return lambda content: replace_value(content, args.category, args.replace, values)[0]\n", ["cli-eval", "cli-inplace-eval"], **B20R9))
A(M("c20r6-r9-closure-swapped-arguments", "C20", TR, _R9_LAMBDA, "        return lambda content: replace_value(\n            content, args.category, args.values, args.replace\n        )[0]\n", ["cli-eval", "cli-inplace-eval"], **B20R9))
A(M("c20r6-r9-closure-mapping-component", "C20", TR, _R9_LAMBDA, "        return lambda content: replace_value(\n            content, args.category, args.replace, args.values\n        )[1]\n", ["cli-eval", "cli-inplace-eval"], **B20R9))
A(M("c20r6-r9-closure-as-def-silent", "C20", TR, _R9_LAMBDA, "        def replace(content):\n            return replace_value(content, args.category, args.replace, args.values)[0]\n\n        return replace\n", kind="silent", **B20R9))
A(M("c20r6-r9-closure-str-values-silent", "C20", TR, _R9_LAMBDA, "        values = args.values if \",\" in args.values else str(args.values)\n        return lambda content: replace_value(content, args.category, args.replace, values)[0]\n", kind="silent", **B20R9))
