"""Round 5, worker W1 (C01, C02, C12, C13, C16): firing mutants and silent twins on the stored round-5 refactors, plus the
classes added in round 5 (the model as the entry point BpSeq.dot_bracket has it built; small structures with their exact
length for without_isolated; the bracket tables decided by value)."""


def M(id, props, file, old, new, rule=None, kind="fire", count=1, **kw):
    return dict(id=id, props=props if isinstance(props, list) else [props], file=file, old=old, new=new, rule=rule, kind=kind, count=count, **kw)


C, T3 = "common.py", "tertiary.py"
E = []
A = E.append

# ---- C02-r7: fcfs over the regions themselves with a growing `orders`, zip(regions, orders), generator next(); fill with (opening, closing) pairs from zip
B27 = dict(base="C02-r7")
A(M("c02e-r7-zip-shift", ["C01", "C13", "C02"], C, "for (m, n, _), order in zip(regions, orders)\n", "for (m, n, _), order in zip(regions[1:], orders)\n", "fcfs-first-fit", **B27))
A(M("c02e-r7-levels", ["C01", "C13"], C, 'levels = range(len("([{<" + string.ascii_uppercase))', 'levels = range(len(string.ascii_uppercase))', "fcfs-levels", **B27))
A(M("c02e-r7-table-swap", "C01", C, 'zip("([{<" + string.ascii_uppercase, ")]}>" + string.ascii_lowercase)', 'zip("([<{" + string.ascii_uppercase, ")]}>" + string.ascii_lowercase)', "alphabet-agree", **B27))
A(M("c02e-r7-fill-last", ["C01", "C13"], C, "                structure[last - 1 - offset] = closing\n", "                structure[last - offset] = closing\n", "fill-stores", **B27))
A(M("c02e-r7-max-silent", ["C01", "C02", "C13"], C, "orders.append(next(order for order in levels if order not in taken))", "orders.append(min(set(levels) - taken))", kind="silent", **B27))
A(M("c02e-r7-table-list-silent", ["C01", "C13"], C, "        brackets = list(\n            zip(\"([{<\" + string.ascii_uppercase, \")]}>\" + string.ascii_lowercase)\n        )\n", "        brackets = [o + c for o, c in zip(\"([{<\" + string.ascii_uppercase, \")]}>\" + string.ascii_lowercase)]\n", kind="silent", **B27))
# ---- C02-r6: one 2-D table x[region][order], comprehension objective, rows of x as one-level groups
B26 = dict(base="C02-r6")
A(M("c02e-r6-weight", "C02", C, "x[i][order] * (length if order == 0 else -length * order)", "x[i][order] * (length if order == 0 else -length)", "milp-objective-coeff", **B26))
A(M("c02e-r6-transposed", "C02", C, "                for order in levels:\n                    problem += x[i][order] + x[j][order] <= 1", "                for order in levels:\n                    problem += x[i][order] + x[j][0] <= 1", "milp-adjacency", **B26))
A(M("c02e-r6-name-swap", "C02", C, 'pulp.LpVariable(f"x_{i}_{order}", 0, 1, pulp.LpInteger)', 'pulp.LpVariable(f"x_{order}_{i}", 0, 1, pulp.LpInteger)', ["milp-readback", "milp-one-level", "milp-name-format"], **B26))
A(M("c02e-r6-levels-silent", "C02", C, "        levels = range(max_order)\n", "        levels = list(range(max_order))\n", kind="silent", **B26))
# ---- the model as the entry point has it built (clean tree)
A(M("c02e-entry-cap", "C02", C, "        return self.convert_to_dot_bracket(solver)\n\n    def convert_to_dot_bracket(self, solver: pulp.LpSolver):", "        return self.convert_to_dot_bracket(solver, 2)\n\n    def convert_to_dot_bracket(self, solver: pulp.LpSolver, cap=None):", "milp-bound", edits=[("        return self.convert_to_dot_bracket(solver)\n\n    def convert_to_dot_bracket(self, solver: pulp.LpSolver):", "        return self.convert_to_dot_bracket(solver, 2)\n\n    def convert_to_dot_bracket(self, solver: pulp.LpSolver, cap=None):"), ("        max_order = max(map(len, graph.values())) + 1\n", "        max_order = max(map(len, graph.values())) + 1\n        if cap is not None:\n            max_order = min(max_order, cap)\n")]))
A(M("c02e-entry-cap-loose-silent", ["C02", "C13", "C01"], C, None, None, kind="silent", edits=[("        return self.convert_to_dot_bracket(solver)\n\n    def convert_to_dot_bracket(self, solver: pulp.LpSolver):", "        return self.convert_to_dot_bracket(solver, len(self.entries))\n\n    def convert_to_dot_bracket(self, solver: pulp.LpSolver, cap=None):"), ("        max_order = max(map(len, graph.values())) + 1\n", "        max_order = max(map(len, graph.values())) + 1\n        if cap is not None:\n            max_order = min(max_order, max(cap, max_order))\n")]))

# ---- C12-r7: pairwise walk zip(paired, paired[1:]) with stems[-1], comprehension stops, comprehension to_unpair
B127 = dict(base="C12-r7")
A(M("c12e-r7-walk-shift", ["C01", "C12"], C, "        for previous, entry in zip(paired, paired[1:]):\n", "        for previous, entry in zip(paired, paired[2:]):\n", ["stems-run-fact", "history-independent"], **B127))
A(M("c12e-r7-first-stem", ["C01", "C07"], C, "        stems = [[entry] for entry in paired[:1]]\n", "        stems = [[entry] for entry in paired[:2]]\n", "stems-run-fact", **B127))
A(M("c12e-r7-shared-stem-list", "C12", C, "        stems = [[entry] for entry in paired[:1]]\n", "        stems = [self.entries for entry in paired[:1]]\n", ["receiver-write", "history-independent", "stems-run-fact"], **B127))
A(M("c12e-r7-one-end", "C12", C, "            for strand in (stem.strand5p, stem.strand3p)\n        ]\n\n        if not to_unpair:", "            for strand in (stem.strand3p,)\n        ]\n\n        if not to_unpair:", "isolated-select", **B127))
A(M("c12e-r7-islice-silent", ["C01", "C12", "C14"], C, "        for previous, entry in zip(paired, paired[1:]):\n", "        for previous, entry in zip(paired, itertools.islice(paired, 1, None)):\n", kind="silent", **B127))
# ---- without_isolated decided from the neighbours in self.entries (clean tree): the first / last residue
_NEIGH = ("        stems, _, _, _ = self.elements\n        to_unpair = []\n\n        for stem in stems:\n            if stem.strand5p.first == stem.strand5p.last:\n                to_unpair.append(stem.strand5p.first - 1)\n                to_unpair.append(stem.strand3p.first - 1)\n",)
A(M("c12e-neighbours-wrap", "C12", C, _NEIGH[0], "        to_unpair = []\n        n = len(self.entries)\n        for i, _, j in self.paired(only5to3=True):\n            outside = self.entries[i - 2].pair == j + 1\n            inside = j - i > 2 and self.entries[i].pair == j - 1\n            if not outside and not inside:\n                to_unpair.append(i - 1)\n                to_unpair.append(j - 1)\n", "isolated-select"))
A(M("c12e-neighbours-guarded-silent", "C12", C, _NEIGH[0], "        to_unpair = []\n        n = len(self.entries)\n        for i, _, j in self.paired(only5to3=True):\n            outside = i > 1 and j < n and self.entries[i - 2].pair == j + 1\n            inside = j - i > 2 and self.entries[i].pair == j - 1\n            if not outside and not inside:\n                to_unpair.append(i - 1)\n                to_unpair.append(j - 1)\n", kind="silent", tolerate_exit2=["C07"]))

# ---- C13-r7: fcfs appending to a growing list, fill with offsets
B137 = dict(base="C13-r7")
A(M("c13e-r7-status", ["C13", "C01", "C02"], C, "        if problem.status != pulp.LpStatusOptimal:", "        if problem.status == pulp.LpStatusInfeasible:", ["readback-after-optimal", "fallback-is-fcfs", "encoder-unsolved", "milp-readback-optimal"], **B137))
# ---- C16-r7: local greedy_orders with filterfalse/count, comprehension of set comprehensions, dict-merge product; Mapping2D3D.__format_per_strand
B167 = dict(base="C16-r7")
A(M("c16e-r7-earlier", ["C16", "C01"], C, "orders[other] for other in permutation[:i] if other in graph[region]", "orders[other] for other in permutation[: i - 1] if other in graph[region]", "enumeration-fact", **B167))
A(M("c16e-r7-count-from-1", "C16", C, "itertools.filterfalse(taken.__contains__, itertools.count())", "itertools.filterfalse(taken.__contains__, itertools.count(1))", "enumeration-fact", **B167))
A(M("c16e-r7-merge-order", "C16", C, "{**unknotted, **dict(itertools.chain.from_iterable(assignment))}", "{**dict(itertools.chain.from_iterable(assignment)), **unknotted}", "enumeration-fact", **B167))
A(M("c16e-r7-format-zip", "C16", T3, "        for (chain, sequence), dbn in zip(self.strands_sequences, dbns):\n", "        for (chain, sequence), dbn in zip(self.strands_sequences, dbns[1:] + dbns[:1]):\n", ["mapping-list-fact", "strand-text-fact", "strand-rows"], **B167))
A(M("c16e-r7-range-silent", ["C16", "C01"], C, "itertools.filterfalse(taken.__contains__, itertools.count())", "(k for k in range(len(component)) if k not in taken)", kind="silent", **B167))
# ---- a size cap in the printed list (clean tree, tertiary.py): both sides of the wrapper's own threshold are input classes
A(M("c16e-mapping-stem-cap", "C16", T3, "        dot_brackets = []\n\n        for dot_bracket in self.bpseq.all_dot_brackets:\n", "        if len(self.bpseq.elements[0]) > 25:\n            return [self.dot_bracket]\n        dot_brackets = []\n\n        for dot_bracket in self.bpseq.all_dot_brackets:\n", "mapping-list-fact"))
A(M("c16e-mapping-stem-log-silent", ["C16", "C06"], T3, "        dot_brackets = []\n\n        for dot_bracket in self.bpseq.all_dot_brackets:\n", "        if len(self.bpseq.elements[0]) > 25:\n            logging.warning(\"many stems: the enumeration may take long\")\n        dot_brackets = []\n\n        for dot_bracket in self.bpseq.all_dot_brackets:\n", kind="silent"))
