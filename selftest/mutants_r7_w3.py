"""Round 7, worker W3 (C08, C09, C10, C15): the column selection of fit_to_pdb read from a table scanned with next() and guarded by a
refusal (base C10-r10): the refusal belongs to the slice that is evaluated."""


def M(id, props, file, old, new, rule=None, kind="fire", count=1, **kw):
    return dict(id=id, props=props if isinstance(props, list) else [props], file=file, old=old, new=new, rule=rule, kind=kind, count=count, **kw)


P2 = "parser_v2.py"
E = []
A = E.append
R10 = dict(base="C10-r10")
A(M("w3r7-r10-label-chain", ["C10"], P2, '    ("mmCIF", ("id", "auth_asym_id", "auth_seq_id", "pdbx_PDB_ins_code")),', '    ("mmCIF", ("id", "label_asym_id", "auth_seq_id", "pdbx_PDB_ins_code")),', ["column-selection", "rename-coverage", "chain-map", "frame-condition", "result"], **R10))
A(M("w3r7-r10-unknown-format-falls-back", ["C10"], P2, "        (names for name, names in _FIT_COLUMNS if format_type == name), None\n", "        (names for name, names in _FIT_COLUMNS if format_type == name), _FIT_COLUMNS[0][1]\n", ["only-valueerror", "column-selection"], **R10))
A(M("w3r7-r10-guard-not-none-silent", ["C10", "C09"], P2, "    if columns is None:\n", "    if not columns:\n", kind="silent", **R10))
A(M("w3r7-r10-table-as-dict-silent", ["C10"], P2, "        (names for name, names in _FIT_COLUMNS if format_type == name), None\n", "        (names for name, names in dict(_FIT_COLUMNS).items() if format_type == name), None\n", kind="silent", **R10))

# ---- values at the full width of their field: MODEL serials 999 / 9999
A(M("w3r7-model-serial-modulo", ["C09"], P2, 'buffer.write(f"MODEL     {current_model_num:>4}\\n")', 'buffer.write(f"MODEL     {current_model_num % 1000:>4}\\n")', ["model-line", "pdb-round-trip", "record-order"]))
A(M("w3r7-model-serial-rjust-silent", ["C09"], P2, 'buffer.write(f"MODEL     {current_model_num:>4}\\n")', 'buffer.write("MODEL     " + str(current_model_num).rjust(4) + "\\n")', kind="silent"))
