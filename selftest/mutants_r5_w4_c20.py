"""Round 5, worker W4 (C06, C14, C17, C18, C19, C20): firing mutants and silent twins for the rules generalised in round 5.
One file per (sub-)worker; each exports the list E, imported by selftest/mutants.py."""


def M(id, props, file, old, new, rule=None, kind="fire", count=1, **kw):
    return dict(id=id, props=props if isinstance(props, list) else [props], file=file, old=old, new=new, rule=rule, kind=kind, count=count, **kw)


E = []
A = E.append

# ---- round 5: C20 (W4-c20).  Bases: C20-r6 (= round-5 ref1: copy_from_to over helpers _read_blocks / _dump_blocks / _find_category, hoisted
# look-ups, inverted guard, list(rows)), C20-r7 (= ref2: replace_value in two passes over a generator + _first_seen_mapping, main over
# _build_parser (flag table) / _transform returning None for 'no action'), and the clean tree.
TR = "transformer.py"
B20R6 = dict(base="C20-r6")
B20R7 = dict(base="C20-r7")
_R7_WRITE = "    with open(args.output, \"w\") as f:\n        f.write(output)\n"
_WRITE = _R7_WRITE

# cli-eval: the tool writes the library result on every path, whatever the result is (round-5 bug3 = C20-n: `if output == file_content: return`);
# the command lines are evaluated for each class of the library result (new text / the input text itself / empty text) and with a fresh output path
A(M("c20r5-r7-unchanged-result-not-written", "C20", TR, _R7_WRITE, "    if output == file_content:\n        return\n\n" + _R7_WRITE, "cli-eval", **B20R7))
A(M("c20r5-r7-only-changed-result-written", "C20", TR, _R7_WRITE, "    if output != file_content:\n        with open(args.output, \"w\") as f:\n            f.write(output)\n", "cli-eval", **B20R7))
A(M("c20r5-r7-transform-none-when-unchanged", "C20", TR, "        return copy_from_to(file_content, args.category, args.copy_from, args.copy_to)\n", "        result = copy_from_to(file_content, args.category, args.copy_from, args.copy_to)\n        return None if result == file_content else result\n", "cli-eval", **B20R7))
A(M("c20r5-empty-result-not-written", "C20", TR, _WRITE, "    if not output:\n        return\n\n" + _WRITE, "cli-eval"))
A(M("c20r5-r7-falsy-result-means-help", "C20", TR, "    if output is None:\n", "    if not output:\n", "cli-eval", **B20R7))
A(M("c20r5-no-overwrite", "C20", TR, "", "", "cli-eval", edits=[("import argparse\n", "import argparse\nimport os\n"), (_WRITE, "    if os.path.exists(args.output):\n        return\n\n" + _WRITE)]))
A(M("c20r5-r7-only-existing-output-written", "C20", TR, "", "", "cli-eval", edits=[("import argparse\n", "import argparse\nimport os\n"), (_R7_WRITE, "    if os.path.exists(args.output):\n        with open(args.output, \"w\") as f:\n            f.write(output)\n")], **B20R7))
A(M("c20r5-r7-message-then-write-silent", "C20", TR, "", "", kind="silent", edits=[("import argparse\n", "import argparse\nimport sys\n"), (_R7_WRITE, "    if output == file_content:\n        print(f\"{args.input}: nothing to do\", file=sys.stderr)\n\n" + _R7_WRITE)], **B20R7))
A(M("c20r5-r7-print-to-file-silent", "C20", TR, _R7_WRITE, "    with open(args.output, \"w\") as f:\n        print(output, end=\"\", file=f)\n", kind="silent", **B20R7))
A(M("c20r5-print-to-file-newline", "C20", TR, _WRITE, "    with open(args.output, \"w\") as f:\n        print(output, file=f)\n", "cli-eval"))
A(M("c20r5-r7-is-none-form-silent", "C20", TR, "    if output is None:\n", "    if not isinstance(output, str):\n", kind="silent", **B20R7))
# fallback (main not evaluable): an exit the pinned forms do not know is 'not decided', never silent
A(M("c20r5-fallback-exit-undecided", "C20", TR, "", "", "cli-dispatch", kind="unrecognised", edits=[("def main():", "class _Opts:\n    pass\n\n\ndef main():"), ("    args = parser.parse_args()\n", "    args = parser.parse_args()\n    opts = _Opts()\n"), (_WRITE, "    if output == file_content:\n        return\n\n" + _WRITE)]))

# edit-eval: a new target item is declared in the category's own attribute list (round-5 bug1 = C20-l: `attributes = attributes + [copy_to]`)
_R6_APPEND = "    if copy_to not in attributes:\n        attributes.append(copy_to)\n"
A(M("c20r5-r6-attributes-rebound", "C20", TR, _R6_APPEND, "    if copy_to not in attributes:\n        attributes = attributes + [copy_to]\n", "edit-eval", **B20R6))
A(M("c20r5-r6-attributes-copied-first", "C20", TR, "    attributes = category_obj.getAttributeList()\n\n    if copy_from not in attributes:\n        return file_content\n\n    if copy_to", "    attributes = list(category_obj.getAttributeList())\n\n    if copy_from not in attributes:\n        return file_content\n\n    if copy_to", "edit-eval", **B20R6))
A(M("c20r5-attributes-unpacked-copy", "C20", TR, "        attributes.append(copy_to)\n", "        attributes = [*attributes, copy_to]\n", "edit-eval"))
A(M("c20r5-r6-attributes-iadd-silent", "C20", TR, _R6_APPEND, "    if copy_to not in attributes:\n        attributes += [copy_to]\n", kind="silent", **B20R6))
A(M("c20r5-r6-attributes-extend-silent", "C20", TR, _R6_APPEND, "    if copy_to not in attributes:\n        attributes.extend([copy_to])\n", kind="silent", **B20R6))
A(M("c20r5-attributes-insert-end-silent", "C20", TR, "        attributes.append(copy_to)\n", "        attributes.insert(len(attributes), copy_to)\n", kind="silent"))
# DataCategory.appendAttribute compares names without letter case and renames an existing item: not the exact-name behaviour of list.append
A(M("c20r5-r6-api-append-case-insensitive", "C20", TR, _R6_APPEND, "    if copy_to not in attributes:\n        category_obj.appendAttribute(copy_to)\n", "edit-eval", **B20R6))

# mapping-total on the two-pass shape of C20-r7 (round-5 bug2 = C20-m is the round-4 bug again: IndexError swallowed, value kept)
_R7_NEXT = "            mapping[value] = values[len(mapping)]\n"
A(M("c20r5-r7-surplus-kept-on-indexerror", "C20", TR, _R7_NEXT, "            try:\n                mapping[value] = values[len(mapping)]\n            except IndexError:\n                mapping[value] = value\n", "mapping-total", **B20R7))
A(M("c20r5-r7-surplus-via-get", "C20", TR, "        row[index] = mapping[row[index]]\n", "        row[index] = mapping.get(row[index], row[index])\n", "mapping-total", edits=[(_R7_NEXT, "            if len(mapping) < len(values):\n                mapping[value] = values[len(mapping)]\n"), ("        row[index] = mapping[row[index]]\n", "        row[index] = mapping.get(row[index], row[index])\n")], **B20R7))
A(M("c20r5-r7-second-pass-get-silent", "C20", TR, "        row[index] = mapping[row[index]]\n", "        row[index] = mapping.get(row[index], row[index])\n", kind="silent", **B20R7))
A(M("c20r5-r7-generator-to-list-silent", "C20", TR, "(row[index] for row in rows)", "[row[index] for row in rows]", kind="silent", **B20R7))
A(M("c20r5-r7-one-pass-stale-column", "C20", TR, "    mapping = _first_seen_mapping((row[index] for row in rows), values)\n\n    for row in rows:\n        row[index] = mapping[row[index]]\n", "    column_values = (row[index] for row in rows)\n    for row in rows:\n        row[index] = values[0]\n    mapping = _first_seen_mapping(column_values, values)\n", "edit-eval", **B20R7))
