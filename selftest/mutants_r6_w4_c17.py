"""Round 6, worker W4 (C06, C14, C17, C18, C19, C20): firing mutants and silent twins for the rules generalised in round 6.
One file per (sub-)worker; each exports the list E, imported by selftest/mutants.py.

This file: C17 (sub-worker W4-c17).  Bases: C17-r7 (main with setdefault chains), C17-r8 (find_clashes split into
_select_atoms / _clash_occupancy, radius dispatch table), C17-o (candidate pairs from sparse_distance_matrix + find),
C17-q (defaultdict bookkeeping read by logging.debug arguments)."""


def M(id, props, file, old=None, new=None, rule=None, kind="fire", count=1, **kw):
    d = dict(id=id, props=props if isinstance(props, list) else [props], file=file, rule=rule, kind=kind, count=count, **kw)
    if "edits" not in kw:
        d.update(old=old, new=new)
    return d


E = []
A = E.append
CF = "clashfinder.py"
R7 = dict(base="C17-r7")
R8 = dict(base="C17-r8")
O = dict(base="C17-o")
Q = dict(base="C17-q")

# ---------------------------------------------------------------------------------------------------------------------
# report-maxima: every printed block lists at least one clash (its maximum is the maximum over the listed clashes); the
# arguments of diagnostics are evaluated - a look-up that inserts into the grouping container makes an empty block
A(M("c17e-q-diagnostic-get-silent", "C17", CF, "len(clashing_chains[(chain, chain)])", "len(clashing_chains.get((chain, chain), {}))", kind="silent", **Q))
A(M("c17e-q-diagnostic-membership-silent", "C17", CF, "len(clashing_chains[(chain, chain)])", "len(clashing_chains[(chain, chain)]) if (chain, chain) in clashing_chains else 0", kind="silent", **Q))
FILED = "        clashing_residues.setdefault(residue_key, set()).add((ai, aj, occupancy))\n"
A(M("c17e-r7-diagnostic-setdefault-inserts", "C17", CF, FILED, FILED + "        logging.debug(\"chain %s: %d residue pairs inside\", ri.chain, len(clashing_chains.setdefault((ri.chain, ri.chain), {})))\n", ["report-maxima", "report-clashes"], **R7))
A(M("c17e-r7-diagnostic-get-silent", "C17", CF, FILED, FILED + "        logging.debug(\"chain %s: %d residue pairs inside\", ri.chain, len(clashing_chains.get((ri.chain, ri.chain), {})))\n", kind="silent", **R7))
A(M("c17e-r7-empty-block-prefilled", "C17", CF, rule=["report-maxima", "report-clashes"], edits=[("    for (ri, ai), (rj, aj), occupancy in clashes:\n", "    for residue in structure3d.residues:\n        clashing_chains.setdefault((residue.chain, residue.chain), {})\n        max_occupancy_chains.setdefault((residue.chain, residue.chain), 0.0)\n    for (ri, ai), (rj, aj), occupancy in clashes:\n")], **R7))

# ---------------------------------------------------------------------------------------------------------------------
# distance-threshold on coincident atoms (distance exactly 0); candidate pairs taken from a sparse distance matrix
FIND = "    for i, j, distance in zip(*find(triu(neighbours, k=1))):\n"
A(M("c17e-o-stored-entries-silent", "C17", CF, FIND, "    upper = triu(neighbours, k=1)\n    for i, j, distance in zip(upper.row, upper.col, upper.data):\n", kind="silent", **O))
A(M("c17e-o-stored-entries-with-diagonal", "C17", CF, FIND, "    upper = triu(neighbours, k=0)\n    for i, j, distance in zip(upper.row, upper.col, upper.data):\n", ["pair-roles", "clash-definition"], **O))
A(M("c17e-o-whole-matrix-both-orders", "C17", CF, FIND, "    for (i, j), distance in neighbours.items():\n        if i == j:\n            continue\n", ["pair-roles", "clash-definition"], **O))
A(M("c17e-zero-distance-skipped", "C17", CF, "        if distance > sum_vdw_radii + molprobity_factor:\n            continue\n", "        if distance == 0.0 or distance > sum_vdw_radii + molprobity_factor:\n            continue\n", ["distance-threshold", "option-extra-filter"]))
A(M("c17e-r8-zero-distance-skipped", "C17", CF, "    if distance > sum_vdw_radii + margin:\n        return None\n", "    if not 0.0 < distance <= sum_vdw_radii + margin:\n        return None\n", ["distance-threshold", "option-extra-filter"], **R8))
A(M("c17e-r8-chained-comparison-silent", "C17", CF, "    if distance > sum_vdw_radii + margin:\n        return None\n", "    if not 0.0 <= distance <= sum_vdw_radii + margin:\n        return None\n", kind="silent", **R8))

# ---------------------------------------------------------------------------------------------------------------------
# atom-types: the radius property is evaluated per member, whatever its shape
A(M("c17e-r8-radius-table-hole", "C17", CF, "            \"P\": PHOSPHORUS_RADIUS,\n        }", "        }", "atom-types", **R8))
A(M("c17e-r8-radius-table-get-silent", "C17", CF, "        if self.value not in radii:\n            raise RuntimeError(f\"Unknown atom type: {self}\")\n        return radii[self.value]", "        radius = radii.get(self.value)\n        if radius is None:\n            raise RuntimeError(f\"Unknown atom type: {self}\")\n        return radius", kind="silent", **R8))
A(M("c17e-r8-radius-table-wrong-key", "C17", CF, "        return radii[self.value]", "        return radii[self.name.lower()]", "atom-types", **R8))

# ---------------------------------------------------------------------------------------------------------------------
# csv-metadata-total (F25): the CSV rows are exactly the clashes whatever metadata the file has (category absent -> [],
# no category at all for a PDB-format file, rows without the items)
MV = ("                                    metadata_value(metadata, \"exptl\", \"method\"),\n                                    metadata_value(metadata, \"refine\", \"ls_d_res_high\"),\n")
A(M("c17e-csv-metadata-bare-subscripts", "C17", CF, MV, "                                    metadata[\"exptl\"][0][\"method\"],\n                                    metadata[\"refine\"][0][\"ls_d_res_high\"],\n", "csv-metadata-total"))
A(M("c17e-csv-metadata-first-row-unchecked", "C17", CF, "    return rows[0].get(item, \"\") if rows else \"\"", "    return rows[0].get(item, \"\")", "csv-metadata-total"))
A(M("c17e-csv-metadata-item-subscript", "C17", CF, "    return rows[0].get(item, \"\") if rows else \"\"", "    return rows[0][item] if rows else \"\"", "csv-metadata-total"))
A(M("c17e-csv-metadata-category-subscript", "C17", CF, "    rows = metadata.get(category) or []", "    rows = metadata[category]", kind="silent"))  # read_metadata returns every category it was asked for
A(M("c17e-csv-metadata-try-lookup-silent", "C17", CF, "    rows = metadata.get(category) or []\n    return rows[0].get(item, \"\") if rows else \"\"", "    try:\n        return metadata[category][0][item]\n    except LookupError:\n        return \"\"", kind="silent"))
A(M("c17e-csv-metadata-try-keyerror-only", "C17", CF, "    rows = metadata.get(category) or []\n    return rows[0].get(item, \"\") if rows else \"\"", "    try:\n        return metadata[category][0][item]\n    except KeyError:\n        return \"\"", "csv-metadata-total"))
A(M("c17e-csv-metadata-get-chain-silent", "C17", CF, "    rows = metadata.get(category) or []\n    return rows[0].get(item, \"\") if rows else \"\"", "    return (metadata.get(category) or [{}])[0].get(item, \"\")", kind="silent"))
A(M("c17e-csv-metadata-skip-rows-without", "C17", CF, "                            writer.writerow(\n                                [\n                                    f\"{os.path.splitext", "                            if not metadata.get(\"refine\"):\n                                continue\n                            writer.writerow(\n                                [\n                                    f\"{os.path.splitext", "csv-metadata-total"))
