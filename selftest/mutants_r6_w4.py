"""Round 6, worker W4 (C06, C14, C17, C18, C19, C20): firing mutants and silent twins for the rules generalised in round 6.
One file per (sub-)worker; each exports the list E, imported by selftest/mutants.py."""


def M(id, props, file, old, new, rule=None, kind="fire", count=1, **kw):
    return dict(id=id, props=props if isinstance(props, list) else [props], file=file, old=old, new=new, rule=rule, kind=kind, count=count, **kw)


E = []
A = E.append

TT, CM, AD = "tertiary.py", "common.py", "adapter.py"

# ---- C06 on the refactored base C06-r8 (strands as lists of residues, letters from the generator method __strand_letters, slices by
# accumulate + zip([0] + ends[:-1], ends), one __format_strands over a nested generator): generator functions are evaluated eagerly
B8 = dict(base="C06-r8")
A(M("c06e-r8-zip-skip", "C06", TT, "for previous, residue in zip(members, members[1:]):", "for previous, residue in zip(members, members[2:]):", "strands-fact", **B8))
A(M("c06e-r8-compare-first-strand", "C06", TT, "if not strands or residue.chain != strands[-1][-1].chain:", "if not strands or residue.chain != strands[0][-1].chain:", "strands-fact", **B8))
A(M("c06e-r8-gap-count", "C06", TT, "                for _ in range(residue.number - previous.number - 1):\n                    yield \"?\"", "                for _ in range(residue.number - previous.number):\n                    yield \"?\"", "strands-fact", **B8))
A(M("c06e-r8-first-letter-twice", "C06", TT, "        yield members[0].one_letter_name\n\n        for previous, residue in zip(members, members[1:]):", "        yield members[0].one_letter_name\n\n        for previous, residue in zip(members, members):", "strands-fact", **B8))
A(M("c06e-r8-slices-from-second", "C06", TT, "zip([0] + ends[:-1], ends)", "zip(ends[:-1], ends)", "strand-text-fact", **B8))
A(M("c06e-r8-yield-from-silent", "C06", TT, "                for _ in range(residue.number - previous.number - 1):\n                    yield \"?\"", "                yield from \"?\" * (residue.number - previous.number - 1)", kind="silent", **B8))
A(M("c06e-r8-lines-list-silent", "C06", TT, 'for line in (f">strand_{chain}", sequence, dbn)', 'for line in [f">strand_{chain}", sequence, dbn]', kind="silent", **B8))

# ---- C06: the entry points hand the whole pair list to the mapping - two different interactions between the same two residues are two
# entries (stored instance: C06-q, 'sanitising' by the unordered pair of residues)
CALL = "    mapping = Mapping2D3D(\n        tertiary_structure,\n        base_interactions.basePairs,\n        base_interactions.stackings,\n        find_gaps,\n    )\n    stems, single_strands, hairpins, loops = mapping.bpseq.elements\n\n    # Calculate inter-stem parameters using the helper function\n    inter_stem_params = calculate_all_inter_stem_parameters(mapping)\n\n    structure2d = Structure2D(\n        base_interactions,\n        str(mapping.bpseq),"
def _call(pre, second):
    return CALL.replace("    mapping = Mapping2D3D(\n        tertiary_structure,\n        base_interactions.basePairs,", pre + f"    mapping = Mapping2D3D(\n        tertiary_structure,\n        {second},")
A(M("c06e-r6-entry-first-per-residue", "C06", AD, CALL, _call("    first = {}\n    for bp in base_interactions.basePairs:\n        first.setdefault((bp.nt1, bp.nt2) if bp.nt1 < bp.nt2 else (bp.nt2, bp.nt1), bp)\n", "list(first.values())"), "mapping-input-fact"))
A(M("c06e-r6-entry-dedupe-with-class-silent", "C06", AD, CALL, _call("    unique = {}\n    for bp in base_interactions.basePairs:\n        unique.setdefault((bp.nt1, bp.nt2, bp.lw), bp)\n", "list(unique.values())"), kind="silent"))

# ---- C14: a table kept in a class body is typed from its defining expression (stored instance: C14-q, map(self.find_atom, <set of names>))
LOOP = "            for atom in residue.atoms:\n                if atom.name in base_atom_names:\n                    base_atoms.append(atom)\n"
A(M("c14-r6-table-first-loop", "C14", TT, LOOP, "            for name in base_atom_names:\n                atom = residue.find_atom(name)\n                if atom is not None:\n                    base_atoms.append(atom)\n", "order-taint"))
A(M("c14-r6-table-first-comprehension", "C14", TT, LOOP, "            base_atoms.extend(a for a in (residue.find_atom(n) for n in Residue3D.nucleobase_heavy_atoms[residue.one_letter_name.upper()]) if a is not None)\n", "order-taint"))
A(M("c14-r6-table-first-sorted-silent", "C14", TT, LOOP, "            for name in sorted(base_atom_names):\n                atom = residue.find_atom(name)\n                if atom is not None:\n                    base_atoms.append(atom)\n", kind="silent"))
A(M("c14-r6-table-membership-silent", "C14", TT, LOOP, "            wanted = Residue3D.nucleobase_heavy_atoms[residue.one_letter_name.upper()]\n            base_atoms.extend(atom for atom in residue.atoms if atom.name in wanted)\n", kind="silent"))

# ---- C14 type inference: a name reused for values of different types is read, inside a for loop that binds it, with the type the loop gives it
# (the construct of W1's refactor C02/ref1: `_, i, order = name.split("_")` next to `for i, neighbours in graph.items()`)
REUSE = ("                i, order = map(int, name.split(\"_\")[1:])\n                orders[i] = order\n", "                _, i, order = name.split(\"_\")\n                orders[int(i)] = int(order)\n")
LOOPG = ("        for i in graph.keys():\n            for j in graph[i]:\n                for order in range(max_order):\n", "        for i, neighbours in graph.items():\n            for j, order in itertools.product(neighbours, range(max_order)):\n                if True:\n")
A(M("c14-r6-reused-loop-variable-silent", "C14", CM, None, None, kind="silent", edits=[REUSE, LOOPG]))
A(M("c14-r6-reused-loop-variable-str-keys", "C14", CM, None, None, "order-taint", edits=[REUSE, LOOPG, ("            # is pseudoknot?\n            if (k < m < l < n) or (m < k < n < l):\n                graph[i].add(j)\n                graph[j].add(i)\n\n        # return all non-pseudoknotted", "            # is pseudoknot?\n            if (k < m < l < n) or (m < k < n < l):\n                graph[i].add(str(j))\n                graph[j].add(str(i))\n\n        # return all non-pseudoknotted")]))
