"""Round 4, worker W4 (C06, C14, C17, C18, C19, C20): firing mutants and silent twins for the rules generalised in round 4.
One file per (sub-)worker; each exports the list E, imported by selftest/mutants.py.

This file: C17 (sub-worker W4-c17).  Bases: C17-r5 (round-4 refactor: helpers is_supported_atom / vdw_radius /
occupancy_or_full, one list of (residue, atom) pairs, merged filter, setdefault chains in main) and C17-j (round-4 bug:
maxima taken from the last of the atom-sorted records) for the twins that repair it in other shapes."""


def M(id, props, file, old=None, new=None, rule=None, kind="fire", count=1, **kw):
    d = dict(id=id, props=props if isinstance(props, list) else [props], file=file, rule=rule, kind=kind, count=count, **kw)
    if "edits" not in kw:
        d.update(old=old, new=new)
    return d


E = []
A = E.append
CF = "clashfinder.py"
R5 = dict(base="C17-r5")
J = dict(base="C17-j")

# ---------------------------------------------------------------------------------------------------------------------
# report-maxima: the maxima printed per residue pair / chain pair equal the maxima over the listed atom clashes
# (representative list: three records per residue pair with the largest in the middle of file order and of sort order,
# the largest residue pair of a chain pair in the middle, residue pairs that differ in one identity component only)
A(M("c17e-r5-residue-max-overwritten", "C17", CF, "        max_occupancy_residues[residue_key] = max(\n            max_occupancy_residues.get(residue_key, 0.0), occupancy\n        )", "        max_occupancy_residues[residue_key] = occupancy", "report-maxima", **R5))
A(M("c17e-r5-residue-max-first-wins", "C17", CF, "        max_occupancy_residues[residue_key] = max(\n            max_occupancy_residues.get(residue_key, 0.0), occupancy\n        )", "        max_occupancy_residues.setdefault(residue_key, occupancy)", "report-maxima", **R5))
A(M("c17e-r5-max-default-one", "C17", CF, "max_occupancy_residues.get(residue_key, 0.0)", "max_occupancy_residues.get(residue_key, 1.0)", "report-maxima", **R5))
A(M("c17e-j-first-of-sorted", "C17", CF, "atom_clashes[residue_key][-1][2]", "atom_clashes[residue_key][0][2]", "report-maxima", **J))
A(M("c17e-j-max-of-records", "C17", CF, "atom_clashes[residue_key][-1][2]", "max(atom_clashes[residue_key])[2]", "report-maxima", **J))
A(M("c17e-j-chain-max-last-residue-pair", "C17", CF, "max_occupancy_chain = max(max_occupancy_residues.values())", "max_occupancy_chain = list(max_occupancy_residues.values())[-1]", "report-maxima", **J))
A(
    M(
        "c17e-r5-residue-max-by-number",
        "C17",
        CF,
        rule="report-maxima",
        edits=[
            ("        residue_key = (ri, rj)\n", "        residue_key = (ri, rj)\n        number_key = (ri.chain, ri.number, rj.chain, rj.number)\n"),
            ("        max_occupancy_residues[residue_key] = max(\n            max_occupancy_residues.get(residue_key, 0.0), occupancy\n        )", "        max_occupancy_residues[number_key] = max(\n            max_occupancy_residues.get(number_key, 0.0), occupancy\n        )"),
            ('f"    Clashes found in residue {ri} with maximum occupancy sum equal to {max_occupancy_residues[(ri, rj)]}"', 'f"    Clashes found in residue {ri} with maximum occupancy sum equal to {max_occupancy_residues[(ri.chain, ri.number, rj.chain, rj.number)]}"'),
            ('f"    Clashes found between residues {ri} and {rj} with maximum occupancy sum equal to {max_occupancy_residues[(ri, rj)]}"', 'f"    Clashes found between residues {ri} and {rj} with maximum occupancy sum equal to {max_occupancy_residues[(ri.chain, ri.number, rj.chain, rj.number)]}"'),
        ],
        **R5,
    )
)
A(
    M(
        "c17e-r5-chain-max-by-first-chain",
        "C17",
        CF,
        rule="report-maxima",
        edits=[
            ("        max_occupancy_chains[chain_key] = max(\n            max_occupancy_chains.get(chain_key, 0.0), occupancy\n        )", "        max_occupancy_chains[ri.chain] = max(\n            max_occupancy_chains.get(ri.chain, 0.0), occupancy\n        )"),
            ('f"Clashes found in chain {ci} with maximum occupancy sum equal to {max_occupancy_chains[(ci, cj)]}"', 'f"Clashes found in chain {ci} with maximum occupancy sum equal to {max_occupancy_chains[ci]}"'),
            ('f"Clashes found between chains {ci} and {cj} with maximum occupancy sum equal to {max_occupancy_chains[(ci, cj)]}"', 'f"Clashes found between chains {ci} and {cj} with maximum occupancy sum equal to {max_occupancy_chains[ci]}"'),
        ],
        **R5,
    )
)
A(M("c17e-r5-residue-heading-chain-max", "C17", CF, 'f"    Clashes found between residues {ri} and {rj} with maximum occupancy sum equal to {max_occupancy_residues[(ri, rj)]}"', 'f"    Clashes found between residues {ri} and {rj} with maximum occupancy sum equal to {max_occupancy_chains[(ci, cj)]}"', "report-maxima", **R5))
# silent twins: the same maxima computed in other shapes (on top of C17-j, whose shape derives them at print time)
A(M("c17e-j-max-generator-silent", "C17", CF, "atom_clashes[residue_key][-1][2]", "max(occ for _, _, occ in atom_clashes[residue_key])", kind="silent", **J))
A(M("c17e-j-max-key-lambda-silent", "C17", CF, "atom_clashes[residue_key][-1][2]", "max(atom_clashes[residue_key], key=lambda t: t[2])[2]", kind="silent", **J))
A(M("c17e-j-sorted-by-sum-last-silent", "C17", CF, kind="silent", edits=[("atom_clashes[residue_key][-1][2]", "sorted(atom_clashes[residue_key], key=operator.itemgetter(2))[-1][2]"), ("import math\n", "import math\nimport operator\n")], **J))
A(M("c17e-j-chain-max-over-records-silent", "C17", CF, kind="silent", edits=[("max_occupancy_chain = max(max_occupancy_residues.values())", "max_occupancy_chain = max(occ for records in atom_clashes.values() for _, _, occ in records)"), ("atom_clashes[residue_key][-1][2]", "max(record[2] for record in atom_clashes[residue_key])")], **J))
A(M("c17e-j-heapq-silent", "C17", CF, kind="silent", edits=[("atom_clashes[residue_key][-1][2]", "heapq.nlargest(1, (occ for _, _, occ in atom_clashes[residue_key]))[0]"), ("import math\n", "import heapq\nimport math\n")], **J))

# ---------------------------------------------------------------------------------------------------------------------
# cli-arguments decided on the evaluated call of find_clashes (positional or keyword, any order) and on the declared switches
KW_CALL = (
    "        structure3d.residues,\n        args.ignore_occupancy,\n        args.ignore_autoclashes,\n        args.nucleic_acid_only,\n        args.require_same_atom_name,\n        args.enable_molprobity_mode,\n",
    "        structure3d.residues,\n        ignore_occupancy=args.ignore_occupancy,\n        nucleic_acid_only=args.nucleic_acid_only,\n        ignore_autoclashes=args.ignore_autoclashes,\n        require_same_atom_name=args.require_same_atom_name,\n        enable_molprobity_mode=args.enable_molprobity_mode,\n",
)
A(M("c17e-r5-keyword-call-silent", "C17", CF, KW_CALL[0], KW_CALL[1], kind="silent", **R5))
A(M("c17e-r5-keyword-call-crossed", "C17", CF, KW_CALL[0], KW_CALL[1].replace("nucleic_acid_only=args.nucleic_acid_only", "nucleic_acid_only=args.require_same_atom_name").replace("require_same_atom_name=args.require_same_atom_name", "require_same_atom_name=args.nucleic_acid_only"), "cli-arguments", **R5))
A(M("c17e-r5-switch-store-false", "C17", CF, 'help="By default clashes will be reported even in scope of the same residue, but you can disable this behaviour",\n        action="store_true",', 'help="By default clashes will be reported even in scope of the same residue, but you can disable this behaviour",\n        action="store_false",', "cli-arguments", **R5))
A(M("c17e-r5-switch-dest-renamed-silent", "C17", CF, kind="silent", edits=[('help="By default clashes will be reported even in scope of the same residue, but you can disable this behaviour",\n        action="store_true",', 'help="By default clashes will be reported even in scope of the same residue, but you can disable this behaviour",\n        action="store_true",\n        dest="skip_autoclashes",'), ("        args.ignore_autoclashes,\n", "        args.skip_autoclashes,\n")], **R5))
A(M("c17e-r5-switch-dest-crossed", "C17", CF, rule="cli-arguments", edits=[('help="By default clashes will be reported even in scope of the same residue, but you can disable this behaviour",\n        action="store_true",', 'help="By default clashes will be reported even in scope of the same residue, but you can disable this behaviour",\n        action="store_true",\n        dest="ignore_occupancy",'), ('regardless of their occupancy",\n        action="store_true",', 'regardless of their occupancy",\n        action="store_true",\n        dest="ignore_autoclashes",')], **R5))
A(M("c17e-r5-metadata-path", "C17", CF, "            with open(args.input) as f:\n                metadata = read_metadata(f, [\"exptl\", \"refine\"])\n", "            metadata = read_metadata(args.input, [\"exptl\", \"refine\"])\n", "csv-metadata-arg", **R5))
A(M("c17e-r5-metadata-open-inline-silent", "C17", CF, "            with open(args.input) as f:\n                metadata = read_metadata(f, [\"exptl\", \"refine\"])\n", "            source = open(args.input)\n            metadata = read_metadata(source, [\"exptl\", \"refine\"])\n            source.close()\n", kind="silent", **R5))

# ---------------------------------------------------------------------------------------------------------------------
# option-filter: "same residue" is residue identity - residues that share chain / number / insertion code are still two
MERGED = "if (ignore_autoclashes is True and ri == rj) or ("
A(M("c17e-r5-autoclash-by-number", "C17", CF, MERGED, "if (ignore_autoclashes is True and ri.number == rj.number) or (", "option-filter", **R5))
A(M("c17e-r5-autoclash-by-chain-number", "C17", CF, MERGED, "if (ignore_autoclashes is True and (ri.chain, ri.number) == (rj.chain, rj.number)) or (", "option-filter", **R5))
A(M("c17e-r5-autoclash-by-position-key", "C17", CF, MERGED, "if (ignore_autoclashes is True and (ri.chain, ri.number, ri.icode) == (rj.chain, rj.number, rj.icode)) or (", "option-filter", **R5))
A(M("c17e-r5-autoclash-identity-silent", "C17", CF, MERGED, "if (ignore_autoclashes is True and ri is rj) or (", kind="silent", **R5))
A(M("c17e-r5-same-name-by-element", "C17", CF, "require_same_atom_name is True and ai.name != aj.name", "require_same_atom_name is True and ai.name[0] != aj.name[0]", "option-filter", **R5))
# collection: atom typing is decided on the evaluated structure (hydrogens named HO.. / HN.. next to typed atoms), not on the text of AtomType.matches
A(M("c17e-r5-matches-contains", "C17", CF, "return atom.name.strip().startswith(self.value)", "return self.value in atom.name", ["clash-definition", "collection"], **R5))
A(M("c17e-r5-matches-hydrogens-too", "C17", CF, "return atom.name.strip().startswith(self.value)", "return atom.name.strip().lstrip(\"H\").startswith(self.value)", ["clash-definition", "collection"], **R5))
A(M("c17e-r5-matches-first-letter-silent", "C17", CF, "return atom.name.strip().startswith(self.value)", "name = atom.name.strip()\n        return name[:1] == self.value", kind="silent", **R5))
# occupancy-rule: a sum close to but not 1 (0.5 + 0.49) is not 1
A(M("c17e-r5-occupancy-tolerance-wide", "C17", CF, "math.isclose(sum_occupancies, 1.0)", "abs(sum_occupancies - 1.0) < 0.05", "occupancy-rule", **R5))
A(M("c17e-r5-occupancy-rounded", "C17", CF, "math.isclose(sum_occupancies, 1.0)", "round(sum_occupancies, 1) == 1.0", "occupancy-rule", **R5))
A(M("c17e-r5-occupancy-abs-tol-silent", "C17", CF, "math.isclose(sum_occupancies, 1.0)", "math.isclose(sum_occupancies, 1.0, abs_tol=1e-9)", kind="silent", **R5))
A(M("c17e-r5-occupancy-exact-silent", "C17", CF, "math.isclose(sum_occupancies, 1.0)", "abs(sum_occupancies - 1.0) <= 1e-9", kind="silent", **R5))

# ---------------------------------------------------------------------------------------------------------------------
# shapes the evaluator reads (silent) and the same fact violated in that shape (firing)
NT = [
    ("def is_supported_atom(", "class Candidate(NamedTuple):\n    residue: Residue3D\n    atom: Atom\n\n\ndef is_supported_atom("),
    ("from typing import ", "from typing import NamedTuple, "),
    ("reference.append((residue, atom))", "reference.append(Candidate(residue, atom))"),
]
NT_OK = ("        (ri, ai), (rj, aj) = reference[i], reference[j]\n", "        ci, cj = reference[i], reference[j]\n        ri, ai, rj, aj = ci.residue, ci.atom, cj.residue, cj.atom\n")
A(M("c17e-r5-namedtuple-records-silent", "C17", CF, kind="silent", edits=NT + [NT_OK], **R5))
A(M("c17e-r5-namedtuple-wrong-atom", "C17", CF, rule=["pair-roles", "clash-definition", "distance-threshold"], edits=NT + [(NT_OK[0], NT_OK[1].replace("cj.residue, cj.atom", "cj.residue, ci.atom"))], **R5))
GEN_HELPER = "def candidate_atoms(residues, nucleic_acid_only):\n    for residue in residues:\n        if nucleic_acid_only is True:\n            if not residue.is_nucleotide:\n                continue\n        elif nucleic_acid_only is not False:\n            continue\n        for atom in residue.atoms:\n            if is_supported_atom(atom):\n                yield residue, atom\n\n\ndef find_clashes("
GEN_LOOP = (
    "    for residue in residues:\n        if nucleic_acid_only is True:\n            if not residue.is_nucleotide:\n                continue\n        elif nucleic_acid_only is not False:\n            continue\n        for atom in residue.atoms:\n            if is_supported_atom(atom):\n                reference.append((residue, atom))\n                coordinates.append(atom.coordinates)\n",
    "    for residue, atom in candidate_atoms(residues, nucleic_acid_only):\n        reference.append((residue, atom))\n        coordinates.append(atom.coordinates)\n",
)
A(M("c17e-r5-generator-helper-silent", "C17", CF, kind="silent", edits=[GEN_LOOP, ("def find_clashes(", GEN_HELPER)], **R5))
A(M("c17e-r5-generator-helper-flipped", "C17", CF, rule="collection", edits=[GEN_LOOP, ("def find_clashes(", GEN_HELPER.replace("if not residue.is_nucleotide:", "if residue.is_nucleotide:"))], **R5))
NP_ARR = [("    kdtree = KDTree(coordinates)\n", "    coordinates = np.array(coordinates)\n    kdtree = KDTree(coordinates)\n")]
A(M("c17e-r5-numpy-points-silent", "C17", CF, kind="silent", edits=NP_ARR + [("distance = np.linalg.norm(ai.coordinates - aj.coordinates)", "distance = np.linalg.norm(coordinates[i] - coordinates[j])")], **R5))
A(M("c17e-r5-numpy-points-same-index", "C17", CF, rule="distance-threshold", edits=NP_ARR + [("distance = np.linalg.norm(ai.coordinates - aj.coordinates)", "distance = np.linalg.norm(coordinates[i] - coordinates[i])")], **R5))
QP = "    for i, j in kdtree.query_pairs(2.0 * max_radius + molprobity_factor):\n"
A(M("c17e-r5-ball-query-silent", "C17", CF, QP, "    neighbours = kdtree.query_ball_point(coordinates, 2.0 * max_radius + molprobity_factor)\n    for i, j in ((i, j) for i, close in enumerate(neighbours) for j in close if i < j):\n", kind="silent", **R5))
A(M("c17e-r5-ball-query-both-orders", "C17", CF, QP, "    neighbours = kdtree.query_ball_point(coordinates, 2.0 * max_radius + molprobity_factor)\n    for i, j in ((i, j) for i, close in enumerate(neighbours) for j in close if i != j):\n", "pair-roles", **R5))
PER_POINT = "    pairs = []\n    for i, point in enumerate(coordinates):\n        for j in kdtree.query_ball_point(point, RADIUS):\n            if j > i:\n                pairs.append((i, j))\n    for i, j in pairs:\n"
A(M("c17e-r5-per-point-query-silent", "C17", CF, QP, PER_POINT.replace("RADIUS", "vdw_radius(reference[i][1]) + max_radius + molprobity_factor"), kind="silent", **R5))
A(M("c17e-r5-per-point-query-no-margin", "C17", CF, QP, PER_POINT.replace("RADIUS", "vdw_radius(reference[i][1]) + max_radius"), ["distance-threshold", "search-radius"], **R5))
A(M("c17e-r5-getattr-occupancy-silent", "C17", CF, "    return 1.0 if atom.occupancy is None else atom.occupancy\n", "    value = getattr(atom, \"occupancy\", None)\n    return 1.0 if value is None else value\n", kind="silent", **R5))
A(M("c17e-r5-getattr-occupancy-falsy", "C17", CF, "    return 1.0 if atom.occupancy is None else atom.occupancy\n", "    value = getattr(atom, \"occupancy\", None)\n    return value if value else 1.0\n", ["occupancy-rule", "occupancy-sum"], **R5))
# main: aggregation in a helper / in a small class, report written in other ways
AGG_LOOP = "    for (ri, ai), (rj, aj), occupancy in clashes:\n        chain_key = (ri.chain, rj.chain)\n        residue_key = (ri, rj)\n\n        clashing_chains.setdefault(chain_key, {}).setdefault(residue_key, set()).add(\n            (ai, aj, occupancy)\n        )\n        max_occupancy_residues[residue_key] = max(\n            max_occupancy_residues.get(residue_key, 0.0), occupancy\n        )\n        max_occupancy_chains[chain_key] = max(\n            max_occupancy_chains.get(chain_key, 0.0), occupancy\n        )\n"
CLASS_DEF = "class ClashSummary:\n    def __init__(self):\n        self.chains = {}\n        self.max_residues = {}\n        self.max_chains = {}\n\n    def add(self, ri, ai, rj, aj, occupancy):\n        chain_key = (ri.chain, rj.chain)\n        residue_key = (ri, rj)\n        self.chains.setdefault(chain_key, {}).setdefault(residue_key, set()).add((ai, aj, occupancy))\n        self.max_residues[residue_key] = max(self.max_residues.get(residue_key, 0.0), occupancy)\n        self.max_chains[chain_key] = max(self.max_chains.get(chain_key, 0.0), occupancy)\n\n\ndef main():\n"
CLASS_USE = "    summary = ClashSummary()\n    for (ri, ai), (rj, aj), occupancy in clashes:\n        summary.add(ri, ai, rj, aj, occupancy)\n    clashing_chains = summary.chains\n    max_occupancy_residues = summary.max_residues\n    max_occupancy_chains = summary.max_chains\n"
A(M("c17e-r5-summary-class-silent", "C17", CF, kind="silent", edits=[(AGG_LOOP, CLASS_USE), ("def main():\n", CLASS_DEF)], **R5))
A(M("c17e-r5-summary-class-chain-max-last", "C17", CF, rule="report-maxima", edits=[(AGG_LOOP, CLASS_USE), ("def main():\n", CLASS_DEF.replace("self.max_chains[chain_key] = max(self.max_chains.get(chain_key, 0.0), occupancy)", "self.max_chains[chain_key] = occupancy"))], **R5))
A(M("c17e-r5-summary-class-swapped-record", "C17", CF, rule="report-grouping", edits=[(AGG_LOOP, CLASS_USE), ("def main():\n", CLASS_DEF.replace(".add((ai, aj, occupancy))", ".add((aj, ai, occupancy))"))], **R5))
HELPER_DEF = "def group_clashes(clashes):\n    clashing_chains = {}\n    max_occupancy_residues = {}\n    max_occupancy_chains = {}\n" + AGG_LOOP + "    return clashing_chains, max_occupancy_residues, max_occupancy_chains\n\n\ndef main():\n"
HELPER_USE = "    clashing_chains, max_occupancy_residues, max_occupancy_chains = group_clashes(clashes)\n"
DROP_DICTS = ("    clashing_chains = {}\n    max_occupancy_residues = {}\n    max_occupancy_chains = {}\n\n    clashes = find_clashes(", "    clashes = find_clashes(")
A(M("c17e-r5-group-helper-silent", "C17", CF, kind="silent", edits=[(AGG_LOOP, HELPER_USE), DROP_DICTS, ("def main():\n", HELPER_DEF)], **R5))
A(M("c17e-r5-group-helper-sorted-key", "C17", CF, rule="report-grouping", edits=[(AGG_LOOP, HELPER_USE), DROP_DICTS, ("def main():\n", HELPER_DEF.replace("        residue_key = (ri, rj)\n", "        residue_key = tuple(sorted((ri, rj)))\n"))], **R5))
A(M("c17e-r5-group-helper-returns-swapped", "C17", CF, rule=["report-maxima", "report-clashes"], edits=[(AGG_LOOP, HELPER_USE), DROP_DICTS, ("def main():\n", HELPER_DEF.replace("    return clashing_chains, max_occupancy_residues, max_occupancy_chains\n", "    return clashing_chains, max_occupancy_chains, max_occupancy_residues\n"))], **R5))
ATOM_PRINT = "                for ai, aj, occupancy in sorted(clashing_chains[(ci, cj)][(ri, rj)]):\n                    print(\n                        f\"        Clashes found between atoms {ai.name} and {aj.name} with occupancy sum of {occupancy}\"\n                    )"
A(M("c17e-r5-print-star-lines-silent", "C17", CF, ATOM_PRINT, "                print(\n                    *(\n                        f\"        Clashes found between atoms {ai.name} and {aj.name} with occupancy sum of {occupancy}\"\n                        for ai, aj, occupancy in sorted(clashing_chains[(ci, cj)][(ri, rj)])\n                    ),\n                    sep=\"\\n\",\n                )", kind="silent", **R5))
A(M("c17e-r5-print-star-lines-unsorted", "C17", CF, ATOM_PRINT, "                print(\n                    *(\n                        f\"        Clashes found between atoms {ai.name} and {aj.name} with occupancy sum of {occupancy}\"\n                        for ai, aj, occupancy in clashing_chains[(ci, cj)][(ri, rj)]\n                    ),\n                    sep=\"\\n\",\n                )", "report-loops", **R5))
A(M("c17e-r5-stdout-write-silent", "C17", CF, kind="silent", edits=[(ATOM_PRINT, "                for ai, aj, occupancy in sorted(clashing_chains[(ci, cj)][(ri, rj)]):\n                    sys.stdout.write(\n                        f\"        Clashes found between atoms {ai.name} and {aj.name} with occupancy sum of {occupancy}\\n\"\n                    )"), ("import os\n", "import os\nimport sys\n")], **R5))
A(M("c17e-r5-stdout-write-first-only", "C17", CF, rule="report-clashes", edits=[(ATOM_PRINT, "                for ai, aj, occupancy in sorted(clashing_chains[(ci, cj)][(ri, rj)])[:1]:\n                    sys.stdout.write(\n                        f\"        Clashes found between atoms {ai.name} and {aj.name} with occupancy sum of {occupancy}\\n\"\n                    )"), ("import os\n", "import os\nimport sys\n")], **R5))
CSV_ROW = ("                            writer.writerow(\n                                [\n                                    f\"{os.path.splitext(os.path.basename(args.input))[0]}\",\n                                    metadata_value(metadata, \"exptl\", \"method\"),\n                                    metadata_value(metadata, \"refine\", \"ls_d_res_high\"),\n                                    f\"{ri} {ai.name}\",\n                                    f\"{rj} {aj.name}\",\n                                    occupancy,\n                                    classify_clash(ai, aj, occupancy),\n                                ]\n                            )")
CSV_HEAD = "                writer = csv.writer(f)\n                writer.writerow(\n                    [\n                        \"Filename\",\n                        \"Experimental method\",\n                        \"Resolution\",\n                        \"Atom 1\",\n                        \"Atom 2\",\n                        \"Occupancy sum\",\n                        \"Classification\",\n                    ]\n                )\n"
DICT_HEAD = "                fields = [\"Filename\", \"Experimental method\", \"Resolution\", \"Atom 1\", \"Atom 2\", \"Occupancy sum\", \"Classification\"]\n                writer = csv.DictWriter(f, fieldnames=fields)\n                writer.writeheader()\n"
DICT_ROW = "                            writer.writerow(\n                                {\n                                    \"Filename\": Path(args.input).stem,\n                                    \"Experimental method\": metadata_value(metadata, \"exptl\", \"method\"),\n                                    \"Resolution\": metadata_value(metadata, \"refine\", \"ls_d_res_high\"),\n                                    \"Atom 1\": f\"{ri} {ai.name}\",\n                                    \"Atom 2\": f\"{rj} {aj.name}\",\n                                    \"Occupancy sum\": occupancy,\n                                    \"Classification\": classify_clash(ai, aj, occupancy),\n                                }\n                            )"
PATH_IMPORT = ("import os\n", "import os\nfrom pathlib import Path\n")
A(M("c17e-r5-dictwriter-path-silent", "C17", CF, kind="silent", edits=[(CSV_HEAD, DICT_HEAD), (CSV_ROW, DICT_ROW), PATH_IMPORT], **R5))
A(M("c17e-r5-dictwriter-atoms-crossed", "C17", CF, rule="report-grouping", edits=[(CSV_HEAD, DICT_HEAD), (CSV_ROW, DICT_ROW.replace("\"Atom 1\": f\"{ri} {ai.name}\"", "\"Atom 1\": f\"{ri} {aj.name}\"").replace("\"Atom 2\": f\"{rj} {aj.name}\"", "\"Atom 2\": f\"{rj} {ai.name}\"")), PATH_IMPORT], **R5))
A(M("c17e-r5-defaultdict-silent", "C17", CF, kind="silent", edits=[("    clashing_chains = {}\n", "    from collections import defaultdict\n\n    clashing_chains = defaultdict(lambda: defaultdict(set))\n"), ("        clashing_chains.setdefault(chain_key, {}).setdefault(residue_key, set()).add(\n            (ai, aj, occupancy)\n        )", "        clashing_chains[chain_key][residue_key].add((ai, aj, occupancy))")], **R5))
A(M("c17e-r5-defaultdict-list-unsorted", "C17", CF, rule="report-loops", edits=[("    clashing_chains = {}\n", "    from collections import defaultdict\n\n    clashing_chains = defaultdict(lambda: defaultdict(set))\n"), ("        clashing_chains.setdefault(chain_key, {}).setdefault(residue_key, set()).add(\n            (ai, aj, occupancy)\n        )", "        clashing_chains[chain_key][residue_key].add((ai, aj, occupancy))"), ("                for ai, aj, occupancy in sorted(clashing_chains[(ci, cj)][(ri, rj)]):\n                    print(", "                for ai, aj, occupancy in clashing_chains[(ci, cj)][(ri, rj)]:\n                    print(")], **R5))

# ---------------------------------------------------------------------------------------------------------------------
# fallback (a statement the evaluator does not read): a merged filter is unreadable in the pinned form, not an extra filter;
# a keyword call is read by the pinned cli rule as well
A(M("c17-r5-fallback-merged-filter-unrecognised", "C17", CF, "    kdtree = KDTree(coordinates)\n", "    kdtree = KDTree(coordinates)\n    del coordinates\n", kind="unrecognised", **R5))
A(M("c17-fallback-keyword-call-silent", "C17", CF, kind="silent", edits=[KW_CALL, ("    args = parser.parse_args()\n", "    args = parser.parse_args()\n    del parser\n")]))
A(M("c17-fallback-keyword-call-crossed", "C17", CF, rule="cli-arguments", edits=[(KW_CALL[0], KW_CALL[1].replace("ignore_occupancy=args.ignore_occupancy", "ignore_occupancy=args.ignore_autoclashes").replace("ignore_autoclashes=args.ignore_autoclashes", "ignore_autoclashes=args.ignore_occupancy")), ("    args = parser.parse_args()\n", "    args = parser.parse_args()\n    del parser\n")]))

# ---------------------------------------------------------------------------------------------------------------------
# the nucleotide filter moved from the collection loop into the clash loop: decided by the table (both residues must be
# nucleotides), its conditions are features of the definition
TAKE_ALL = ("        if (\n            nucleic_acid_only is True and residue.is_nucleotide\n        ) or nucleic_acid_only is False:\n            for atom in residue.atoms:", "        if True:\n            for atom in residue.atoms:")
AUTO = "        if ignore_autoclashes is True and ri == rj:\n"
A(M("c17e-nucleotide-filter-in-pair-loop-silent", "C17", CF, kind="silent", edits=[TAKE_ALL, (AUTO, "        if nucleic_acid_only is True and not (ri.is_nucleotide and rj.is_nucleotide):\n            continue\n" + AUTO)]))
A(M("c17e-nucleotide-filter-in-pair-loop-one-sided", "C17", CF, rule="collection", edits=[TAKE_ALL, (AUTO, "        if nucleic_acid_only is True and not ri.is_nucleotide:\n            continue\n" + AUTO)]))
A(M("c17e-nucleotide-filter-in-pair-loop-either", "C17", CF, rule="collection", edits=[TAKE_ALL, (AUTO, "        if nucleic_acid_only is True and not (ri.is_nucleotide or rj.is_nucleotide):\n            continue\n" + AUTO)]))
# a de-duplication keyed by residues and atom names drops alternate conformations (same name, same residue): an additional filter
A(M("c17e-dedupe-by-atom-names", "C17", CF, rule="option-extra-filter", edits=[("    result = []\n", "    result = []\n    seen = set()\n"), ("        distance = np.linalg.norm(ai.coordinates - aj.coordinates)\n", "        key = (ri, ai.name, rj, aj.name)\n        if key in seen:\n            continue\n        seen.add(key)\n        distance = np.linalg.norm(ai.coordinates - aj.coordinates)\n")]))
A(M("c17e-csv-sum-is-residue-maximum", "C17", CF, "                                    occupancy,\n                                    classify_clash", "                                    max_occupancy_residues[(ri, rj)],\n                                    classify_clash", "report-clashes"))
