"""Round 6, worker W4 (C06, C14, C17, C18, C19, C20): firing mutants and silent twins for the rules generalised in round 6.
One file per (sub-)worker; each exports the list E, imported by selftest/mutants.py."""


def M(id, props, file, old, new, rule=None, kind="fire", count=1, **kw):
    return dict(id=id, props=props if isinstance(props, list) else [props], file=file, old=old, new=new, rule=rule, kind=kind, count=count, **kw)


E = []
A = E.append

# ======================================================================================================================
# sub-worker W4-c18 (C18; C15's chi part), round 6
# * borrowed-array-write: DataFrame / Series parameters, arrays sharing memory with the returned table (to_numpy / .values)
# * torsion-wrapper evaluated over placements (an atom at the origin, atoms in a coordinate plane)
# * chi evaluated through generator-based getters (yield, next(filter(None, ...)))
# ======================================================================================================================
TT, T2 = "tertiary.py", "tertiary_v2.py"
R8, R9 = dict(base="C18-r8"), dict(base="C18-r9")
_RET = "        df = df[ordered_columns]\n\n        return df\n"
A(M("c18q-degrees-in-place", "C18", T2, _RET, "        df = df[ordered_columns]\n        for name in [\"alpha\", \"chi\"]:\n            values = df[name].to_numpy(dtype=float)\n            values *= 180.0 / np.pi\n\n        return df\n", "borrowed-array-write"))
A(M("c18q-values-in-place", "C18", T2, _RET, "        df = df[ordered_columns]\n        chi = df[\"chi\"].values\n        chi[chi < 0] += 2 * np.pi\n\n        return df\n", "borrowed-array-write"))
A(M("c18q-helper-param", "C18", T2, "        df = df[ordered_columns]\n\n        return df\n\n", "        df = df[ordered_columns]\n        self._wrap(df)\n\n        return df\n\n    @staticmethod\n    def _wrap(table: pd.DataFrame) -> None:\n        for name in [\"alpha\", \"chi\"]:\n            column = np.asarray(table[name])\n            column %= 2 * np.pi\n\n", "borrowed-array-write"))
A(M("c18q-degrees-copy-silent", "C18", T2, _RET, "        df = df[ordered_columns]\n        for name in [\"alpha\", \"chi\"]:\n            values = df[name].to_numpy(dtype=float) * (180.0 / np.pi)\n            values += 0.0\n\n        return df\n", kind="silent"))
A(M("c18q-to-numpy-copy-silent", "C18", T2, _RET, "        df = df[ordered_columns]\n        for name in [\"alpha\", \"chi\"]:\n            values = df[name].to_numpy(dtype=float, copy=True)\n            values *= 180.0 / np.pi\n\n        return df\n", kind="silent"))
A(M("c18q-np-degrees-silent", "C18", T2, _RET, "        df = df[ordered_columns]\n        summary = {name: np.degrees(df[name].to_numpy(dtype=float)) for name in [\"alpha\", \"chi\"]}\n\n        return df\n", kind="silent"))
A(M("c18q-r9-degrees-in-place", "C18", T2, _RET, "        df = df[ordered_columns]\n        for name in [\"alpha\", \"chi\"]:\n            values = df[name].to_numpy(dtype=float)\n            values *= 180.0 / np.pi\n\n        return df\n", "borrowed-array-write", **R9))

# ---- torsion_angle: the value does not depend on where the atoms sit ------------------------------------------------------------------
_WRAP = "    return calculate_torsion_angle_coords(\n        a1.coordinates, a2.coordinates, a3.coordinates, a4.coordinates\n    )\n"
A(M("c18o-origin-guard", "C18", TT, _WRAP, "    if not all(atom.coordinates.any() for atom in (a1, a2, a3, a4)):\n        return math.nan\n" + _WRAP, "torsion-wrapper"))
A(M("c18o-zero-component-guard", "C18", TT, _WRAP, "    if not a2.coordinates.all():\n        return 0.0\n" + _WRAP, "torsion-wrapper"))
A(M("c18o-origin-pseudoatom-silent", "C18", TT, _WRAP, "    if any(atom.name == \"UNK\" and atom.entity_id is None for atom in (a1, a2, a3, a4)):\n        pass\n" + _WRAP, kind="silent"))
A(M("c18o-list-silent", "C18", TT, _WRAP, "    coordinates = [atom.coordinates for atom in (a1, a2, a3, a4)]\n    return calculate_torsion_angle_coords(*coordinates)\n", kind="silent"))
A(M("c18o-r8-origin-guard", "C18", TT, None, None, "torsion-wrapper", edits=[("def torsion_angle(a1: Atom, a2: Atom, a3: Atom, a4: Atom) -> float:\n    \"\"\"Calculates the torsion angle between four atoms.\"\"\"\n", "def torsion_angle(a1: Atom, a2: Atom, a3: Atom, a4: Atom) -> float:\n    \"\"\"Calculates the torsion angle between four atoms.\"\"\"\n    if not a3.coordinates.any():\n        return math.nan\n")], **R8))

# ---- chi through best-effort getters / generators ---------------------------------------------------------------------------------------
A(M("c18p-purine-outermost", ["C18", "C15"], TT, '            self.find_atom("N9"),\n            self.find_atom("C4"),\n', '            self.outermost_atom,\n            self.find_atom("C4"),\n', ["chi-atoms", "chi-dispatch"]))
A(M("c18p-generator-silent", ["C18", "C15"], TT, '            self.find_atom("N9"),\n            self.find_atom("C4"),\n', '            next(filter(None, (self.find_atom(name) for name in ("N9",))), None),\n            self.find_atom("C4"),\n', kind="silent"))
A(M("c18p-generator-fallback", "C18", TT, '            self.find_atom("N9"),\n            self.find_atom("C4"),\n', '            next(filter(None, (self.find_atom(name) for name in ("N9", "N7"))), None),\n            self.find_atom("C4"),\n', ["chi-atoms", "chi-dispatch"]))
