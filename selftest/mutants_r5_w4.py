"""Round 5, worker W4 (C06, C14, C17, C18, C19, C20): firing mutants and silent twins for the rules generalised in round 5.
One file per (sub-)worker; each exports the list E, imported by selftest/mutants.py."""


def M(id, props, file, old, new, rule=None, kind="fire", count=1, **kw):
    return dict(id=id, props=props if isinstance(props, list) else [props], file=file, old=old, new=new, rule=rule, kind=kind, count=count, **kw)


E = []
A = E.append

TT, CM, AN = "tertiary.py", "common.py", "annotator.py"

# ---- C06 on the refactored base C06-r6 (conflict resolution through a static __first_conflict helper, numbering in __number_nucleotides over zip([None] + n, n))
B6 = dict(base="C06-r6")
A(M("c06e-r6-conflict-threshold", "C06", TT, "return next((pairs for pairs in matches.values() if len(pairs) > 1), None)", "return next((pairs for pairs in matches.values() if len(pairs) > 2), None)", "resolution-fact", **B6))
A(M("c06e-r6-single-removal", "C06", TT, "        while conflict is not None:\n            canonical.remove(sorted(conflict, key=pair_scoring_function)[-1])\n            conflict = self.__first_conflict(canonical)", "        if conflict is not None:\n            canonical.remove(sorted(conflict, key=pair_scoring_function)[-1])", "resolution-fact", **B6))
A(M("c06e-r6-placeholder-number", "C06", TT, '                    rows.append([len(rows) + 1, "?", 0])', '                    rows.append([len(rows), "?", 0])', "numbering-fact", **B6))
A(M("c06e-r6-gap-any-chain", "C06", TT, "                and not previous.is_connected(residue)\n                and previous.chain == residue.chain\n", "                and not previous.is_connected(residue)\n", "numbering-fact", **B6))
A(M("c06e-r6-partner-one-way", "C06", TT, "                rows[j - 1][2] = k\n                rows[k - 1][2] = j", "                rows[j - 1][2] = k", "numbering-fact", **B6))
A(M("c06e-r6-setdefault-get-silent", ["C06", "C14"], TT, "                pairs = matches.setdefault(residue, [])\n                if base_pair not in pairs:\n                    pairs.append(base_pair)", "                if residue not in matches:\n                    matches[residue] = []\n                if base_pair not in matches[residue]:\n                    matches[residue].append(base_pair)", kind="silent", **B6))
A(M("c06e-r6-max-silent", ["C06", "C14"], TT, "canonical.remove(sorted(conflict, key=pair_scoring_function)[-1])", "canonical.remove(sorted(conflict, key=pair_scoring_function).pop())", kind="silent", **B6))

# ---- C06 on the refactored base C06-r7 (strands by itertools.groupby + zip(members, members[1:]), slices by itertools.accumulate, one __format_strands)
B7 = dict(base="C06-r7")
A(M("c06e-r7-groupby-sorted", "C06", TT, "itertools.groupby(nucleotides, key=lambda r: r.chain)", "itertools.groupby(sorted(nucleotides, key=lambda r: r.chain), key=lambda r: r.chain)", "strands-fact", **B7))
A(M("c06e-r7-zip-skip", "C06", TT, "for previous, residue in zip(members, members[1:]):", "for previous, residue in zip(members, members[2:]):", "strands-fact", **B7))
A(M("c06e-r7-slice-shifted", "C06", TT, "dbn_structure[end - length : end] for length, end in zip(lengths, ends)", "dbn_structure[end - length + 1 : end + 1] for length, end in zip(lengths, ends)", "strand-text-fact", **B7))
A(M("c06e-r7-accumulate-from-second", "C06", TT, "ends = list(itertools.accumulate(lengths))", "ends = list(itertools.accumulate(lengths[1:] + lengths[:1]))", "strand-text-fact", **B7))
A(M("c06e-r7-header-sequence-swapped", "C06", TT, 'lines += [f">strand_{chain}", sequence, dbn]', 'lines += [f">strand_{chain}", dbn, sequence]', "strand-text-fact", **B7))
A(M("c06e-r7-extend-len-silent", "C06", TT, 'letters.extend("?" for _ in missing)', 'letters.extend("?" * len(missing))', kind="silent", **B7))
A(M("c06e-r7-running-sum-silent", "C06", TT, "        ends = list(itertools.accumulate(lengths))\n", "        ends, total = [], 0\n        for length in lengths:\n            total += length\n            ends.append(total)\n", kind="silent", **B7))

# ---- C06 clean tree: the first row free for BOTH residues (stored instance: C06-m, two consecutive while loops over a residue -> rows index)
PACK = "                    for row, used in zip(rows, used_per_row):\n                        if base_pair.nt1 not in used and base_pair.nt2 not in used:\n                            row.append(base_pair)\n                            used.add(base_pair.nt1)\n                            used.add(base_pair.nt2)\n                            break\n                    else:\n                        rows.append([base_pair])\n                        used_per_row.append({base_pair.nt1, base_pair.nt2})\n"
A(M("c06e-r5-pack-one-end-only", "C06", TT, "if base_pair.nt1 not in used and base_pair.nt2 not in used:", "if base_pair.nt1 not in used:", "extended-fact"))
A(M("c06e-r5-pack-index-both-silent", "C06", TT, None, None, kind="silent", edits=[
    ("            rows, used_per_row = [], []\n", "            rows, used_per_row = [], []\n            rows_of = defaultdict(set)\n"),
    (PACK, "                    index = 0\n                    while index in rows_of[base_pair.nt1] or index in rows_of[base_pair.nt2]:\n                        index += 1\n                    if index == len(rows):\n                        rows.append([])\n                    rows[index].append(base_pair)\n                    rows_of[base_pair.nt1].add(index)\n                    rows_of[base_pair.nt2].add(index)\n")]))
A(M("c06e-r5-pack-index-second-unchecked", "C06", TT, None, None, "extended-fact", edits=[
    ("            rows, used_per_row = [], []\n", "            rows, used_per_row = [], []\n            rows_of = defaultdict(set)\n"),
    (PACK, "                    index = 0\n                    while index in rows_of[base_pair.nt2]:\n                        index += 1\n                    while index in rows_of[base_pair.nt1]:\n                        index += 1\n                    if index == len(rows):\n                        rows.append([])\n                    rows[index].append(base_pair)\n                    rows_of[base_pair.nt1].add(index)\n                    rows_of[base_pair.nt2].add(index)\n")]))
# a chain id that comes back after another chain is a strand of its own (stored instance: C06-n, letters collected in a dict keyed by chain id)
A(M("c06e-r5-strand-per-seen-chain", "C06", TT, "            if residue.chain != previous.chain:\n                result.append((residue.chain, [residue.one_letter_name]))", "            if residue.chain not in [chain for chain, _ in result]:\n                result.append((residue.chain, [residue.one_letter_name]))", "strands-fact"))

# ---- C14 type inference on refactored bases: helpers without annotations are typed at their call sites (base C14-r6: conflict-graph /
# __connected_components / __greedy_orders helpers); the element type of `unique` decides whether product(*unique) is hash-seed dependent
B14 = dict(base="C14-r6")
A(M("c14-r6-orders-by-name", "C14", CM, "        return frozenset(orders.items())", "        return frozenset((str(region), order) for region, order in orders.items())", "order-taint", **B14))
A(M("c14-r6-components-set", "C14", CM, "            component = [vertex]\n", "            component = [vertex]\n            labels = {str(vertex), \"root\"}\n            component.extend(int(label) for label in labels if label.isdigit() and int(label) != vertex)\n", "order-taint", **B14))
A(M("c14-r6-range-silent", "C14", CM, "order for order in range(len(permutation)) if order not in taken", "order for order in itertools.count() if order not in taken", kind="silent", **B14))
A(M("c14-r6-tuple-silent", "C14", CM, "        return frozenset(orders.items())", "        return frozenset((region, order) for region, order in orders.items())", kind="silent", **B14))

# ---- C14: state of a module or a class outlives the call (stored instance: C14-n, pulp.LpSolverDefault = None inside the solver-error handler)
A(M("c14-r5-module-attr-normal-path", "C14", CM, "        if solver is not None:\n            solver.msg = False\n", "        if solver is not None:\n            solver.msg = False\n            pulp.LpSolverDefault = solver\n", "shared-state"))
A(M("c14-r5-class-attr-counter", "C14", CM, "        # if PuLP solvers are not installed, use FCFS\n        if solver is None:\n            return self.fcfs\n", "        # if PuLP solvers are not installed, use FCFS\n        if solver is None:\n            BpSeq.fallbacks = getattr(BpSeq, \"fallbacks\", 0) + 1\n            return self.fcfs\n", "shared-state"))
A(M("c14-r5-environ-write", "C14", AN, "    file = handle_input_file(args.input)\n    structure3d = read_3d_structure(file, None)\n    structure2d, dot_brackets = extract_secondary_structure(", "    os.environ[\"RNAPOLIS_LAST_INPUT\"] = args.input\n    file = handle_input_file(args.input)\n    structure3d = read_3d_structure(file, None)\n    structure2d, dot_brackets = extract_secondary_structure(", "shared-state"))
A(M("c14-r5-local-copy-attr-silent", "C14", CM, "        if solver is not None:\n            solver.msg = False\n", "        if solver is not None:\n            solver = solver.copy() if hasattr(solver, \"copy\") else solver\n            solver.msg = False\n", kind="silent"))

# ---- C14: an in-place numpy operation through an alias of an array kept per object (sa/alias.py; stored instance: C18-m)
MEAN = "        coordinates = [atom.coordinates for atom in base_atoms]\n        return numpy.mean(coordinates, axis=0)\n"
A(M("c14-r5-centroid-accumulates-in-atom", ["C14", "C18"], TT, MEAN, "        total = base_atoms[0].coordinates\n        for atom in base_atoms[1:]:\n            total += atom.coordinates\n        return total / len(base_atoms)\n", "borrowed-array-write"))
A(M("c14-r5-centroid-out-parameter", ["C14", "C18"], TT, MEAN, "        coordinates = [atom.coordinates for atom in base_atoms]\n        return numpy.mean(coordinates, axis=0, out=base_atoms[0].coordinates)\n", "borrowed-array-write"))
A(M("c14-r5-centroid-own-copy-silent", ["C14", "C18"], TT, MEAN, "        total = base_atoms[0].coordinates.copy()\n        for atom in base_atoms[1:]:\n            total += atom.coordinates\n        return total / len(base_atoms)\n", kind="silent"))
A(M("c14-r5-centroid-zeros-silent", ["C14", "C18"], TT, MEAN, "        total = numpy.zeros(3)\n        for atom in base_atoms:\n            total += atom.coordinates\n        return total / len(base_atoms)\n", kind="silent"))
