"""Round 4, worker W1 (C01, C02, C12, C13, C16): firing mutants and silent twins for the classes added in round 4
(first character of a multi-strand structure line, encoders asked after a derivation, process histories over structures
with equal stem anchors, a solver that fails first and works later, the printed list of Mapping2D3D), mostly on top of the
stored round-4 refactors (base=...)."""
import os as _os


def M(id, props, file, old, new, rule=None, kind="fire", count=1, **kw):
    return dict(id=id, props=props if isinstance(props, list) else [props], file=file, old=old, new=new, rule=rule, kind=kind, count=count, **kw)


C, T3 = "common.py", "tertiary.py"
_P = _os.path.join(_os.path.dirname(_os.path.abspath(__file__)), "patches")
E = []
A = E.append

# ---- C01-r5: __is_pseudoknot(k, l, m, n) + __conflict_graph(self, regions) over combinations(enumerate), fill with `for offset`, fcfs with `[True] * levels`
B15 = dict(base="C01-r5")
A(M("c01e-r5-pred-args", ["C01", "C02", "C16"], C, "            if self.__is_pseudoknot(ri[0], ri[1], rj[0], rj[1]):\n", "            if self.__is_pseudoknot(ri[0], ri[1], rj[1], rj[0]):\n", "conflict-graph-fact", **B15))
A(M("c01e-r5-levels", ["C01", "C13"], C, 'levels = len("([{<" + string.ascii_uppercase)', 'levels = len("([{<" + string.ascii_uppercase) - 1', "fcfs-levels", **B15))
A(M("c01e-r5-fill-closing", ["C01", "C13"], C, "                structure[k - 1 - offset] = closing\n", "                structure[k - 1 + offset] = closing\n", "fill-stores", **B15))
A(M("c01e-r5-table-lower", "C01", C, "            upper + lower\n", "            lower + upper\n", ["alphabet-agree", "alphabet-30", "alphabet-encoder"], **B15))
A(M("c01e-r5-dots-silent", ["C01", "C02", "C13", "C16"], C, '        structure = ["."] * len(sequence)\n', '        structure = list("." * len(sequence))\n', kind="silent", **B15))
# ---- multi-strand text: what a line starts with (clean tree)
A(M("c01e-multi-header-filter", "C01", C, "        for match in re.finditer(\n            r\"((>.*?\\n)?([ACGTURYSWKMBDHVNacgturyswkmbdhvn.-]+)\\n([.()\\[\\]{}<>A-Za-z]+))\",\n            input,\n        ):", "        input = \"\\n\".join(line for line in input.splitlines() if not line.startswith(\">\"))\n        for match in re.finditer(\n            r\"((>.*?\\n)?([ACGTURYSWKMBDHVNacgturyswkmbdhvn.-]+)\\n([.()\\[\\]{}<>A-Za-z]+))\",\n            input,\n        ):", "multistrand-text"))
A(M("c01e-multi-strip-silent", "C01", C, "            sequence = match.group(3)\n            structure = match.group(4)\n", "            sequence = match.group(3).strip()\n            structure = match.group(4).strip()\n", kind="silent"))
# ---- encoders asked after a derivation (clean tree)
A(M("c01e-derivation-shares-entries", ["C01", "C12"], C, "        entries = [\n            Entry(entry.index_, entry.sequence, entry.pair) for entry in self.entries\n        ]\n        for i in to_unpair:", "        entries = list(self.entries)\n        for i in to_unpair:", ["history-independent", "receiver-write", "isolated-copy"]))
A(M("c01e-derivation-copy-silent", ["C01", "C12"], C, "        entries = [\n            Entry(entry.index_, entry.sequence, entry.pair) for entry in self.entries\n        ]\n        for i in to_unpair:", "        entries = [Entry(*entry) for entry in self.entries]\n        for i in to_unpair:", kind="silent"))

# ---- C02-r5: static __conflict_graph with nested tuple targets, comprehension objective, graph.items() constraints, guard-clause read-back
B25 = dict(base="C02-r5")
A(M("c02e-r5-weight", "C02", C, "                else -1 * var * region_by_var[var][2] * order\n", "                else -1 * var * region_by_var[var][2]\n", "milp-objective-coeff", **B25))
A(M("c02e-r5-unit", "C02", C, "                var * region_by_var[var][2]\n                if order == 0\n", "                var * 2 * region_by_var[var][2]\n                if order == 0\n", "milp-objective-coeff", **B25))
A(M("c02e-r5-region-by-var", "C02", C, "                region_by_var[variable] = region\n", "                region_by_var[variable] = regions[order]\n", ["milp-objective-coeff", "milp-model-sites"], **B25))
A(M("c02e-r5-neighbours-first", "C02", C, "            for j in neighbours:\n", "            for j in sorted(neighbours)[:1]:\n", "milp-adjacency", **B25))
A(M("c02e-r5-sorted-silent", "C02", C, "            for j in neighbours:\n", "            for j in sorted(neighbours):\n", kind="silent", **B25))
# ---- process history (clean tree): a pool keyed by less than what the assignment depends on / by exactly that
_POOL_HEAD = ("logging.basicConfig(level=LOGLEVEL)\n", "logging.basicConfig(level=LOGLEVEL)\n\n_SOLVED = {}\n")
_POOL_STORE = ("                orders[i] = order\n\n        return self.__make_dot_bracket(regions, orders)\n\n    def __make", "                orders[i] = order\n\n        _SOLVED[key] = list(orders)\n        return self.__make_dot_bracket(regions, orders)\n\n    def __make")
A(M("c02e-pool-anchors-only", ["C02"], C, None, None, "milp-history", edits=[_POOL_HEAD, ("        # determine maximum pseudoknot order as chromatic", "        key = tuple((k, l) for k, l, _ in regions)\n        if key in _SOLVED:\n            return self.__make_dot_bracket(regions, _SOLVED[key])\n        # determine maximum pseudoknot order as chromatic"), _POOL_STORE]))
A(M("c02e-pool-full-key-silent", ["C02", "C01", "C13"], C, None, None, kind="silent", edits=[_POOL_HEAD, ("        # determine maximum pseudoknot order as chromatic", "        key = tuple(regions)\n        if key in _SOLVED:\n            return self.__make_dot_bracket(regions, _SOLVED[key])\n        # determine maximum pseudoknot order as chromatic"), _POOL_STORE]))

# ---- C12-r5: helpers + fcfs with a taken set + comprehension for to_unpair
B125 = dict(base="C12-r5")
A(M("c12e-r5-fcfs-taken-all", ["C12", "C01", "C13"], C, "                if self.__is_pseudoknot(regions[i], regions[j])\n            }", "            }", ["fcfs-first-fit", "history-independent"], **B125))
A(M("c12e-r5-regex-angle", "C12", C, 'r"[\\[\\]\\{\\}\\<\\>A-Za-z]"', 'r"[\\[\\]\\{\\}A-Za-z]"', "pk-class", **B125))
A(M("c12e-r5-alias-pairs", "C12", C, "    def without_pseudoknots(self):\n        return BpSeq.from_dotbracket", "    def without_pseudoknots(self):\n        pairs = self.pairs\n        pairs.pop(0, None)\n        for i, j in list(pairs.items()):\n            if i > j:\n                pairs.pop(i)\n        return BpSeq.from_dotbracket", ["receiver-write", "history-independent"], **B125))
A(M("c12e-r5-copy-pairs-silent", "C12", C, "    def without_pseudoknots(self):\n        return BpSeq.from_dotbracket", "    def without_pseudoknots(self):\n        pairs = dict(self.pairs)\n        pairs.pop(0, None)\n        return BpSeq.from_dotbracket", kind="silent", **B125))
# ---- a solver that fails first and works later (clean tree): the first answer must stay the object's answer
_MEMO = ("    @cached_property\n    def dot_bracket(self):\n        if pulp.HiGHS_CMD().available():\n            solver = pulp.HiGHS_CMD()  # much faster than default\n        else:\n            solver = pulp.LpSolverDefault\n        if solver is not None:\n            solver.msg = False\n        return self.convert_to_dot_bracket(solver)\n",)
A(M("c12e-unsticky-fallback", "C12", C, _MEMO[0], "    @property\n    def dot_bracket(self):\n        kept = self.__dict__.get(\"_kept_notation\")\n        if kept is not None:\n            return kept\n        if pulp.HiGHS_CMD().available():\n            solver = pulp.HiGHS_CMD()  # much faster than default\n        else:\n            solver = pulp.LpSolverDefault\n        if solver is not None:\n            solver.msg = False\n        result = self.convert_to_dot_bracket(solver)\n        if result is not self.fcfs:\n            self.__dict__[\"_kept_notation\"] = result\n        return result\n", ["history-independent", "cache-introspection", "receiver-write"]))

# ---- C13-r5: __is_pseudoknot helper, guard-clause read-back, fill with offsets, fcfs picking the first free flag by enumerate
B135 = dict(base="C13-r5")
A(M("c13e-r5-count-taken", ["C13", "C01"], C, "            orders[i] = next(\n                order for order, free in enumerate(available) if free is True\n            )", "            orders[i] = available.count(False)", "fcfs-first-fit", **B135))
A(M("c13e-r5-status-table", "C13", C, "        if problem.status != pulp.LpStatusOptimal:", "        if problem.status in (pulp.LpStatusInfeasible, pulp.LpStatusUnbounded, pulp.LpStatusUndefined):", ["readback-after-optimal", "fallback-is-fcfs"], **B135))
A(M("c13e-r5-status-lt", ["C13", "C02"], C, "        if problem.status != pulp.LpStatusOptimal:", "        if problem.status < pulp.LpStatusNotSolved:", ["readback-after-optimal", "fallback-is-fcfs", "milp-readback-optimal"], **B135))
A(M("c13e-r5-retry-in-handler", "C13", C, "            return self.fcfs\n\n        # if problem is infeasible", "            problem.solve(solver)\n\n        # if problem is infeasible", ["solve-handled", "never-raises"], **B135))
A(M("c13e-r5-default-copy", "C13", C, "            solver = pulp.LpSolverDefault\n", "            solver = pulp.LpSolverDefault.copy()\n", ["solver-none-guard", "never-raises"], **B135))
A(M("c13e-r5-status-le-silent", ["C13", "C02", "C01"], C, "        if problem.status != pulp.LpStatusOptimal:", "        if problem.status < pulp.LpStatusOptimal:", kind="silent", **B135))

# ---- C16-r5: stack of neighbour iterators with for/else, `seen` set, taken-set colouring over enumerate(permutation[1:], start=1)
B165 = dict(base="C16-r5")
A(M("c16e-r5-no-resume", ["C16", "C01"], C, "                        pending.append(iter(graph[neighbor]))\n                        break\n                else:\n                    pending.pop()", "                        pending.append(iter(graph[neighbor]))\n                        break\n                pending.pop(0)", "enumeration-fact", **B165))
A(M("c16e-r5-earlier-short", ["C16", "C01"], C, "                        for earlier in permutation[:i]\n", "                        for earlier in permutation[: i - 1]\n", "enumeration-fact", **B165))
A(M("c16e-r5-start-0", "C16", C, "enumerate(permutation[1:], start=1)", "enumerate(permutation[1:])", "enumeration-fact", **B165))
A(M("c16e-r5-levels-short", "C16", C, "            levels = range(len(component))\n", "            levels = range(len(component) - 1)\n", "enumeration-fact", **B165))
A(M("c16e-r5-count-silent", ["C16", "C01"], C, "                    orders[region] = next(k for k in levels if k not in taken)\n", "                    orders[region] = min(set(levels) - taken)\n", kind="silent", **B165))
# ---- the printed list (clean tree, tertiary.py)
A(M("c16e-mapping-offset", "C16", T3, "                result.append(dbns[i])\n                i += len(sequence)\n", "                result.append(dot_bracket.structure[i : i + len(sequence)])\n                i += len(sequence)\n", "mapping-list-fact"))
A(M("c16e-mapping-first-member", "C16", T3, "        for dot_bracket in self.bpseq.all_dot_brackets:\n", "        for dot_bracket in self.bpseq.all_dot_brackets[:1]:\n", ["mapping-list-fact", "strand-rows"]))
A(M("c16e-mapping-rows-silent", ["C16", "C06"], T3, "                chain, sequence = pair\n                result.append(f\">strand_{chain}\")\n                result.append(sequence)\n                result.append(dbns[i])\n", "                chain, sequence = pair\n                result.extend([f\">strand_{chain}\", sequence, dbns[i]])\n", kind="silent"))
