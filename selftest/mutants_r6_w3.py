"""Round 6, worker W3 (C08, C09, C10, C15): firing mutants and silent twins for the rules added / generalised in round 6, on top of the
round-6 refactors where one exists (base=...)."""


def M(id, props, file, old, new, rule=None, kind="fire", count=1, **kw):
    return dict(id=id, props=props if isinstance(props, list) else [props], file=file, old=old, new=new, rule=rule, kind=kind, count=count, **kw)


PA, P2, T2F = "parser.py", "parser_v2.py", "tertiary_v2.py"
E = []
A = E.append

# ---- filter_clashing_atoms decided on the atoms it returns (base C08-r9: is_preferred helper, parallel lists of models / occupancies)
R9 = dict(base="C08-r9")
A(M("w3r6-filter-prefers-lower", ["C08"], PA, "    return current.occupancy is None or candidate.occupancy > current.occupancy\n", "    return current.occupancy is None or candidate.occupancy < current.occupancy\n", "occupancy-wins", **R9))
A(M("w3r6-filter-none-candidate-wins", ["C08"], PA, "    if candidate.occupancy is None:\n        return False\n", "    if candidate.occupancy is None:\n        return True\n", "optional-occupancy", **R9))
A(M("w3r6-filter-clash-drops-higher", ["C08"], PA, "        atoms_to_keep.discard(j if occupancy_i > occupancy_j else i)\n", "        atoms_to_keep.discard(i if occupancy_i > occupancy_j else j)\n", "clash-loser", **R9))
A(M("w3r6-filter-models-not-compared", ["C08"], PA, "        if models[i] != models[j]:\n            continue\n", "", "clash-same-model", **R9))
A(M("w3r6-filter-ge-silent", ["C08", "C15"], PA, "        atoms_to_keep.discard(j if occupancy_i > occupancy_j else i)\n", "        atoms_to_keep.discard(i if occupancy_j >= occupancy_i else j)\n", kind="silent", **R9))
A(M("w3r6-filter-sorted-result-silent", ["C08"], PA, "    return [unique_atoms_list[i] for i in atoms_to_keep]", "    return [unique_atoms_list[i] for i in sorted(atoms_to_keep)]", kind="silent", **R9))
A(M("w3r6-filter-tree-over-a-subset", ["C08"], PA, None, None, ["kdtree-index-space", "clash-same-model", "clash-loser"], edits=[
    ("    coords = np.array([(atom.x, atom.y, atom.z) for atom in unique_atoms_list])\n    tree = KDTree(coords)\n", "    first_model = [atom for atom in unique_atoms_list if atom.model != unique_atoms_list[0].model]\n    coords = np.array([(atom.x, atom.y, atom.z) for atom in (first_model or unique_atoms_list)])\n    tree = KDTree(coords)\n")]))

# ---- values that are valid and false as booleans (occupancy 0.00, B 0.00, the origin, residue number 0)
A(M("w3r6-write-pdb-occupancy-or-default", ["C09"], P2, '                "occupancy": float(row.get("occupancy", 1.0)),', '                "occupancy": float(row.get("occupancy") or 1.0),', ["pdb-round-trip", "field-map-cif-to-pdb", "field-map-pdb-to-cif"], count=2))
A(M("w3r6-write-cif-resseq-or-dot", ["C09"], P2, '                str(int(row["resSeq"])),  # label_seq_id', '                str(int(row["resSeq"])) if row["resSeq"] else ".",  # label_seq_id', ["field-map-pdb-to-cif", "null-agreement", "field-map-cif-to-pdb"]))
A(M("w3r6-write-pdb-occupancy-isna-silent", ["C09"], P2, '                "occupancy": float(row.get("occupancy", 1.0)),', '                "occupancy": float(1.0 if pd.isna(row.get("occupancy", 1.0)) else row.get("occupancy", 1.0)),', kind="silent", count=2))

# ---- what is evaluated for a message has its effect on the state
A(M("w3r6-print-consumes-first-line", ["C15", "C09"], P2, "        content.seek(0)  # Ensure we're at the beginning of the file\n        lines = content.readlines()", "        content.seek(0)  # Ensure we're at the beginning of the file\n        print(\"parsing\", content.readline().strip())\n        lines = content.readlines()", ["pdb-record-filter", "pdb-decode-v2", "diagnostic-purity"]))
A(M("w3r6-print-after-reading-silent", ["C15", "C09"], P2, "        content.seek(0)  # Ensure we're at the beginning of the file\n        lines = content.readlines()", "        content.seek(0)  # Ensure we're at the beginning of the file\n        lines = content.readlines()\n        print(\"parsing\", len(lines), \"lines\")", kind="silent"))

# ---- field table + generator reader with module-level typing lists (base C09-r9)
Q9 = dict(base="C09-r9")
A(M("w3r6-r9-resseq-not-numeric", ["C09"], P2, '_PDB_NUMERIC_COLUMNS = ("serial", "resSeq", "x",', '_PDB_NUMERIC_COLUMNS = ("serial", "x",', ["reader-types", "pdb-decode-v2"], **Q9))
A(M("w3r6-r9-numeric-list-silent", ["C09", "C15"], P2, '_PDB_NUMERIC_COLUMNS = ("serial", "resSeq", "x", "y", "z", "occupancy", "tempFactor", "model")', '_PDB_NUMERIC_COLUMNS = ["serial", "resSeq", "model"] + ["x", "y", "z", "occupancy", "tempFactor"]', kind="silent", **Q9))

# ---- the dictionary handed to the formatter is built by a function (base C10-r8)
R8 = dict(base="C10-r8")
A(M("w3r6-r8-producer-other-key", ["C09"], P2, '            "record_name": row.get("group_PDB", "ATOM"),', '            "record_type": row.get("group_PDB", "ATOM"),', ["atom-data-keys", "pdb-round-trip", "writer-layout"], **R8))
A(M("w3r6-r8-blank-helper-str-silent", ["C09", "C10"], P2, '    return "" if pd.isna(value) else str(value)\n', '    return str(value) if not pd.isna(value) else ""\n', kind="silent", **R8))

# ---- fit_to_pdb with limit / identifier tables that name module functions (base C10-r9)
T9 = dict(base="C10-r9")
A(M("w3r6-t9-numbers-from-zero", ["C10"], P2, "enumerate(residue_keys, start=1)", "enumerate(residue_keys, start=0)", "residue-map", **T9))
A(M("w3r6-t9-limit-table", ["C10"], P2, '    ("auth_seq_id", _largest_number, 9999),', '    ("auth_seq_id", _largest_number, 99999),', ["fit-test", "limits-vs-widths"], **T9))
A(M("w3r6-t9-measure-rename-silent", ["C10", "C09"], P2, None, None, kind="silent", edits=[("def _longest_text(column: pd.Series):", "def _widest_text(column: pd.Series):"), ('    ("auth_asym_id", _longest_text, 1),', '    ("auth_asym_id", _widest_text, 1),')], **T9))
A(M("w3r6-fit-test-index-categories", ["C10"], P2, 'pd.to_numeric(df["auth_seq_id"], errors="coerce").max() > 9999', 'pd.to_numeric(df["auth_seq_id"].cat.categories, errors="coerce").max() > 9999', "fit-test"))

# ---- Structure.residues through helper methods of the class (base C15-r9)
U9 = dict(base="C15-r9")
A(M("w3r6-u9-label-first", ["C15"], T2F, '        prefix = "auth" if has_auth else "label"', '        prefix = "label" if has_auth else "auth"', "group-columns", **U9))
# the groups of groupby carry the attrs of the table in the pandas the library runs on (2.2), and so they do in sa/frame.py: silent
A(M("w3r6-u9-no-format-tag-silent", ["C15"], T2F, '        residue_df.attrs["format"] = self.format\n        return residue_df', '        return residue_df', kind="silent", **U9))
A(M("w3r6-u9-tuple-key-silent", ["C15"], T2F, '        key_columns = [f"{prefix}_asym_id", f"{prefix}_seq_id"]', '        key_columns = list((f"{prefix}_asym_id", f"{prefix}_seq_id"))', kind="silent", **U9))
