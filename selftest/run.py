#!/venv/bin/python
"""Both-ways validation of the checkers (run by hand; not part of any verdict).

Every mutant is applied to a scratch copy of /repo/src (fresh mktemp dir outside /repo and /verif, removed
at once), analysed with `vcheck --root`, and must be reported by the named rule (kind "fire") or leave the
check silent (kind "silent": behaviour-preserving twin).  Seeded faults from /verif/seeded/*/patch.diff are
applied with `git apply` to the same kind of scratch copy.

usage: selftest/run.py [-j 16] [--only C01] [--id substring] [--seeded] [--list]
"""
from __future__ import annotations

import argparse
import concurrent.futures as cf
import json
import os
import shutil
import subprocess
import sys
import tempfile

HERE = os.path.dirname(os.path.abspath(__file__))
VERIF = os.path.dirname(HERE)
REPO = os.environ.get("VERIF_REPO_ROOT", "/repo")
sys.path.insert(0, HERE)


def load_catalogue():
    from mutants import MUTANTS  # type: ignore

    return MUTANTS


def scratch_copy() -> str:
    d = tempfile.mkdtemp(prefix="verif-selftest-")
    shutil.copytree(os.path.join(REPO, "src"), os.path.join(d, "src"), ignore=shutil.ignore_patterns("__pycache__", "*.dic"))
    return d


def run_check(pid: str, root: str, tier: str = "quick"):
    ev = tempfile.mkdtemp(prefix="verif-ev-")
    try:
        env = dict(os.environ, VERIF_EVIDENCE_DIR=ev)
        p = subprocess.run([os.path.join(VERIF, "vcheck"), pid, "--root", root, "--tier", tier], capture_output=True, text=True, env=env, timeout=600)
        return p.returncode, p.stdout + p.stderr
    finally:
        shutil.rmtree(ev, ignore_errors=True)


def one(m):
    d = scratch_copy()
    try:
        if "patch" in m:
            p = subprocess.run(["git", "apply", "--directory", d.lstrip("/"), "--unsafe-paths", m["patch"]], cwd="/", capture_output=True, text=True)
            if p.returncode != 0:
                p = subprocess.run(["patch", "-p1", "-s", "-d", d, "-i", m["patch"]], capture_output=True, text=True)
                if p.returncode != 0:
                    return m, "BROKEN", f"patch does not apply: {p.stderr[:200]}"
        elif "rename" in m:
            # AST-level rename of locals inside one function + whole-file reflow through ast.unparse
            import ast

            path = os.path.join(d, "src", "rnapolis", m["file"])
            tree = ast.parse(open(path).read())
            target = None
            for n in ast.walk(tree):
                if isinstance(n, ast.ClassDef) and "." in m["func"] and n.name == m["func"].split(".")[0]:
                    for b in n.body:
                        if isinstance(b, ast.FunctionDef) and b.name == m["func"].split(".")[1]:
                            target = b
                elif isinstance(n, ast.FunctionDef) and n.name == m["func"] and "." not in m["func"]:
                    target = target or n
            if target is None:
                return m, "BROKEN", f"function {m['func']} not found"
            hit = 0
            for n in ast.walk(target):
                if isinstance(n, ast.Name) and n.id in m["rename"]:
                    n.id = m["rename"][n.id]
                    hit += 1
                elif isinstance(n, ast.arg) and n.arg in m["rename"]:
                    n.arg = m["rename"][n.arg]
                    hit += 1
            if hit == 0:
                return m, "BROKEN", "rename touched nothing"
            open(path, "w").write(ast.unparse(tree) + "\n")
        else:
            if "base" in m:
                # the text edit is made on top of a stored behaviour-preserving refactor (rules must decide rewritten code too)
                bp = os.path.join(VERIF, "seeded", m["base"], "patch.diff")
                p = subprocess.run(["patch", "-p1", "-s", "-d", d, "-i", bp], capture_output=True, text=True)
                if p.returncode != 0:
                    return m, "BROKEN", f"base patch {m['base']} does not apply: {p.stdout[:200]}"
            path = os.path.join(d, "src", "rnapolis", m["file"])
            s = open(path).read()
            edits = m["edits"] if "edits" in m else [(m["old"], m["new"])]
            for old, new in edits:
                cnt = m.get("count", 1)
                if s.count(old) < 1 or (cnt and s.count(old) != cnt):
                    return m, "BROKEN", f"text to replace occurs {s.count(old)} time(s), expected {cnt}: {old[:50]!r}"
                s = s.replace(old, new)
            try:
                compile(s, path, "exec")
            except SyntaxError as e:
                return m, "BROKEN", f"mutant does not compile: {e}"
            open(path, "w").write(s)
        results = []
        for pid in m["props"]:
            rc, out = run_check(pid, d, m.get("tier", "quick"))
            results.append((pid, rc, out))
        kind = m.get("kind", "fire")
        if kind == "fire":
            for pid, rc, out in results:
                rules = m.get("rule")
                hit = rc == 1 and "VIOLATION" in out and (rules is None or any(f"rule={r} " in out for r in ([rules] if isinstance(rules, str) else rules)))
                if hit:
                    fired_rules = sorted({l.split("rule=", 1)[1].split(" ", 1)[0] for l in out.splitlines() if l.startswith("  rule=")})
                    return m, "OK", f"{pid} fired ({', '.join(fired_rules[:4])}{', ...' if len(fired_rules) > 4 else ''})"
            return m, "MISSED", "; ".join(f"{pid} rc={rc} " + " | ".join(l for l in out.splitlines() if l.startswith(("VIOLATION", "ANALYSIS", "  rule")))[:300] for pid, rc, out in results)
        elif kind == "unrecognised":
            # a rewrite outside the enumerated idioms: the check must stop with ANALYSIS-ERROR (exit 2), never pass silently
            for pid, rc, out in results:
                if rc == 2 and "ANALYSIS-ERROR" in out:
                    return m, "OK", f"{pid} analysis-error (idiom not recognised)"
            return m, "MISSED", "; ".join(f"{pid} rc={rc}" for pid, rc, out in results)
        else:
            bad = [(pid, rc, out) for pid, rc, out in results if rc != 0 and not (rc == 2 and pid in m.get("tolerate_exit2", []))]
            if bad:
                return m, "FALSE-ALARM" if any(rc == 1 for _, rc, _ in bad) else "BRITTLE", "; ".join(f"{pid} rc={rc} " + " | ".join(l for l in out.splitlines() if l.startswith(("VIOLATION", "ANALYSIS", "  rule")))[:300] for pid, rc, out in bad)
            return m, "OK", "silent"
    finally:
        shutil.rmtree(d, ignore_errors=True)


def main():
    ap = argparse.ArgumentParser()
    ap.add_argument("-j", type=int, default=16)
    ap.add_argument("--only", default=None)
    ap.add_argument("--id", default=None)
    ap.add_argument("--seeded", action="store_true", help="also run /verif/seeded/*/patch.diff")
    ap.add_argument("--seed-dir", default=None, help="directory with <name>/patch.diff + meta.json (candidates)")
    ap.add_argument("--list", action="store_true")
    a = ap.parse_args()
    ms = list(load_catalogue())
    seed_dirs = []
    if a.seeded:
        seed_dirs.append(os.path.join(VERIF, "seeded"))
    if a.seed_dir:
        seed_dirs.append(a.seed_dir)
    for sd in seed_dirs:
        for root, dirs, files in sorted(os.walk(sd)):
            if "patch.diff" in files and "meta.json" in files:
                meta = json.load(open(os.path.join(root, "meta.json")))
                props = meta.get("caught_by") or [meta["property"]]
                if meta.get("checks") == "all":
                    props = [f"C{i:02d}" for i in range(1, 21)]
                ms.append({"id": "seed:" + os.path.relpath(root, sd), "props": props, "patch": os.path.join(root, "patch.diff"), "kind": meta.get("kind_expected", "silent" if meta.get("kind") == "refactor" else ("fire" if meta.get("expected_exit", 1) == 1 else "unrecognised")), "rule": meta.get("rule"), "tolerate_exit2": meta.get("tolerate_exit2", [])})
    if a.only:
        ms = [m for m in ms if a.only in m["props"]]
    if a.id:
        ms = [m for m in ms if a.id in m["id"]]
    if a.list:
        for m in ms:
            print(m["id"], m["props"], m.get("kind", "fire"), m.get("rule"))
        return 0
    bad = 0
    with cf.ThreadPoolExecutor(a.j) as ex:
        for m, status, info in ex.map(one, ms):
            if status != "OK":
                bad += 1
            print(f"{status:11s} {m['id']:45s} {info[:400]}")
    print(f"{len(ms)} mutants, {bad} not as expected")
    return 1 if bad else 0


if __name__ == "__main__":
    sys.exit(main())
