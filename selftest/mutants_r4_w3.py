"""Round 4, worker W3 (C08, C09, C10, C15): firing mutants and silent twins for the rules added / generalised in round 4.
Where a stored behaviour-preserving refactor of round 4 exists the mutant sits on top of it (base=...)."""


def M(id, props, file, old, new, rule=None, kind="fire", count=1, **kw):
    return dict(id=id, props=props if isinstance(props, list) else [props], file=file, old=old, new=new, rule=rule, kind=kind, count=count, **kw)


PA, P2, SP, UN = "parser.py", "parser_v2.py", "splitter.py", "unifier.py"
E = []
A = E.append

# ---- C08 group_atoms as a lazy generator (base C08-r5): generator functions are interpreted lazily
G5 = dict(base="C08-r5")
A(M("c08r4-gen-last-run-lost", ["C08"], PA, "        residue_atoms = [atom]\n\n    yield key_previous, residue_atoms\n", "        residue_atoms = [atom]\n", "group-runs", **G5))
A(M("c08r4-gen-key-no-model", ["C08"], PA, "        key = (atom.label, atom.auth, atom.model)\n        if key == key_previous:\n            residue_atoms.append(atom)\n            continue", "        key = (atom.label, atom.auth, key_previous[2])\n        if key == key_previous:\n            residue_atoms.append(atom)\n            continue", "identity-key-model", **G5))
A(M("c08r4-gen-first-atom-twice", ["C08"], PA, "    for atom in atoms[1:]:\n        key = (atom.label, atom.auth, atom.model)\n        if key == key_previous:\n            residue_atoms.append(atom)\n            continue", "    for atom in atoms:\n        key = (atom.label, atom.auth, atom.model)\n        if key == key_previous:\n            residue_atoms.append(atom)\n            continue", "group-runs", **G5))
# the producer reuses one buffer: correct only because the consumer copies it (tuple(...)) before the generator resumes - needs lazy evaluation
A(M("c08r4-gen-buffer-reused-silent", ["C08", "C15"], PA, "        yield key_previous, residue_atoms\n        key_previous = key\n        residue_atoms = [atom]\n", "        yield key_previous, residue_atoms\n        key_previous = key\n        residue_atoms.clear()\n        residue_atoms.append(atom)\n", kind="silent", **G5))
A(M("c08r4-gen-yield-from-silent", ["C08", "C15"], PA, None, None, kind="silent", edits=[
    ("def iter_residue_groups(atoms: List[Atom]):\n", "def _iter_runs(atoms: List[Atom]):\n"),
    ("def build_residue(\n", "def iter_residue_groups(atoms: List[Atom]):\n    yield from _iter_runs(atoms)\n\n\ndef build_residue(\n")], **G5))
# the consumer keeps the list the producer clears afterwards: residues lose their atoms
A(M("c08r4-gen-buffer-reused-kept", ["C08"], PA, None, None, "group-runs", edits=[
    ("        yield key_previous, residue_atoms\n        key_previous = key\n        residue_atoms = [atom]\n", "        yield key_previous, residue_atoms\n        key_previous = key\n        residue_atoms.clear()\n        residue_atoms.append(atom)\n"),
    ("    residues: List[Residue3D] = [\n        build_residue(key, residue_atoms, modified, sequence_by_entity)\n        for key, residue_atoms in iter_residue_groups(atoms)\n    ]\n",
     "    groups = list(iter_residue_groups(atoms))\n    residues: List[Residue3D] = [\n        build_residue(key, residue_atoms, modified, sequence_by_entity)\n        for key, residue_atoms in groups\n    ]\n")], **G5))

# ---- format detection (is_cif), evaluated on one file per class
A(M("c08r4-iscif-header-shortcut", ["C15", "C08"], PA, '        if line.startswith("_atom_site"):\n            return True\n', '        if line.startswith("_atom_site"):\n            return True\n        if line.startswith(("HEADER", "REMARK", "CRYST1")):\n            return False\n', "format-detection"))
A(M("c08r4-iscif-first-line-only", ["C15"], PA, "    for line in cif_or_pdb.readlines():\n        if line.startswith(\"_atom_site\"):\n            return True\n    return False", "    for line in cif_or_pdb.readlines():\n        if line.startswith(\"_atom_site\"):\n            return True\n        if not line.startswith((\"data_\", \"#\", \"loop_\", \"_\")):\n            return False\n    return False", "format-detection"))
A(M("c08r4-iscif-no-rewind", ["C08"], PA, "    cif_or_pdb.seek(0)\n    for line in cif_or_pdb.readlines():\n        if line.startswith(\"_atom_site\"):", "    for line in cif_or_pdb.readlines():\n        if line.startswith(\"_atom_site\"):", "format-detection"))
A(M("c08r4-iscif-substring", ["C15"], PA, '        if line.startswith("_atom_site"):\n            return True\n', '        if "_atom_site" in line:\n            return True\n', "format-detection"))
A(M("c08r4-iscif-lazy-silent", ["C08", "C15"], PA, "    for line in cif_or_pdb.readlines():\n        if line.startswith(\"_atom_site\"):", "    for line in cif_or_pdb:\n        if line.startswith(\"_atom_site\"):", kind="silent"))
A(M("c08r4-iscif-any-silent", ["C08", "C15"], PA, "    for line in cif_or_pdb.readlines():\n        if line.startswith(\"_atom_site\"):\n            return True\n    return False", "    return any(line.startswith(\"_atom_site\") for line in cif_or_pdb.readlines())", kind="silent"))

# ---- a memoised function must not hand one mutable object to every caller (sa/memoshare.py)
A(M("w3r4-memo-public-frame", ["C15", "C09"], P2, None, None, "memo-shared-result", edits=[
    ("import tempfile\n", "import tempfile\nfrom functools import lru_cache\n"),
    ("def parse_pdb_atoms(", "@lru_cache(maxsize=8)\ndef parse_pdb_atoms(")]))
A(M("w3r4-memo-list", ["C08"], PA, None, None, "memo-shared-result", edits=[
    ("import logging\n", "import logging\nfrom functools import lru_cache\n"),
    ("def filter_clashing_atoms(", "@lru_cache(maxsize=None)\ndef filter_clashing_atoms(")]))
A(M("w3r4-memo-immutable-silent", ["C08", "C15"], PA, None, None, kind="silent", edits=[
    ("import logging\n", "import logging\nfrom functools import lru_cache\n"),
    ("def try_parse_int(", "@lru_cache(maxsize=None)\ndef try_parse_int(")]))
A(M("w3r4-memo-str-silent", ["C08", "C15"], PA, None, None, kind="silent", edits=[
    ("import logging\n", "import logging\nfrom functools import cache\n"),
    ("def get_one_letter_name(", "@cache\ndef get_one_letter_name(")]))

# ---- the write paths of the CLI tools: what reaches write_pdb went through the fit (checks/c10w.py)
A(M("c10r4-splitter-test-whole-file", ["C10"], SP, None, None, "fit-before-write", edits=[
    ("from rnapolis.parser_v2 import (\n", "from rnapolis.parser_v2 import (\n    can_write_pdb,\n"),
    ("                df_to_write = fit_to_pdb(model_df)\n", "                df_to_write = model_df if can_write_pdb(atoms_df) else fit_to_pdb(model_df)\n")]))
A(M("c10r4-splitter-test-whole-file-c09", ["C09"], SP, None, None, "fit-before-write", edits=[
    ("from rnapolis.parser_v2 import (\n", "from rnapolis.parser_v2 import (\n    can_write_pdb,\n"),
    ("                df_to_write = fit_to_pdb(model_df)\n", "                df_to_write = model_df if can_write_pdb(atoms_df) else fit_to_pdb(model_df)\n")]))
A(M("c10r4-splitter-test-same-table-silent", ["C10", "C09"], SP, None, None, kind="silent", edits=[
    ("from rnapolis.parser_v2 import (\n", "from rnapolis.parser_v2 import (\n    can_write_pdb,\n"),
    ("                df_to_write = fit_to_pdb(model_df)\n", "                df_to_write = model_df if can_write_pdb(model_df) else fit_to_pdb(model_df)\n")]))
A(M("c10r4-splitter-flag-per-round-silent", ["C10", "C09"], SP, None, None, kind="silent", edits=[
    ("from rnapolis.parser_v2 import (\n", "from rnapolis.parser_v2 import (\n    can_write_pdb,\n"),
    ("                df_to_write = fit_to_pdb(model_df)\n", "                needs_fitting = not can_write_pdb(model_df)\n                df_to_write = fit_to_pdb(model_df) if needs_fitting else model_df\n")]))
A(M("c10r4-unifier-no-fit", ["C10"], UN, "                df_to_write = fit_to_pdb(df)\n", "                df_to_write = df\n", "fit-before-write"))
A(M("c10r4-unifier-inline-fit-silent", ["C10"], UN, "                df_to_write = fit_to_pdb(df)\n                with open(f\"{args.output}/{base}{ext}\", \"w\") as f:\n                    write_pdb(df_to_write, f)\n", "                with open(f\"{args.output}/{base}{ext}\", \"w\") as f:\n                    write_pdb(fit_to_pdb(df), f)\n", kind="silent"))
A(M("c09r4-splitter-no-format-tag", ["C09"], SP, '        model_df.attrs["format"] = input_format\n', "", "splitter-wiring"))
A(M("c09r4-splitter-tag-later-silent", ["C09", "C10"], SP, None, None, kind="silent", edits=[
    ('        model_df.attrs["format"] = input_format\n', ""),
    ('        print(f"Writing model {model_num} to {output_path}...")\n', '        print(f"Writing model {model_num} to {output_path}...")\n        model_df.attrs["format"] = input_format\n')]))
A(M("c09r4-splitter-split-by-chain", ["C09"], SP, '                model_column = "pdbx_PDB_model_num"\n', '                model_column = "auth_asym_id"\n', "splitter-wiring"))

# ---- the fit test (can_write_pdb): nested helper read at its uses (base C10-r5), skewed comparison
F5 = dict(base="C10-r5")
A(M("c10r4-r5-limit-serial", ["C10"], P2, 'numeric_max("id") > 99999', 'numeric_max("id") > 999999', "fit-test", **F5))
A(M("c10r4-r5-helper-min", ["C10"], P2, '            return pd.to_numeric(df[column], errors="coerce").max()\n', '            return pd.to_numeric(df[column], errors="coerce").min()\n', "fit-test", **F5))
A(M("c10r4-r5-helper-rename-silent", ["C10", "C09"], P2, None, None, kind="silent", edits=[
    ("        def numeric_max(column: str):", "        def largest(col: str):"),
    ('            return pd.to_numeric(df[column], errors="coerce").max()\n', '            return pd.to_numeric(df[col], errors="coerce").max()\n'),
    ('numeric_max("id") > 99999', 'largest("id") > 99999'),
    ('numeric_max("auth_seq_id") > 9999', 'largest("auth_seq_id") > 9999')], **F5))
A(M("c10r4-fit-test-skewed", ["C10"], P2, 'pd.to_numeric(df["id"], errors="coerce").max() > 99999', 'pd.to_numeric(df["id"], errors="coerce").max() + 1 > 99999', "fit-test"))
A(M("c09r4-cross-path-fit-skewed", ["C09"], P2, 'pd.to_numeric(df["id"], errors="coerce").max() > 99999', 'pd.to_numeric(df["id"], errors="coerce").max() + 1 > 99999', "cross-path-fit"))

# ---- write_pdb: atom records in the order of the rows (base C09-r5: TER helper + delivery helper)
W5 = dict(base="C09-r5")
A(M("c09r4-r5-sort-by-chain", ["C09"], P2, "    for _, row in df.iterrows():\n        atom_data = {}\n", "    chain_column = \"auth_asym_id\" if format_type == \"mmCIF\" else \"chainID\"\n    if chain_column in df.columns:\n        df = df.sort_values([chain_column], kind=\"stable\")\n    for _, row in df.iterrows():\n        atom_data = {}\n", "pdb-round-trip", **W5))
A(M("c09r4-r5-sort-by-serial", ["C09"], P2, "    for _, row in df.iterrows():\n        atom_data = {}\n", "    serial_column = \"id\" if format_type == \"mmCIF\" else \"serial\"\n    if serial_column in df.columns:\n        df = df.sort_values([serial_column], kind=\"stable\")\n    for _, row in df.iterrows():\n        atom_data = {}\n", "pdb-round-trip", **W5))
A(M("c09r4-r5-reversed", ["C09"], P2, "    for _, row in df.iterrows():\n        atom_data = {}\n", "    for _, row in df.iloc[::-1].iterrows():\n        atom_data = {}\n", ["pdb-round-trip", "record-order", "ter-line"], **W5))
A(M("c09r4-r5-reset-index-silent", ["C09"], P2, "    for _, row in df.iterrows():\n        atom_data = {}\n", "    for _, row in df.reset_index(drop=True).iterrows():\n        atom_data = {}\n", kind="silent", **W5))
A(M("c09r4-r5-ter-helper-serial", ["C09"], P2, "    ter_serial = str(last_serial + 1).rjust(5)\n    ter_res_name = res_name.strip().rjust(3)", "    ter_serial = str(last_serial + 2).rjust(5)\n    ter_res_name = res_name.strip().rjust(3)", "ter-line", **W5))

# ---- fit_to_pdb interpreted as a whole (base C10-r5 and clean)
A(M("c10r4-r5-resmap-ignores-icode", ["C10"], P2, "        original_residues = group[[resseq_col, icode_col]].drop_duplicates()\n", "        original_residues = group[[resseq_col, icode_col]].drop_duplicates(subset=[resseq_col])\n", "residue-map", **F5))
A(M("c10r4-r5-resmap-from-zero", ["C10"], P2, "            tuple(res): i + 1\n", "            tuple(res): i\n", "residue-map", **F5))
A(M("c10r4-r5-serial-no-ter", ["C10"], P2, "        current_serial += 2 if chain_changed else 1\n", "        current_serial += 1\n", "serial-renumber", **F5))
A(M("c10r4-r5-enumerate-start-silent", ["C10"], P2, "            tuple(res): i + 1\n            for i, res in enumerate(original_residues.itertuples(index=False))\n", "            tuple(res): i\n            for i, res in enumerate(original_residues.itertuples(index=False), start=1)\n", kind="silent", **F5))
A(M("c10r4-r5-returns-copy", ["C10"], P2, "    if can_write_pdb(df):\n        return df\n", "    if can_write_pdb(df):\n        return df.copy()\n", "fits-returns-same", **F5))
A(M("c10r4-r5-works-on-input", ["C10"], P2, "    df_fitted = df.copy()\n", "    df_fitted = df\n", "input-untouched", **F5))
A(M("c10r4-r5-sorts-by-chain", ["C10"], P2, "    for index, row in df_fitted.iterrows():\n        current_chain_id = row[chain_col]\n", "    df_fitted.sort_values([chain_col], kind=\"stable\", inplace=True)\n    for index, row in df_fitted.iterrows():\n        current_chain_id = row[chain_col]\n", ["frame-condition", "row-order"], **F5))  # round 5: the repository no longer sorts by index there (F24)
A(M("c10r4-resmap-run-detection", ["C10"], P2, None, None, "residue-map", edits=[
    ("    df_fitted[new_resseq_col] = -1  # Initialize\n", "    keys_ = df_fitted[[chain_col, resseq_col, icode_col]].astype(object).fillna(\"\")\n    starts_ = (keys_ != keys_.shift()).any(axis=1)\n    df_fitted[new_resseq_col] = starts_.groupby(df_fitted[chain_col]).cumsum()\n"),
    ("    for new_chain_id, group in df_fitted.groupby(chain_col):\n", "    for new_chain_id, group in df_fitted.iloc[:0].groupby(chain_col):\n")]))

# ---- the refusals of fit_to_pdb: which quantity meets which limit
A(M("c10r4-count-ignores-icode", ["C10"], P2, '        lambda x: x[["resSeq", "iCode"]].drop_duplicates().shape[0]\n', '        lambda x: x["resSeq"].nunique()\n', "feasibility"))
A(M("c10r4-count-atoms", ["C10"], P2, '        lambda x: x[["resSeq", "iCode"]].drop_duplicates().shape[0]\n', '        lambda x: x[["resSeq", "iCode"]].shape[0]\n', "feasibility"))
A(M("c10r4-count-groupby-dropna", ["C10"], P2, None, None, "feasibility", edits=[
    ('            "iCode": df[icode_col].astype(object).fillna("")\n            if icode_col in df.columns\n            else "",\n', '            "iCode": df[icode_col].astype(object) if icode_col in df.columns else "",\n'),
    ('    residue_counts = check_df.groupby("chain").apply(\n        lambda x: x[["resSeq", "iCode"]].drop_duplicates().shape[0]\n    )\n', '    residue_counts = check_df.groupby(["chain", "resSeq", "iCode"]).size().groupby(level="chain").size()\n')]))
A(M("c10r4-count-groupby-filled-silent", ["C10"], P2, '    residue_counts = check_df.groupby("chain").apply(\n        lambda x: x[["resSeq", "iCode"]].drop_duplicates().shape[0]\n    )\n', '    residue_counts = check_df.groupby(["chain", "resSeq", "iCode"], observed=True).size().groupby(level="chain", observed=True).size()\n', kind="silent"))
A(M("c10r4-count-groupby-keepna-silent", ["C10"], P2, None, None, kind="silent", edits=[
    ('            "iCode": df[icode_col].astype(object).fillna("")\n            if icode_col in df.columns\n            else "",\n', '            "iCode": df[icode_col].astype(object) if icode_col in df.columns else "",\n'),
    ('    residue_counts = check_df.groupby("chain").apply(\n        lambda x: x[["resSeq", "iCode"]].drop_duplicates().shape[0]\n    )\n', '    residue_counts = check_df.groupby(["chain", "resSeq", "iCode"], dropna=False).size().groupby(level="chain").size()\n')]))
A(M("c10r4-count-len-silent", ["C10"], P2, '        lambda x: x[["resSeq", "iCode"]].drop_duplicates().shape[0]\n', '        lambda x: len(x[["resSeq", "iCode"]].drop_duplicates())\n', kind="silent"))
A(M("c10r4-atoms-without-ter", ["C10"], P2, "    if total_atoms + num_chains > max_pdb_serial:\n", "    if total_atoms > max_pdb_serial:\n", "feasibility"))
A(M("c10r4-chains-ge", ["C10"], P2, "    if num_chains > max_pdb_chains:\n", "    if num_chains >= max_pdb_chains:\n", "feasibility"))

# ---- write paths through a helper of the module (read where the helper is called / inlined), conditional expressions decided by the path
_STORE_DEF = ("def main():", "def _store(table, path, as_pdb):\n    if as_pdb:\n        write_pdb(table, path)\n    else:\n        write_cif(table, path)\n\n\ndef main():")
_STORE_OLD = "            if output_format == \"PDB\":\n                df_to_write = fit_to_pdb(model_df)\n                write_pdb(df_to_write, output_path)\n            else:  # mmCIF\n                write_cif(model_df, output_path)\n"
A(M("c10r4-splitter-helper-silent", ["C10", "C09"], SP, None, None, kind="silent", edits=[_STORE_DEF, (_STORE_OLD, "            as_pdb = output_format == \"PDB\"\n            _store(fit_to_pdb(model_df) if as_pdb else model_df, output_path, as_pdb)\n")]))
A(M("c10r4-splitter-helper-no-fit", ["C10"], SP, None, None, "fit-before-write", edits=[_STORE_DEF, (_STORE_OLD, "            as_pdb = output_format == \"PDB\"\n            _store(model_df, output_path, as_pdb)\n")]))
A(M("c10r4-splitter-helper-fit-wrong-branch", ["C10"], SP, None, None, "fit-before-write", edits=[_STORE_DEF, (_STORE_OLD, "            as_pdb = output_format == \"PDB\"\n            _store(model_df if as_pdb else fit_to_pdb(model_df), output_path, as_pdb)\n")]))

# ---- rows are written in the order of the table: write_cif (not evaluated) is read for reordering calls on the table
A(M("c09r4-cif-sorted-rows", ["C09"], P2, "    for _, row in df.iterrows():\n        if format_type == \"mmCIF\":", "    for _, row in df.sort_values(list(df.columns[:2])).iterrows():\n        if format_type == \"mmCIF\":", "row-order"))
A(M("c09r4-cif-sorted-columns-silent", ["C09"], P2, "        attributes = list(df.columns)\n", "        attributes = list(df.columns)\n        _known = sorted(df.columns)\n", kind="silent"))

# ---- a module-level dict used as a memo of a mutable answer (sa/memo.py:dict_memo_sites + sa/memoshare.py)
A(M("w3r4-dictmemo-frame", ["C15", "C09"], P2, None, None, "memo-shared-result", edits=[
    ("def parse_pdb_atoms(", "_PARSED = {}\n\n\ndef parse_pdb_text(text: str) -> pd.DataFrame:\n    if text not in _PARSED:\n        _PARSED[text] = parse_pdb_atoms(text)\n    return _PARSED[text]\n\n\ndef parse_pdb_atoms("),
    ("    if isinstance(content, str):\n        lines = content.splitlines()", "    if isinstance(content, str) and \"\\n\" not in content:\n        return parse_pdb_text(content + \"\\n\")\n    if isinstance(content, str):\n        lines = content.splitlines()")]))
A(M("w3r4-dictmemo-int-silent", ["C15", "C09"], P2, None, None, kind="silent", edits=[
    ("def can_write_pdb(", "_LIMITS = {}\n\n\ndef pdb_limit(field: str) -> int:\n    if field not in _LIMITS:\n        _LIMITS[field] = {\"serial\": 99999, \"resSeq\": 9999, \"chainID\": 1}[field]\n    return _LIMITS[field]\n\n\ndef can_write_pdb(")]))

# ---- what the representatives do not reach: data-dependent exits (sa/fragment.py:coverage / unreached_exits)
A(M("w3r4-pdb-skip-hydrogens", ["C08"], PA, "            atom_name = line[12:16].strip()\n", "            atom_name = line[12:16].strip()\n            if atom_name.startswith(\"H\"):\n                continue\n", "pdb-atom-branch"))
A(M("w3r4-cif-skip-bad-coordinates", ["C08"], PA, "                x = float(row_dict[\"Cartn_x\"])\n                y = float(row_dict[\"Cartn_y\"])\n                z = float(row_dict[\"Cartn_z\"])\n", "                try:\n                    x = float(row_dict[\"Cartn_x\"])\n                    y = float(row_dict[\"Cartn_y\"])\n                    z = float(row_dict[\"Cartn_z\"])\n                except ValueError:\n                    continue\n", "cif-row-skip"))
A(M("w3r4-write-pdb-skip-zero-occupancy", ["C09"], P2, "        # --- MODEL/ENDMDL Records ---\n", "        if atom_data[\"occupancy\"] == 0.0:\n            continue\n\n        # --- MODEL/ENDMDL Records ---\n", "pdb-round-trip"))
A(M("w3r4-fit-returns-input-on-nan", ["C10"], P2, "    # 3. Renumber Atom Serials\n    new_serial_col = \"new_serial\"", "    if df_fitted[resseq_col].isnull().any():\n        return df\n\n    # 3. Renumber Atom Serials\n    new_serial_col = \"new_serial\"", "result"))
A(M("w3r4-fit-returns-input-on-error", ["C10"], P2, "    df_fitted[resseq_col] = df_fitted[resseq_col].astype(\"Int64\")\n\n    # 3. Renumber", "    try:\n        df_fitted[resseq_col] = df_fitted[resseq_col].astype(\"Int64\")\n    except (TypeError, ValueError):\n        return df\n\n    # 3. Renumber", "result"))
A(M("w3r4-write-pdb-early-return-request-silent", ["C09"], P2, "    buffer = io.StringIO()\n    format_type = df.attrs.get(\"format\", \"PDB\")  # Assume PDB if not specified\n", "    buffer = io.StringIO()\n    format_type = df.attrs.get(\"format\", \"PDB\")  # Assume PDB if not specified\n    if output is not None and not isinstance(output, str) and not hasattr(output, \"write\"):\n        raise TypeError(\"output must be a path or a file-like object\")\n", kind="silent"))

# ---- parse_cif evaluated on one atom_site row per class
A(M("w3r4-cif-occupancy-default-one", ["C08"], PA, "                    else None\n                )\n\n                atoms_to_process.append(", "                    else 1.0\n                )\n\n                atoms_to_process.append(", ["cif-items", "null-markers"]))
A(M("w3r4-cif-icode-question-only", ["C08"], PA, "                if insertion_code in (\"?\", \".\"):", "                if insertion_code in (\"?\",):", "null-markers"))
A(M("w3r4-cif-auth-number-from-label", ["C08"], PA, "                auth_residue_number = try_parse_int(row_dict.get(\"auth_seq_id\", None))\n                auth_residue_name = row_dict.get(\"auth_comp_id\", None)\n                insertion_code = row_dict.get(\"pdbx_PDB_ins_code\", None)", "                auth_residue_number = try_parse_int(row_dict.get(\"label_seq_id\", None))\n                auth_residue_name = row_dict.get(\"auth_comp_id\", None)\n                insertion_code = row_dict.get(\"pdbx_PDB_ins_code\", None)", "cif-items"))
A(M("w3r4-cif-model-or-default-silent", ["C08", "C15"], PA, "                model = int(row_dict.get(\"pdbx_PDB_model_num\", \"1\"))\n", "                model = int(row_dict.get(\"pdbx_PDB_model_num\") or 1)\n", kind="silent"))
A(M("w3r4-cif-row-helper-silent", ["C08", "C15"], PA, None, None, kind="silent", edits=[
    ("def parse_cif(\n", "def _optional_float(row_dict, item):\n    value = row_dict.get(item, \".\")\n    return None if value in (\"?\", \".\") else float(value)\n\n\ndef parse_cif(\n"),
    ("                occupancy = (\n                    float(row_dict[\"occupancy\"])\n                    if row_dict.get(\"occupancy\", \".\") not in (\"?\", \".\")\n                    else None\n                )\n", "                occupancy = _optional_float(row_dict, \"occupancy\")\n")]))
A(M("w3r4-cif-row-helper-one-marker", ["C08"], PA, None, None, "null-markers", edits=[
    ("def parse_cif(\n", "def _optional_float(row_dict, item):\n    value = row_dict.get(item, \"?\")\n    return None if value == \"?\" else float(value)\n\n\ndef parse_cif(\n"),
    ("                occupancy = (\n                    float(row_dict[\"occupancy\"])\n                    if row_dict.get(\"occupancy\", \".\") not in (\"?\", \".\")\n                    else None\n                )\n", "                occupancy = _optional_float(row_dict, \"occupancy\")\n")]))

# ---- state that survives a call: module-level containers, the caller's table (checks/w3cross.py)
A(M("w3r4-pdb-modified-shared", ["C08"], PA, None, None, "shared-state", edits=[
    ("    modified: Dict[Union[ResidueLabel, ResidueAuth], str] = {}\n    model = 1\n", "    modified = _MODIFIED\n    model = 1\n"),
    ("def parse_pdb(\n", "_MODIFIED: Dict = {}\n\n\ndef parse_pdb(\n")]))
A(M("w3r4-write-pdb-fills-input", ["C09"], P2, "    for _, row in df.iterrows():\n        atom_data = {}\n", "    if \"occupancy\" in df.columns:\n        df[\"occupancy\"] = df[\"occupancy\"].fillna(1.0)\n    for _, row in df.iterrows():\n        atom_data = {}\n", "argument-untouched"))
A(M("w3r4-write-cif-tags-input", ["C09"], P2, "    format_type = df.attrs.get(\"format\", \"PDB\")\n\n    # Create a new DataContainer", "    format_type = df.attrs.get(\"format\", \"PDB\")\n    df.attrs[\"format\"] = \"mmCIF\"\n\n    # Create a new DataContainer", "argument-untouched"))
A(M("w3r4-write-pdb-fills-copy-silent", ["C09"], P2, "    for _, row in df.iterrows():\n        atom_data = {}\n", "    table = df.copy()\n    for _, row in table.iterrows():\n        atom_data = {}\n", kind="silent"))
A(M("w3r4-fit-chain-order-sorted-silent", ["C10"], P2, "    unique_chains = df[chain_col].unique()\n", "    unique_chains = sorted(df[chain_col].unique())\n", kind="silent"))

# ---- parser_v2 readers interpreted as whole functions (documents, atom_site categories)
A(M("w3r4-v2-stop-at-end-prefix", ["C15", "C09"], P2, '        # Only process ATOM and HETATM records\n        if record_type not in ["ATOM", "HETATM"]:\n            continue', '        if record_type.startswith("END"):\n            break\n\n        # Only process ATOM and HETATM records\n        if record_type not in ["ATOM", "HETATM"]:\n            continue', "pdb-record-filter"))
A(M("w3r4-v2-skip-waters", ["C15"], P2, '        # Parse fields according to PDB format specification\n        alt_loc = line[16:17].strip()', '        if record_type == "HETATM" and line[17:20].strip() == "HOH":\n            continue\n\n        # Parse fields according to PDB format specification\n        alt_loc = line[16:17].strip()', "pdb-record-filter"))
A(M("w3r4-v2-stop-at-end-only-silent", ["C15", "C09"], P2, '        # Only process ATOM and HETATM records\n        if record_type not in ["ATOM", "HETATM"]:\n            continue', '        if record_type == "END":\n            break\n\n        # Only process ATOM and HETATM records\n        if record_type not in ["ATOM", "HETATM"]:\n            continue', kind="silent"))
A(M("w3r4-v2-endmdl-resets-model-silent", ["C15", "C09"], P2, '        # Only process ATOM and HETATM records\n        if record_type not in ["ATOM", "HETATM"]:\n            continue', '        if record_type == "ENDMDL":\n            continue\n\n        # Only process ATOM and HETATM records\n        if record_type not in ["ATOM", "HETATM"]:\n            continue', kind="silent"))
A(M("w3r4-v2-cif-one-null-marker", ["C15", "C09"], P2, '            if value in ["?", "."]:\n                record[attr] = None', '            if value == "?":\n                record[attr] = None', "null-markers-v2"))
A(M("w3r4-v2-cif-null-set-silent", ["C15", "C09"], P2, '            if value in ["?", "."]:\n                record[attr] = None', '            if value in {"?", "."}:\n                record[attr] = None', kind="silent"))
A(M("w3r4-v2-cif-skip-hetero", ["C15"], P2, "    records = []\n    for row in rows:\n        record = {}\n        for attr, value in zip(attributes, row):", "    records = []\n    for row in rows:\n        if row[0] == \"HETATM\":\n            continue\n        record = {}\n        for attr, value in zip(attributes, row):", "cif-table"))
A(M("w3r4-v2-cif-comprehension-silent", ["C15", "C09"], P2, "        record = {}\n        for attr, value in zip(attributes, row):\n            # Store None if value indicates missing data ('?' or '.')\n            if value in [\"?\", \".\"]:\n                record[attr] = None\n            else:\n                record[attr] = value\n        records.append(record)\n", "        records.append({attr: (None if value in (\"?\", \".\") else value) for attr, value in zip(attributes, row)})\n", kind="silent"))

# ---- tertiary_v2: residues decided on the partition, connectivity on residue pairs and residue lists
T2F = "tertiary_v2.py"
A(M("w3r4-t2-groupby-drops-missing", ["C15"], T2F, "            grouped = self.atoms.groupby(groupby_cols, dropna=False, observed=False)\n\n        elif", "            grouped = self.atoms.groupby(groupby_cols, observed=False)\n\n        elif", "group-columns"))
A(M("w3r4-t2-groupby-file-order-silent", ["C15"], T2F, "            grouped = self.atoms.groupby(groupby_cols, dropna=False, observed=False)\n\n        elif", "            grouped = self.atoms.groupby(groupby_cols, dropna=False, observed=False, sort=False)\n\n        elif", kind="silent"))
A(M("w3r4-t2-segments-min-three", ["C15"], T2F, "            # Add the last segment if it has at least 2 residues\n            if len(current_segment) > 1:", "            # Add the last segment if it has at least 2 residues\n            if len(current_segment) > 2:", "connect-order"))
A(M("w3r4-t2-link-reversed", ["C15"], T2F, "                    if prev_residue.is_connected(residue):", "                    if residue.is_connected(prev_residue):", "connect-order"))
A(M("w3r4-t2-sorted-copy-silent", ["C15"], T2F, "            residues_by_chain[chain_id].sort(\n                key=lambda r: (r.residue_number, r.insertion_code or \"\")\n            )", "            residues_by_chain[chain_id] = sorted(\n                residues_by_chain[chain_id], key=lambda r: (r.residue_number, r.insertion_code or \"\")\n            )", kind="silent"))
A(M("w3r4-t2-link-missing-atom-true", ["C15"], T2F, "            return distance < 1.5 * AVERAGE_OXYGEN_PHOSPHORUS_DISTANCE_COVALENT\n\n        return False", "            return distance < 1.5 * AVERAGE_OXYGEN_PHOSPHORUS_DISTANCE_COVALENT\n\n        return o3p is None", "connect-atoms"))
A(M("w3r4-t2-link-guard-clause-silent", ["C15"], T2F, "        if o3p is not None and p is not None:\n            distance = np.linalg.norm(o3p.coordinates - p.coordinates).item()\n            return distance < 1.5 * AVERAGE_OXYGEN_PHOSPHORUS_DISTANCE_COVALENT\n\n        return False", "        if o3p is None or p is None:\n            return False\n        gap = p.coordinates - o3p.coordinates\n        return np.linalg.norm(gap).item() < 1.5 * AVERAGE_OXYGEN_PHOSPHORUS_DISTANCE_COVALENT", kind="silent"))

# ---- conditional emission that went one way for every representative
A(M("w3r4-write-pdb-writes-only-occupied", ["C09"], P2, "        pdb_line = _format_pdb_atom_line(atom_data)\n        buffer.write(pdb_line + \"\\n\")\n", "        if atom_data[\"occupancy\"] > 0.0:\n            pdb_line = _format_pdb_atom_line(atom_data)\n            buffer.write(pdb_line + \"\\n\")\n", "pdb-round-trip"))

# ---- the atom line on probe rows; the four round trips with every writer and reader interpreted
_FMT_OLD = "    x = f\"{atom_data.get('x', 0.0):8.3f}\"\n    y = f\"{atom_data.get('y', 0.0):8.3f}\"\n    z = f\"{atom_data.get('z', 0.0):8.3f}\"\n"
A(M("w3r4-fmt-percent-silent", ["C09", "C10"], P2, None, None, kind="silent", edits=[
    (_FMT_OLD, "    x, y, z = (\"%8.3f\" % atom_data.get(axis, 0.0) for axis in (\"x\", \"y\", \"z\"))\n"),
    ("    occupancy = f\"{atom_data.get('occupancy', 1.0):6.2f}\"\n", "    occupancy = format(atom_data.get(\"occupancy\", 1.0), \"6.2f\")\n")]))
A(M("w3r4-fmt-percent-two-decimals", ["C09"], P2, _FMT_OLD, "    x, y, z = (\"%8.2f\" % atom_data.get(axis, 0.0) for axis in (\"x\", \"y\", \"z\"))\n", "numeric-format"))
A(M("w3r4-fmt-name-conditional-silent", ["C09"], P2, "    if len(atom_name) < 4 and atom_name[:1].isalpha():\n        # Pad with space on left for 1-3 char names starting with a letter\n        atom_name_fmt = (\" \" + atom_name).ljust(4)\n    else:\n        # Use as is, left-justified, for 4-char names or those starting with a digit\n        atom_name_fmt = atom_name.ljust(4)\n", "    padded = len(atom_name) < 4 and atom_name[:1].isalpha()\n    atom_name_fmt = f\"{' ' + atom_name if padded else atom_name:<4}\"\n", kind="silent"))
A(M("w3r4-fmt-name-always-padded", ["C09"], P2, "    if len(atom_name) < 4 and atom_name[:1].isalpha():\n        # Pad with space on left for 1-3 char names starting with a letter\n        atom_name_fmt = (\" \" + atom_name).ljust(4)\n    else:\n        # Use as is, left-justified, for 4-char names or those starting with a digit\n        atom_name_fmt = atom_name.ljust(4)\n", "    padded = len(atom_name) < 4\n    atom_name_fmt = f\"{' ' + atom_name if padded else atom_name:<4}\"\n", "atom-name-alignment"))
_PH_OLD = "            element_val = \"?\" if pd.isna(row.get(\"element\")) else str(row[\"element\"])\n            altloc_val = \".\" if pd.isna(row.get(\"altLoc\")) else str(row[\"altLoc\"])\n            icode_val = \".\" if pd.isna(row.get(\"iCode\")) else str(row[\"iCode\"])\n            charge_val = \".\" if pd.isna(row.get(\"charge\")) else str(row[\"charge\"])\n"
_PH_DEF = "            def text_or(field, placeholder):\n                value = row.get(field)\n                return placeholder if pd.isna(value) else str(value)\n\n"
A(M("w3r4-wcif-placeholder-helper-silent", ["C09"], P2, _PH_OLD, _PH_DEF + "            element_val = text_or(\"element\", \"?\")\n            altloc_val = text_or(\"altLoc\", \".\")\n            icode_val = text_or(\"iCode\", \".\")\n            charge_val = text_or(\"charge\", \".\")\n", kind="silent"))
A(M("w3r4-wcif-placeholder-helper-wrong-field", ["C09"], P2, _PH_OLD, _PH_DEF + "            element_val = text_or(\"element\", \"?\")\n            altloc_val = text_or(\"iCode\", \".\")\n            icode_val = text_or(\"iCode\", \".\")\n            charge_val = text_or(\"charge\", \".\")\n", ["field-map-pdb-to-cif", "field-map-cif-to-pdb", "null-agreement"]))
A(M("w3r4-wcif-placeholder-not-a-null", ["C09"], P2, _PH_OLD, _PH_DEF + "            element_val = text_or(\"element\", \"?\")\n            altloc_val = text_or(\"altLoc\", \"-\")\n            icode_val = text_or(\"iCode\", \".\")\n            charge_val = text_or(\"charge\", \".\")\n", ["null-agreement", "field-map-pdb-to-cif"]))

# ---- residue accessors on interpreted instances
_ACC_OLD = "    @property\n    def chain_id(self) -> str:\n        \"\"\"Get the chain identifier for this residue.\"\"\"\n        if self.format == \"PDB\":\n            return self.atoms[\"chainID\"].iloc[0]\n        elif self.format == \"mmCIF\":\n            if \"auth_asym_id\" in self.atoms.columns:\n                return self.atoms[\"auth_asym_id\"].iloc[0]\n            else:\n                return self.atoms[\"label_asym_id\"].iloc[0]\n        return \"\"\n"
_ACC_NEW = "    def _first(self, *columns):\n        for column in columns:\n            if column in self.atoms.columns:\n                return self.atoms[column].iloc[0]\n        raise KeyError(columns)\n\n    @property\n    def chain_id(self) -> str:\n        \"\"\"Get the chain identifier for this residue.\"\"\"\n        if self.format == \"PDB\":\n            return self._first(\"chainID\")\n        if self.format == \"mmCIF\":\n            return self._first(%s)\n        return \"\"\n"
A(M("w3r4-t2-accessor-helper-silent", ["C15"], T2F, _ACC_OLD, _ACC_NEW % "\"auth_asym_id\", \"label_asym_id\"", kind="silent"))
A(M("w3r4-t2-accessor-helper-label-first", ["C15"], T2F, _ACC_OLD, _ACC_NEW % "\"label_asym_id\", \"auth_asym_id\"", "prefer-auth"))
A(M("w3r4-t2-find-atom-label-first", ["C15"], T2F, '            if "auth_atom_id" in self.atoms.columns:\n                mask = self.atoms["auth_atom_id"] == atom_name', '            if "label_atom_id" in self.atoms.columns:\n                mask = self.atoms["label_atom_id"] == atom_name', "atom-by-name"))
