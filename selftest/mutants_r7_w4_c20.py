"""Round 7, worker W4 (C06, C14, C17, C18, C19, C20): firing mutants and silent twins for the rules generalised in round 7.
One file per (sub-)worker; each exports the list E, imported by selftest/mutants.py."""


def M(id, props, file, old, new, rule=None, kind="fire", count=1, **kw):
    return dict(id=id, props=props if isinstance(props, list) else [props], file=file, old=old, new=new, rule=rule, kind=kind, count=count, **kw)


E = []
A = E.append

# ---- round 7: C20 (W4-c20).  repeat-eval: default values are created once per process (as `def` does) - a mutable default used as an
# accumulator carries over between calls (round-7 bug2 = C20-s: `mapping: Dict[str, str] = {}` parameter of replace_value).
# Bases: clean tree and C20-r11 (= round-7 ref2: _first_seen_mapping over a generator expression, two passes, main over _build_parser / _transform).
TR = "transformer.py"
B20R11 = dict(base="C20-r11")
_SIG = "    values: str = \"\".join([c for c in string.printable if c not in string.whitespace]),\n) -> Tuple[str, Dict]:\n"
_R11_HELPER_SIG = "def _first_seen_mapping(keys: Iterable[str], values: str) -> Dict:\n    mapping = {}\n"
A(M("c20r7-mutable-default-mapping", "C20", TR, "", "", "repeat-eval", edits=[(_SIG, "    values: str = \"\".join([c for c in string.printable if c not in string.whitespace]),\n    mapping: Dict = {},\n) -> Tuple[str, Dict]:\n"), ("    transformed = []\n    mapping = {}\n", "    transformed = []\n")]))
A(M("c20r7-r11-mutable-default-in-helper", "C20", TR, _R11_HELPER_SIG, "def _first_seen_mapping(keys: Iterable[str], values: str, mapping: Dict = {}) -> Dict:\n", "repeat-eval", **B20R11))
A(M("c20r7-mutable-default-seen-list", "C20", TR, "", "", "repeat-eval", edits=[(_SIG, "    values: str = \"\".join([c for c in string.printable if c not in string.whitespace]),\n    seen: list = [],\n) -> Tuple[str, Dict]:\n"), ("        if row[i] not in mapping:\n            mapping[row[i]] = values[len(mapping)]\n", "        if row[i] not in mapping:\n            seen.append(row[i])\n            mapping[row[i]] = values[len(seen) - 1]\n")]))
A(M("c20r7-none-default-mapping-silent", "C20", TR, "", "", kind="silent", edits=[(_SIG, "    values: str = \"\".join([c for c in string.printable if c not in string.whitespace]),\n    mapping: Dict = None,\n) -> Tuple[str, Dict]:\n"), ("    transformed = []\n    mapping = {}\n", "    transformed = []\n    if mapping is None:\n        mapping = {}\n")]))
A(M("c20r7-r11-none-default-in-helper-silent", "C20", TR, _R11_HELPER_SIG, "def _first_seen_mapping(keys: Iterable[str], values: str, mapping: Optional[Dict] = None) -> Dict:\n    mapping = {} if mapping is None else mapping\n", kind="silent", **B20R11))
A(M("c20r7-mutable-default-copied-silent", "C20", TR, "", "", kind="silent", edits=[(_SIG, "    values: str = \"\".join([c for c in string.printable if c not in string.whitespace]),\n    initial: Dict = {},\n) -> Tuple[str, Dict]:\n"), ("    transformed = []\n    mapping = {}\n", "    transformed = []\n    mapping = dict(initial)\n")]))
A(M("c20r7-immutable-default-silent", "C20", TR, "", "", kind="silent", edits=[(_SIG, "    values: str = \"\".join([c for c in string.printable if c not in string.whitespace]),\n    initial: tuple = (),\n) -> Tuple[str, Dict]:\n"), ("    transformed = []\n    mapping = {}\n", "    transformed = []\n    mapping = dict(initial)\n")]))
