"""Mutation catalogue: one-obligation breakages ("fire") and behaviour-preserving twins ("silent").

Each entry: id, props (checks to run), file (under src/rnapolis), old/new text (exactly `count` occurrences,
default 1) or edits=[(old,new),...], kind fire|silent, rule (rule id that must report it; None = any).
"""

def M(id, props, file, old, new, rule=None, kind="fire", count=1, **kw):
    return dict(id=id, props=props if isinstance(props, list) else [props], file=file, old=old, new=new, rule=rule, kind=kind, count=count, **kw)


MUTANTS = []
A = MUTANTS.append

# ---------------------------------------------------------------- C01 / C13 / C16 / C02 (common.py)
C = "common.py"
A(M("c01-brackets-swap", "C01", C, '["()", "[]", "{}", "<>"]', '["()", "[]", "<>", "{}"]', "alphabet-agree"))
A(M("c01-closing-upper", "C01", C, 'closing = ")]}>" + string.ascii_lowercase', 'closing = ")]}>" + string.ascii_uppercase', "alphabet-agree"))
A(M("c01-conflict-convert", "C01", C, "            if (k < m < l < n) or (m < k < n < l):\n                graph[i].add(j)\n                graph[j].add(i)\n\n        # return all", "            if (k < m < n < l) or (m < k < n < l):\n                graph[i].add(j)\n                graph[j].add(i)\n\n        # return all", "conflict-predicate"))
A(M("c01-conflict-fcfs-drop", "C01", C, "conflicted = (k < m < l < n) or (m < k < n < l)", "conflicted = k < m < l < n", "conflict-predicate"))
A(M("c01-conflict-all", "C01", C, "            if (k < m < l < n) or (m < k < n < l):\n                graph[i].add(j)\n                graph[j].add(i)\n\n        # early exit", "            if (k < m < l < n) or (m < k < l < n):\n                graph[i].add(j)\n                graph[j].add(i)\n\n        # early exit", "conflict-predicate"))
A(M("c01-conflict-le-silent", ["C01", "C02", "C16"], C, "conflicted = (k < m < l < n) or (m < k < n < l)", "conflicted = (k <= m <= l <= n) or (m <= k <= n <= l)", kind="silent"))
A(M("c01-fill-offby1", "C01", C, "structure[j - 1] = bracket[0]", "structure[j] = bracket[0]", "fill-stores"))
A(M("c01-fill-trips", "C01", C, "while n > 0:", "while n > 1:", "fill-trips"))
A(M("c01-fill-dir", "C01", C, "                k -= 1\n", "                k += 1\n", "fill-stores"))
A(M("c01-fill-bracket-swap", "C01", C, "structure[k - 1] = bracket[1]", "structure[k - 1] = bracket[0]", "fill-stores"))
A(M("c01-fill-for-silent", ["C01", "C13"], C, "            while n > 0:\n                structure[j - 1] = bracket[0]\n                structure[k - 1] = bracket[1]\n                j += 1\n                k -= 1\n                n -= 1\n", "            for t in range(n):\n                structure[j - 1 + t] = bracket[0]\n                structure[k - 1 - t] = bracket[1]\n", kind="silent"))
A(M("c01-run-cond", "C01", C, "if i == k + 1 and j == l - 1:", "if i == k + 1 and j == l + 1:", "stems-run"))
A(M("c01-run-cond-silent", "C01", C, "if i == k + 1 and j == l - 1:", "if k == i - 1 and l - j == 1:", kind="silent"))
A(M("c01-region-last", "C01", C, "(stem_entries[0].index_, stem_entries[0].pair, len(stem_entries))\n            for stem_entries in self.__stems_entries\n        ]\n\n    @cached_property\n    def dot_bracket", "(stem_entries[0].index_, stem_entries[-1].pair, len(stem_entries))\n            for stem_entries in self.__stems_entries\n        ]\n\n    @cached_property\n    def dot_bracket", "region-triple"))
A(M("c01-pop0", "C01", C, "begins[begin].pop()", "begins[begin].pop(0)", "decoder-lifo"))
A(M("c01-fromdb-shift", "C01", C, "entries[j].pair = i + 1", "entries[j].pair = i", "from-db-pairs"))
A(M("c01-fromdb-drop", "C01", C, "            entries[j].pair = i + 1\n", "", "from-db-pairs"))
A(M("c01-fcfs-range", ["C01", "C13"], C, "            for j in range(i):\n                m, n, _ = regions[j]", "            for j in range(i - 1):\n                m, n, _ = regions[j]", "fcfs-earlier"))
A(M("c01-fcfs-break", ["C01", "C13"], C, "                if conflicted:\n                    available[orders[j]] = False\n", "                if conflicted:\n                    available[orders[j]] = False\n                    break\n", "fcfs-scan-exit"))
A(M("c01-fcfs-avail-hoist", "C01", C, "        for i in range(1, len(regions)):\n            k, l, _ = regions[i]\n            available = [True for _ in range(len(\"([{<\" + string.ascii_uppercase))]\n", "        available = [True for _ in range(len(\"([{<\" + string.ascii_uppercase))]\n        for i in range(1, len(regions)):\n            k, l, _ = regions[i]\n", "fcfs-available-reset"))
A(M("c01-fcfs-region-swap", ["C01", "C13"], C, "(stem_entries[0].index_, stem_entries[0].pair, len(stem_entries))\n            for stem_entries in self.__stems_entries\n        ]\n        orders = [0 for i", "(stem_entries[0].pair, stem_entries[0].index_, len(stem_entries))\n            for stem_entries in self.__stems_entries\n        ]\n        orders = [0 for i", "region-triple"))
A(M("c01-fcfs-region-last", ["C01", "C13"], C, "(stem_entries[0].index_, stem_entries[0].pair, len(stem_entries))\n            for stem_entries in self.__stems_entries\n        ]\n        orders = [0 for i", "(stem_entries[-1].index_, stem_entries[0].pair, len(stem_entries))\n            for stem_entries in self.__stems_entries\n        ]\n        orders = [0 for i", "region-triple"))
A(M("c13-fcfs-count-false", ["C01", "C13"], C, "order = next(filter(lambda i: available[i] is True, range(len(available))))", "order = available.count(False)", "fcfs-choice"))
A(M("c13-fcfs-last-free", ["C01", "C13"], C, "order = next(filter(lambda i: available[i] is True, range(len(available))))", "order = max(k for k in range(len(available)) if available[k])", "fcfs-choice"))
A(M("c13-fcfs-index-silent", ["C01", "C13"], C, "order = next(filter(lambda i: available[i] is True, range(len(available))))", "order = available.index(True)", kind="silent"))
A(M("c13-objective-fmt", "C13", C, "        # if problem is infeasible, fallback to FCFS\n", "        logging.debug(f\"objective {pulp.value(problem.objective):.1f}\")\n        # if problem is infeasible, fallback to FCFS\n", "value-before-optimal"))
A(M("c13-objective-log-silent", "C13", C, "        # if problem is infeasible, fallback to FCFS\n", "        logging.debug(f\"objective {pulp.value(problem.objective)}\")\n        # if problem is infeasible, fallback to FCFS\n", kind="silent"))
A(M("c01-paired-filter", "C01", C, "lambda entry: entry.index_ < entry.pair", "lambda entry: entry.index_ > entry.pair", "stems-filter"))
A(M("c01-rename-silent", ["C01", "C02", "C13", "C16"], C, "            ri, rj = regions[i], regions[j]\n            k, l, _ = ri\n            m, n, _ = rj\n\n            # is pseudoknot?\n            if (k < m < l < n) or (m < k < n < l):\n                graph[i].add(j)\n                graph[j].add(i)\n\n        # return all", "            a0, a1, _ = regions[i]\n            b0, b1, _ = regions[j]\n\n            if (b0 < a0 < b1 < a1) or (a0 < b0 < a1 < b1):\n                graph[j].add(i)\n                graph[i].add(j)\n\n        # return all", kind="silent"))

# ---------------------------------------------------------------- C13
A(M("c13-call-property", "C13", C, "        if solver is None:\n            return self.fcfs\n", "        if solver is None:\n            return self.fcfs()\n", "attr-kind"))
A(M("c13-narrow-handler", "C13", C, "except pulp.PulpSolverError:", "except KeyError:", "solve-handled"))
A(M("c13-drop-status", "C13", C, "        if problem.status != pulp.LpStatusOptimal:\n            logging.warning(\"POA: problem is infeasible, fallback to FCFS\")\n            return self.fcfs\n", "", "readback-after-optimal"))
A(M("c13-status-infeasible-only", "C13", C, "if problem.status != pulp.LpStatusOptimal:", "if problem.status == pulp.LpStatusInfeasible:", ["readback-after-optimal", "status-branch"]))
A(M("c13-fallback-flat", "C13", C, "            logging.warning(\"POA: problem is infeasible, fallback to FCFS\")\n            return self.fcfs\n", "            logging.warning(\"POA: problem is infeasible, fallback to FCFS\")\n            return self.__make_dot_bracket(regions, [0 for _ in range(len(regions))])\n", "fallback-is-fcfs"))
A(M("c13-msg-before-none", "C13", C, "        if solver is not None:\n            solver.msg = False\n", "        solver.msg = False\n", "solver-none-guard"))
A(M("c13-handler-reraise", "C13", C, "                \"POA: failed to solve problem using MILP approach, fallback to FCFS\"\n            )\n            return self.fcfs\n", "                \"POA: failed to solve problem using MILP approach, fallback to FCFS\"\n            )\n            raise\n", "handler-no-raise"))

# ---------------------------------------------------------------- C02
A(M("c02-drop-order", "C02", C, "terms.append(-1 * var * length * order)", "terms.append(-1 * var * length)", "milp-objective-coeff"))
A(M("c02-sign", "C02", C, "terms.append(-1 * var * length * order)", "terms.append(1 * var * length * order)", "milp-objective-coeff"))
A(M("c02-level0-test", "C02", C, "                if order == 0:\n                    terms.append(var * length)", "                if order <= 1:\n                    terms.append(var * length)", "milp-objective-coeff"))
A(M("c02-bound", "C02", C, "max_order = max(map(len, graph.values())) + 1", "max_order = max(map(len, graph.values()))", "milp-bound"))
A(M("c02-continuous", "C02", C, "pulp.LpVariable(f\"x_{i}_{j}\", 0, 1, pulp.LpInteger)", "pulp.LpVariable(f\"x_{i}_{j}\", 0, 1, pulp.LpContinuous)", "milp-binary"))
A(M("c02-one-level-le", "C02", C, "problem += pulp.lpSum(region_vars) == 1", "problem += pulp.lpSum(region_vars) <= 1", "milp-one-level"))
A(M("c02-adj-2", "C02", C, "                        <= 1\n", "                        <= 2\n", "milp-adjacency"))
A(M("c02-adj-levels", "C02", C, "                for order in range(max_order):\n                    problem += (", "                for order in range(1, max_order):\n                    problem += (", "milp-adjacency"))
A(M("c02-minimize", "C02", C, "pulp.LpMaximize", "pulp.LpMinimize", "milp-sense"))
A(M("c02-name-swap", "C02", C, "pulp.LpVariable(f\"x_{i}_{j}\"", "pulp.LpVariable(f\"x_{j}_{i}\"", ["milp-name-format", "milp-readback"]))
A(M("c02-readback-swap", "C02", C, "                orders[i] = order\n\n        return self.__make_dot_bracket(regions, orders)\n\n    def __make", "                orders[order] = i\n\n        return self.__make_dot_bracket(regions, orders)\n\n    def __make", "milp-readback"))
A(M("c02-length-first", "C02", C, "length = region_by_var[var][2]", "length = region_by_var[var][0]", "milp-objective-coeff"))
A(M("c02-graph-oneway", ["C02", "C16"], C, "                graph[i].add(j)\n                graph[j].add(i)\n\n        # return all", "                graph[i].add(j)\n\n        # return all", "conflict-graph"))
A(M("c02-pairs-short", "C02", C, "for i, j in itertools.combinations(range(len(regions)), 2):\n            ri, rj = regions[i], regions[j]\n            k, l, _ = ri\n            m, n, _ = rj\n\n            # is pseudoknot?\n            if (k < m < l < n) or (m < k < n < l):\n                graph[i].add(j)\n                graph[j].add(i)\n\n        # return all", "for i, j in itertools.combinations(range(len(regions) - 1), 2):\n            ri, rj = regions[i], regions[j]\n            k, l, _ = ri\n            m, n, _ = rj\n\n            # is pseudoknot?\n            if (k < m < l < n) or (m < k < n < l):\n                graph[i].add(j)\n                graph[j].add(i)\n\n        # return all", "conflict-pairs"))
A(M("c02-bound-silent", "C02", C, "max_order = max(map(len, graph.values())) + 1", "max_order = max(map(len, graph.values())) + 2", kind="silent"))
A(M("c02-binary-silent", "C02", C, "pulp.LpVariable(f\"x_{i}_{j}\", 0, 1, pulp.LpInteger)", "pulp.LpVariable(f\"x_{i}_{j}\", cat=pulp.LpBinary)", kind="silent"))

# ---------------------------------------------------------------- C16
A(M("c16-greedy-range", ["C16", "C01"], C, "                    for j in range(i):\n                        if permutation[j] in graph[permutation[i]]:", "                    for j in range(i - 1):\n                        if permutation[j] in graph[permutation[i]]:", "greedy-earlier"))
A(M("c16-available-small", "C16", C, "available = [True for _ in range(len(component))]", "available = [True for _ in range(len(component) - 1)]", "greedy-available"))
A(M("c16-perm-k", "C16", C, "itertools.permutations(component)", "itertools.permutations(component, 2)", "greedy-perms"))
A(M("c16-perm-identity", "C16", C, "itertools.permutations(component)", "[tuple(component)]", "greedy-perms"))
A(M("c16-zip", "C16", C, "itertools.product(*unique)", "zip(*unique)", "product"))
A(M("c16-pop-early", ["C16", "C01"], C, "                    if next_vertex is not None:\n                        visited[next_vertex] = True\n                        stack.append(next_vertex)\n                        components[-1].append(next_vertex)\n                    else:\n                        stack.pop()\n", "                    stack.pop()\n                    if next_vertex is not None:\n                        visited[next_vertex] = True\n                        stack.append(next_vertex)\n                        components[-1].append(next_vertex)\n", "components-walk"))
A(M("c16-default-missing", "C16", C, "orders = {region: 0 for region in range(len(regions))}", "orders = {}", "product-default"))
A(M("c16-early-exit", "C16", C, "            return [self.fcfs]\n", "            return []\n", "early-exit"))
A(M("c16-mark-wrong", "C16", C, "available[orders[permutation[j]]] = False", "available[orders[permutation[i]]] = False", "greedy-mark"))
A(M("c16-bfs-silent", ["C16", "C01"], C, "                while stack:\n                    current = stack[-1]\n                    next_vertex = None\n\n                    for neighbor in graph[current]:\n                        if not visited[neighbor]:\n                            next_vertex = neighbor\n                            break\n\n                    if next_vertex is not None:\n                        visited[next_vertex] = True\n                        stack.append(next_vertex)\n                        components[-1].append(next_vertex)\n                    else:\n                        stack.pop()\n", "                while stack:\n                    current = stack.pop()\n                    for neighbor in graph[current]:\n                        if not visited[neighbor]:\n                            visited[neighbor] = True\n                            stack.append(neighbor)\n                            components[-1].append(neighbor)\n", kind="silent"))

# ---------------------------------------------------------------- C12
A(M("c12-shallow-copy", "C12", C, "        entries = [\n            Entry(entry.index_, entry.sequence, entry.pair) for entry in self.entries\n        ]\n", "        entries = self.entries.copy()\n", "receiver-write"))
A(M("c12-list-copy", "C12", C, "        entries = [\n            Entry(entry.index_, entry.sequence, entry.pair) for entry in self.entries\n        ]\n", "        entries = list(self.entries)\n", "receiver-write"))
A(M("c12-pairs-clear", "C12", C, "    def without_pseudoknots(self):\n        return BpSeq.from_dotbracket", "    def without_pseudoknots(self):\n        self.pairs.clear()\n        return BpSeq.from_dotbracket", "receiver-write"))
A(M("c12-sort-entries", "C12", C, "        stems = []\n        entries: List[Entry] = []\n", "        stems = []\n        self.entries.sort()\n        entries: List[Entry] = []\n", "receiver-write"))
A(M("c12-regex-class", "C12", C, 'r"[\\[\\]\\{\\}\\<\\>A-Za-z]"', 'r"[\\[\\]\\{\\}A-Za-z]"', "pk-class"))
A(M("c12-isolated-3p", "C12", C, "to_unpair.append(stem.strand3p.first - 1)", "to_unpair.append(stem.strand3p.first)", "isolated-select"))
A(M("c12-isolated-guard", "C12", C, "            if stem.strand5p.first == stem.strand5p.last:\n                to_unpair", "            if stem.strand5p.first <= stem.strand5p.last:\n                to_unpair", "isolated-select"))
A(M("c12-stem-mutate-via-elements", "C12", C, "        stems, _, _, _ = self.elements\n        to_unpair = []\n", "        stems, _, _, _ = self.elements\n        stems.reverse()\n        to_unpair = []\n", "receiver-write"))
A(M("c12-deepcopy-silent", "C12", C, "import itertools\n", "import copy\nimport itertools\n", kind="silent", edits=[("import itertools\n", "import copy\nimport itertools\n"), ("        entries = [\n            Entry(entry.index_, entry.sequence, entry.pair) for entry in self.entries\n        ]\n", "        entries = copy.deepcopy(self.entries)\n")]))

# ---------------------------------------------------------------- C14
T3 = "tertiary.py"
AN = "annotator.py"
A(M("c14-set-solutions", "C14", C, "        solutions = {}\n", "        solutions = set()\n", "order-taint", edits=[("        solutions = {}\n", "        solutions = set()\n"), ("            solutions[self.__make_dot_bracket(regions, orders)] = None\n", "            solutions.add(self.__make_dot_bracket(regions, orders))\n")]))
A(M("c14-iter-set-bp", "C14", T3, "        for base_pair in self.base_pairs2d:\n", "        for base_pair in set(self.base_pairs2d):\n", "order-taint"))
A(M("c14-key-not-total", "C14", T3, "", "", "order-taint", edits=[("                    return 0, pair.nt1, pair.nt2\n                else:\n                    return 1, pair.nt1, pair.nt2\n", "                    return 0\n                else:\n                    return 1\n")], count=2))
A(M("c14-labels-set", "C14", AN, "    counter = Counter(labels)\n", "    counter = Counter(labels)\n    labels = list(set(labels))\n", "order-taint"))
A(M("c14-unsorted-links", "C14", "molecule_filter.py", 'for link in sorted(links["entity"])', 'for link in links["entity"]', "order-taint"))
A(M("c14-random", "C14", AN, "import math\n", "import math\nimport random\n", "nondeterministic-value", edits=[("import math\n", "import math\nimport random\n"), ("    base_pairs = []\n    for residue_i, residue_j, lw in sorted(base_base_pairs):", "    random.shuffle(base_base_pairs)\n    base_pairs = []\n    for residue_i, residue_j, lw in sorted(base_base_pairs):")]))
A(M("c14-sorted-silent", "C14", T3, "        for base_pair in self.base_pairs2d:\n", "        for base_pair in sorted(set(self.base_pairs2d)):\n", kind="silent"))

A(M("c02-single-expr-silent", "C02", C, "                if order == 0:\n                    terms.append(var * length)\n                else:\n                    terms.append(-1 * var * length * order)\n", "                terms.append(var * length * (1 if order == 0 else -order))\n", kind="silent"))
A(M("c02-single-expr-bad", "C02", C, "                if order == 0:\n                    terms.append(var * length)\n                else:\n                    terms.append(-1 * var * length * order)\n", "                terms.append(var * length * (1 - order))\n", "milp-objective-coeff"))

# ---------------------------------------------------------------- C03
TT = "tertiary.py"
A(M("c03-radius", "C03", AN, "HYDROGEN_BOND_MAX_DISTANCE = 4.0", "HYDROGEN_BOND_MAX_DISTANCE = 3.6", "contact-radius"))
A(M("c03-window", "C03", AN, "HYDROGEN_BOND_ANGLE_RANGE = (50.0, 130.0)", "HYDROGEN_BOND_ANGLE_RANGE = (40.0, 140.0)", "angle-window"))
A(M("c03-min-contacts-3", "C03", AN, "if hydrogen_bond_count < 2:", "if hydrogen_bond_count < 3:", "select-min-contacts"))
A(M("c03-min-contacts-1", "C03", AN, "if hydrogen_bond_count < 2:", "if hydrogen_bond_count < 1:", "select-min-contacts"))
A(M("c03-cis-60", "C03", AN, "    return \"c\" if -90.0 < torsion < 90.0 else \"t\"", "    return \"c\" if -60.0 < torsion < 90.0 else \"t\"", "cis-trans"))
A(M("c03-cis-nodegrees", "C03", AN, "torsion = math.degrees(torsion_angle(c1p_i, n9n1_i, n9n1_j, c1p_j))", "torsion = torsion_angle(c1p_i, n9n1_i, n9n1_j, c1p_j)", "cis-trans"))
A(M("c03-edge-entry", "C03", TT, '        "N1": "W",\n        "C2": "WS",\n        "N3": "S",\n        "N6": "WH",', '        "N1": "H",\n        "C2": "WS",\n        "N3": "S",\n        "N6": "WH",', "table-pinned"))
A(M("c03-drop-occupied-add", "C03", AN, "        occupied.add((residue_j, edge_j))\n", "", "edge-exclusive"))
A(M("c03-occupied-wrong-key", "C03", AN, "        if (residue_j, edge_j) in occupied:", "        if (residue_j, edge_i) in occupied:", "edge-exclusive"))
A(M("c03-extra-filter", "C03", AN, "        residue_i, residue_j, cis_trans, edge_i, edge_j = interaction\n", "        residue_i, residue_j, cis_trans, edge_i, edge_j = interaction\n        if cis_trans == \"t\" and edge_i == \"S\" and edge_j == \"S\":\n            continue\n", "select-extra-filter"))
A(M("c03-angle2-copy", "C03", AN, "            angle_between_vectors(residue_j.base_normal_vector, vector)", "            angle_between_vectors(residue_i.base_normal_vector, vector)", "angle-operands"))
A(M("c03-orient-else", "C03", AN, "labels.append((residue_j, residue_i, cis_trans, edge_j, edge_i))", "labels.append((residue_j, residue_i, cis_trans, edge_i, edge_j))", "label-orientation"))
A(M("c03-drop-same-type", "C03", AN, "        if type_i == type_j:\n            continue\n", "", "contact-skips"))
A(M("c03-angle-only-one", "C03", AN, "            HYDROGEN_BOND_ANGLE_RANGE[0] < angle1 < HYDROGEN_BOND_ANGLE_RANGE[1]\n            and HYDROGEN_BOND_ANGLE_RANGE[0] < angle2 < HYDROGEN_BOND_ANGLE_RANGE[1]\n", "            HYDROGEN_BOND_ANGLE_RANGE[0] < angle1 < HYDROGEN_BOND_ANGLE_RANGE[1]\n            and HYDROGEN_BOND_ANGLE_RANGE[0] < angle2\n", "angle-window"))
A(M("c03-normal-atoms", "C03", TT, '            n7 = self.find_atom("N7")\n            n3 = self.find_atom("N3")', '            n7 = self.find_atom("N7")\n            n3 = self.find_atom("N1")', "base-normal"))
A(M("c03-cis-purine-set", "C03", AN, "    if residue_i.one_letter_name in \"AG\":\n        n9n1_i = residue_i.find_atom(\"N9\")", "    if residue_i.one_letter_name in \"AGU\":\n        n9n1_i = residue_i.find_atom(\"N9\")", "cis-trans-atoms"))
A(M("c03-cis-wrong-residue", "C03", AN, "    c1p_j = residue_j.find_atom(\"C1'\")", "    c1p_j = residue_i.find_atom(\"C1'\")", "cis-trans-atoms"))
A(M("c03-cis-order", "C03", AN, "torsion_angle(c1p_i, n9n1_i, n9n1_j, c1p_j)", "torsion_angle(c1p_i, n9n1_j, n9n1_i, c1p_j)", "cis-trans-atoms"))
A(M("c03-claim-early", "C03", AN, "        if (residue_i, edge_i) in occupied:\n            continue\n        if (residue_j, edge_j) in occupied:\n            continue\n\n        occupied.add((residue_i, edge_i))\n", "        if (residue_i, edge_i) in occupied:\n            continue\n        occupied.add((residue_i, edge_i))\n        if (residue_j, edge_j) in occupied:\n            continue\n\n", "edge-exclusive"))
A(M("c03-occupied-or-silent", "C03", AN, "        if (residue_i, edge_i) in occupied:\n            continue\n        if (residue_j, edge_j) in occupied:\n            continue\n", "        if (residue_i, edge_i) in occupied or (residue_j, edge_j) in occupied:\n            continue\n", kind="silent"))
A(M("c03-orient-unguarded", "C03", AN, "        if residue_i < residue_j:\n            for edge_i in edges_i:\n                for edge_j in edges_j:\n                    labels.append((residue_i, residue_j, cis_trans, edge_i, edge_j))\n        else:\n            for edge_i in edges_i:\n                for edge_j in edges_j:\n                    labels.append((residue_j, residue_i, cis_trans, edge_j, edge_i))\n", "        for edge_i in edges_i:\n            for edge_j in edges_j:\n                labels.append((residue_i, residue_j, cis_trans, edge_i, edge_j))\n", "label-orientation"))
A(M("c05-number-or", "C05", C, "        if self.auth is not None:\n            return self.auth.number\n        if self.label is not None:\n            return self.label.number\n        return None", "        number = self.auth.number if self.auth is not None else None\n        return number or (self.label.number if self.label is not None else None)", "identity-truthiness"))
A(M("c05-normal-lru", "C05", TT, "    @cached_property\n    def base_normal_vector(self)", "    @property\n    @functools.lru_cache(maxsize=None)\n    def base_normal_vector(self)", "memo-key"))
A(M("c05-same-residue-partial", ["C05", "C03"], AN, "            atom_i.label is not None\n            and atom_i.label is not None\n            and atom_i.label == atom_j.label", "            atom_i.label is not None\n            and atom_i.label is not None\n            and atom_i.label.chain == atom_j.label.chain\n            and atom_i.label.number == atom_j.label.number", None))
A(M("c06-lw-reverse-noswap", ["C06"], C, 'LeontisWesthof[f"{self.name[0]}{self.name[2]}{self.name[1]}"]', 'LeontisWesthof[f"{self.name[0]}{self.name[1]}{self.name[2]}"]', "lw-reverse"))
A(M("c06-lift-no-record", ["C06"], TT, "                if bp.reverse not in used:\n                    result.append(bp.reverse)\n                    used.add(bp.reverse)\n", "                if bp.reverse not in used:\n                    result.append(bp.reverse)\n", "lifting-guarded-insert"))
A(M("c06-lift-loop-silent", ["C06"], TT, "                if bp not in used:\n                    result.append(bp)\n                    used.add(bp)\n                if bp.reverse not in used:\n                    result.append(bp.reverse)\n                    used.add(bp.reverse)\n", "                for cand in (bp, bp.reverse):\n                    if cand not in used:\n                        result.append(cand)\n                        used.add(cand)\n", kind="silent"))
A(M("c06-gap-direction", ["C06"], TT, "                if (\n                    not previous.is_connected(residue)\n                    and previous.chain == residue.chain\n                ):\n                    for k in range", "                if (\n                    not residue.is_connected(previous)\n                    and previous.chain == residue.chain\n                ):\n                    for k in range", "gap-rule-agree"))
A(M("c08-lazy-filter", "C08", "parser.py", "        model: list(filter(lambda atom: atom.model == model, atoms))\n", "        model: filter(lambda atom: atom.model == model, atoms)\n", "late-binding"))
A(M("c08-tree-filtered", "C08", "parser.py", "    coords = np.array([(atom.x, atom.y, atom.z) for atom in unique_atoms_list])", "    known = [atom for atom in unique_atoms_list if atom.occupancy is not None]\n    coords = np.array([(atom.x, atom.y, atom.z) for atom in known])", "kdtree-index-space"))
A(M("c08-dup-kept-none-loses", "C08", "parser.py", "                unique_atoms[key].occupancy is None\n                or atom.occupancy > unique_atoms[key].occupancy", "                unique_atoms[key].occupancy is not None\n                and atom.occupancy > unique_atoms[key].occupancy", "occupancy-wins"))
A(M("c08-dup-lower-wins", "C08", "parser.py", "                or atom.occupancy > unique_atoms[key].occupancy", "                or atom.occupancy < unique_atoms[key].occupancy", "occupancy-wins"))
A(M("c08-clash-alias-silent", "C08", "parser.py", "        if unique_atoms_list[i].model != unique_atoms_list[j].model:\n            continue", "        a, b = unique_atoms_list[i], unique_atoms_list[j]\n        if a.model != b.model:\n            continue", kind="silent"))
A(M("c08-clash-drop-higher", "C08", "parser.py", "            atoms_to_keep.discard(j)\n        else:\n            atoms_to_keep.discard(i)", "            atoms_to_keep.discard(i)\n        else:\n            atoms_to_keep.discard(j)", "clash-loser"))
A(M("c03-inline-const-silent", "C03", AN, "kdtree.query_pairs(HYDROGEN_BOND_MAX_DISTANCE)", "kdtree.query_pairs(4.0)", kind="silent"))
A(M("c03-window-split-silent", "C03", AN, "        if (\n            HYDROGEN_BOND_ANGLE_RANGE[0] < angle1 < HYDROGEN_BOND_ANGLE_RANGE[1]\n            and HYDROGEN_BOND_ANGLE_RANGE[0] < angle2 < HYDROGEN_BOND_ANGLE_RANGE[1]\n        ):", "        lo, hi = HYDROGEN_BOND_ANGLE_RANGE\n        if (lo <= angle1 <= hi) and not (angle2 < lo or angle2 > hi):", kind="silent"))

# ---------------------------------------------------------------- C04
A(M("c04-radius", "C04", AN, "STACKING_MAX_DISTANCE = 6.0", "STACKING_MAX_DISTANCE = 5.5", "stack-radius"))
A(M("c04-normals-35", "C04", AN, "STACKING_MAX_ANGLE_BETWEEN_NORMALS = 35.0", "STACKING_MAX_ANGLE_BETWEEN_NORMALS = 30.0", "stack-normals"))
A(M("c04-offset-45", "C04", AN, "STACKING_MAX_ANGLE_BETWEEN_VECTOR_AND_NORMAL = 45.0", "STACKING_MAX_ANGLE_BETWEEN_VECTOR_AND_NORMAL = 40.0", "stack-offset"))
A(M("c04-min-max-1", "C04", AN, "        angle = min(\n            [\n                angle_between_vectors(normal_i, normal_j),", "        angle = max(\n            [\n                angle_between_vectors(normal_i, normal_j),", "stack-normals"))
A(M("c04-min-max-2", "C04", AN, "        angle = min(\n            angle_between_vectors(vector, normal_i),", "        angle = max(\n            angle_between_vectors(vector, normal_i),", "stack-offset"))
A(M("c04-no-degrees", "C04", AN, "if math.degrees(angle) > STACKING_MAX_ANGLE_BETWEEN_NORMALS:", "if angle > STACKING_MAX_ANGLE_BETWEEN_NORMALS:", "stack-normals"))
A(M("c04-dot-sign", "C04", AN, "numpy.dot(normal_i, normal_j) > 0.0", "numpy.dot(normal_i, normal_j) < 0.0", "stack-direction"))
A(M("c04-label-group", "C04", AN, '                pairs.append((residue_i, residue_j, "inward"))', '                pairs.append((residue_i, residue_j, "downward"))', "stack-labels"))
A(M("c04-else-order", "C04", AN, '                pairs.append((residue_j, residue_i, "outward"))', '                pairs.append((residue_i, residue_j, "outward"))', "stack-labels"))
A(M("c04-unsorted", "C04", AN, "for residue_i, residue_j, topology in sorted(pairs):", "for residue_i, residue_j, topology in pairs:", "stack-emission"))
A(M("c04-centroid-den", "C04", AN, "sum(ys) / len(ys)", "sum(ys) / len(base_atoms)", "centroid-mean"))
A(M("c04-vector-axis", "C04", AN, "for k in (0, 1, 2)])", "for k in (0, 1)])", "stack-offset-vector"))
A(M("c04-normal-j-twice", "C04", AN, "            angle_between_vectors(vector, normal_i),\n            angle_between_vectors(vector, normal_j),", "            angle_between_vectors(vector, normal_j),\n            angle_between_vectors(vector, normal_j),", ["stack-offset", "stack-extra-filter"]))
A(M("c04-ifexp-silent", "C04", AN, '        if residue_i < residue_j:\n            if same_direction:\n                pairs.append((residue_i, residue_j, "upward"))\n            else:\n                pairs.append((residue_i, residue_j, "inward"))\n        else:\n            if same_direction:\n                pairs.append((residue_j, residue_i, "downward"))\n            else:\n                pairs.append((residue_j, residue_i, "outward"))\n', '        if residue_i < residue_j:\n            pairs.append((residue_i, residue_j, "upward" if same_direction else "inward"))\n        else:\n            pairs.append((residue_j, residue_i, "downward" if same_direction else "outward"))\n', kind="silent"))

# ---------------------------------------------------------------- C11
A(M("c11-unsorted-bp", "C11", AN, "for residue_i, residue_j, lw in sorted(base_base_pairs):", "for residue_i, residue_j, lw in base_base_pairs:", "sorted-emission"))
A(M("c11-unsorted-bph", "C11", AN, "bph_map = merge_and_clean_bph_br(sorted(base_phosphate_pairs))", "bph_map = merge_and_clean_bph_br(base_phosphate_pairs)", "sorted-emission"))
A(M("c11-drop-same-auth", ["C11", "C03"], AN, "        if (\n            atom_i.auth is not None\n            and atom_i.auth is not None\n            and atom_i.auth == atom_j.auth\n        ):\n            continue\n", "", "contact-skips"))
A(M("c11-saenger-asym", "C11", C, '            ("AG", "tWS"): "X",', '            ("AG", "tWS"): "XI",', "saenger-symmetric"))
A(M("c11-saenger-value", "C11", C, '            ("GG", "tSS"): "IV",', '            ("GG", "tSS"): "IIII",', "saenger-values"))
A(M("c11-truncation", "C11", AN, "        if len(bphs_brs) > 1:\n            bph_br_map[key] = OrderedSet([bphs_brs[0]])\n", "        pass\n", ["bph-one-class", "bph-merge"]))
A(M("c11-merge-rule", "C11", AN, "        if 7 in bphs_brs and 9 in bphs_brs:\n            bphs_brs.remove(7)\n            bphs_brs.remove(9)\n            bphs_brs.add(8)\n", "        if 7 in bphs_brs and 9 in bphs_brs:\n            bphs_brs.remove(7)\n            bphs_brs.add(8)\n", "bph-merge"))
A(M("c11-class-branch", "C11", AN, '        if donor.name == "C5":\n            return 9\n        if donor.name == "C6":\n            return 0\n\n    if donor_residue.one_letter_name == "U":', '        if donor.name == "C6":\n            return 0\n\n    if donor_residue.one_letter_name == "U":', "bph-class-table"))
A(M("c11-class-value", "C11", AN, '        if donor.name == "N1":\n            return 5\n', '        if donor.name == "N1":\n            return 4\n', "bph-class-table"))
A(M("c11-roles-swapped", "C11", AN, "            if type_i == \"donor\":\n                donor_residue, acceptor_residue = residue_i, residue_j\n                donor_atom, acceptor_atom = atom_i, atom_j\n            else:\n                donor_residue, acceptor_residue = residue_j, residue_i\n                donor_atom, acceptor_atom = atom_j, atom_i\n            bph =", "            if type_i == \"donor\":\n                donor_residue, acceptor_residue = residue_j, residue_i\n                donor_atom, acceptor_atom = atom_i, atom_j\n            else:\n                donor_residue, acceptor_residue = residue_j, residue_i\n                donor_atom, acceptor_atom = atom_j, atom_i\n            bph =", "bph-roles"))
A(M("c11-fields-swapped", "C11", AN, "return BaseInteractions(base_pairs, stackings, base_ribose, base_phosphate, [])", "return BaseInteractions(base_pairs, stackings, base_phosphate, base_ribose, [])", "result-order"))
A(M("c11-lw-reverse", "C11", C, 'return LeontisWesthof[f"{self.name[0]}{self.name[2]}{self.name[1]}"]', 'return LeontisWesthof[f"{self.name[0]}{self.name[1]}{self.name[2]}"]', "lw-reverse"))
A(M("c11-split-60", "C11", AN, "                return 1 if -90.0 < torsion < 90.0 else 3", "                return 1 if -60.0 < torsion < 60.0 else 3", "bph-split"))
A(M("c11-saenger-key-order", "C11", AN, 'key = (f"{residue_i.one_letter_name}{residue_j.one_letter_name}", lw.value)', 'key = (f"{residue_j.one_letter_name}{residue_i.one_letter_name}", lw.value)', "saenger-lookup"))

# ---------------------------------------------------------------- C05
A(M("c05-point-for-vector", "C05", AN, "        vector = atom_i.coordinates - atom_j.coordinates\n", "        vector = atom_i.coordinates\n", "invariance-typing"))
A(M("c05-z-filter", "C05", AN, "        # check for base-base contacts\n", "        if atom_i.z > 0:\n            continue\n        # check for base-base contacts\n", "invariance-typing"))
A(M("c05-sort-coordinates", "C05", AN, "    kdtree = KDTree(coordinates)\n\n    # find all hydrogen bonds", "    coordinates = sorted(coordinates)\n    kdtree = KDTree(coordinates)\n\n    # find all hydrogen bonds", "invariance-typing"))
A(M("c05-positional-atom", "C05", TT, '            n9 = self.find_atom("N9")\n            n7 = self.find_atom("N7")', '            n9 = self.atoms[0]\n            n7 = self.find_atom("N7")', "positional-atom"))
A(M("c05-number-arith", "C05", AN, "        if residue_i < residue_j:\n            for edge_i in edges_i:", "        if abs(residue_i.number - residue_j.number) > 10000:\n            continue\n        if residue_i < residue_j:\n            for edge_i in edges_i:", "identity-arithmetic"))
A(M("c05-gap-unguarded", "C05", TT, "                if self.find_gaps:\n                    if not previous.is_connected(residue):", "                if True:\n                    if not previous.is_connected(residue):", "identity-arithmetic"))
A(M("c05-centroid-abs", "C05", AN, "        vector = numpy.array([coordinates[i][k] - coordinates[j][k] for k in (0, 1, 2)])", "        vector = numpy.array([coordinates[i][k] for k in (0, 1, 2)])", "invariance-typing"))
A(M("c05-normal-unnormalised-silent", "C05", TT, "        return normal / numpy.linalg.norm(normal)", "        length = numpy.linalg.norm(normal)\n        return normal / length", kind="silent"))
A(M("c05-lt-label", "C05", TT, "        return (self.model, self.chain, self.number, self.icode or \" \") < (\n            other.model,\n            other.chain,\n            other.number,\n            other.icode or \" \",\n        )", "        return (self.model, self.chain, self.number) < (\n            other.model,\n            other.chain,\n            other.number,\n        )", "identity-order"))

# ---------------------------------------------------------------- C07
A(M("c07-window-open", "C07", C, "candidate = self.entries[stops[i - 1] : stops[i] + 1]", "candidate = self.entries[stops[i - 1] : stops[i]]", ["index-discipline", "elements-windows"]))
A(M("c07-stop-base", "C07", C, "stopset.add(stem.strand5p.last - 1)", "stopset.add(stem.strand5p.last)", ["index-discipline", "elements-stops"]))
A(M("c07-link-base", "C07", C, "if self.entries[i_last - 1].pair == j_first:", "if self.entries[i_last].pair == j_first:", ["index-discipline", "elements-links"]))
A(M("c07-strand-last", "C07", C, "last = first + len(entries) - 1", "last = first + len(entries)", ["index-discipline", "strand-span"]))
A(M("c07-strand-slice", "C07", C, "structure = dotbracket[first - 1 : last]", "structure = dotbracket[first : last]", ["index-discipline", "strand-structure"]))
A(M("c07-interior", "C07", C, "for entry in candidate[1:-1]]", "for entry in candidate[1:]]", ["elements-windows", "elements-windows-fact"]))
A(M("c07-tail5", "C07", C, "self.entries[: stops[0] + 1],", "self.entries[: stops[0]],", ["index-discipline", "elements-tail5"]))
A(M("c07-closure", "C07", C, "if self.entries[loop[0].first - 1].pair == loop[-1].last:", "if self.entries[loop[0].first].pair == loop[-1].last:", ["index-discipline", "elements-closure"]))
A(M("c07-hairpin-test", "C07", C, "if candidate[0].pair == candidate[-1].index_:", "if candidate[0].pair == candidate[-1].pair:", ["elements-windows", "elements-windows-fact"]))
A(M("c07-fcfs-structure", "C07", C, "                stem_entries, self.entries, self.dot_bracket.structure\n", "                stem_entries, self.entries, self.fcfs.structure\n", "elements-dotbracket"))
A(M("c07-loop-sorted", "C07", C, "loops.append(Loop(loop))", "loops.append(Loop(sorted(loop, key=lambda strand: strand.first)))", ["elements-closure", "elements-closure-fact"]))
A(M("c07-stem-coords", "C07", TT, "idx3p = stem.strand3p.last - i", "idx3p = stem.strand3p.first - i", "index-discipline"))
A(M("c07-range-strand", "C07", TT, "for index_ in range(strand.first, strand.last + 1):", "for index_ in range(strand.first, strand.last):", "index-discipline"))
# fact-level rules of checks/c07e.py: the same breakages on top of the stored refactor C07-r2 (zip windows, stopset.update loop, hoisted names)
B7 = dict(base="C07-r2")
A(M("c07e-r2-window-open", "C07", C, "candidate = self.entries[begin : end + 1]", "candidate = self.entries[begin:end]", ["index-discipline", "elements-windows-fact"], **B7))
A(M("c07e-r2-zip-skip", "C07", C, "zip(stops, stops[1:])", "zip(stops, stops[2:])", "elements-windows-fact", **B7))
A(M("c07e-r2-stop-base", "C07", C, "stopset.update((strand.first - 1, strand.last - 1))", "stopset.update((strand.first - 1, strand.last))", ["index-discipline", "elements-stops-fact"], **B7))
A(M("c07e-r2-stop-missing", "C07", C, "for strand in (stem.strand5p, stem.strand3p):", "for strand in (stem.strand5p,):", "elements-stops-fact", **B7))
A(M("c07e-r2-interior-span", "C07", C, "any(strand.last - strand.first > 1 for strand in loop)", "any(strand.last - strand.first > 0 for strand in loop)", "elements-closure-fact", **B7))
A(M("c07e-r2-interior-slice", "C07", C, "interior = candidate[1:-1]", "interior = candidate[1:]", "elements-windows-fact", **B7))
A(M("c07e-r2-link-base", "C07", C, "if self.entries[i_last - 1].pair == j_first:", "if self.entries[i_last].pair == j_first:", ["index-discipline", "elements-links-fact"], **B7))
A(M("c07e-r2-link-one-way", "C07", C, "                if self.entries[j_last - 1].pair == i_first:\n                    graph[j].add(i)\n", "", "elements-links-fact", **B7))
A(M("c07e-r2-link-swapped", "C07", C, "if self.entries[j_last - 1].pair == i_first:\n                    graph[j].add(i)", "if self.entries[j_last - 1].pair == i_first:\n                    graph[i].add(j)", "elements-links-fact", **B7))
A(M("c07e-r2-hairpin-swap", "C07", C, "                if candidate[0].pair == candidate[-1].index_:\n                    hairpins.append(", "                if candidate[0].pair != candidate[-1].index_:\n                    hairpins.append(", "elements-windows-fact", **B7))
A(M("c07e-r2-closure-first", "C07", C, "if self.entries[loop[0].first - 1].pair == loop[-1].last:", "if self.entries[loop[0].first - 1].pair == loop[-1].first:", "elements-closure-fact", **B7))
A(M("c07e-r2-prelude", "C07", C, "        if not self.__stems_entries:\n            return [], [], [], []\n", "        if not self.__stems_entries or len(self.entries) < 4:\n            return [], [], [], []\n", "elements-prelude-fact", **B7))
A(M("c07e-tail5-guard", "C07", C, "if stops[0] > 0:", "if stops[0] > 1:", ["elements-tails-fact", "elements-tail5"]))
A(M("c07e-tail3-guard", "C07", C, "if stops[-1] < len(self.entries) - 1:", "if stops[-1] < len(self.entries) - 2:", ["elements-tails-fact", "elements-tail3"]))
A(M("c07e-tail3-slice", "C07", C, "self.entries[stops[-1] :], self.dot_bracket.structure", "self.entries[stops[-1] + 1 :], self.dot_bracket.structure", ["elements-tails-fact", "elements-tail3"]))
A(M("c07e-leftover-all", "C07", C, "            if loop_candidate not in used:\n                single_strands.append(SingleStrand(loop_candidate, False, False))", "            single_strands.append(SingleStrand(loop_candidate, False, False))", ["elements-tails-fact", "elements-leftover"]))
A(M("c07e-tail5-ge1-silent", "C07", C, "if stops[0] > 0:", "if stops[0] >= 1:", kind="silent"))
A(M("c07e-tail3-flip-silent", "C07", C, "if stops[-1] < len(self.entries) - 1:", "if len(self.entries) > stops[-1] + 1:", kind="silent"))
A(M("c07e-pairwise-silent", "C07", C, "for i in range(1, len(stops)):\n            candidate = self.entries[stops[i - 1] : stops[i] + 1]", "for i in range(len(stops) - 1):\n            candidate = self.entries[stops[i] : stops[i + 1] + 1]", kind="silent"))
A(M("c07e-links-full-silent", "C07", C, "            for j in range(i + 1, len(loop_candidates)):\n                i_first, i_last = loop_candidates[i].first, loop_candidates[i].last\n                j_first, j_last = loop_candidates[j].first, loop_candidates[j].last\n                if self.entries[i_last - 1].pair == j_first:\n                    graph[i].add(j)\n                if self.entries[j_last - 1].pair == i_first:\n                    graph[j].add(i)\n", "            for j in range(len(loop_candidates)):\n                if i != j and self.entries[loop_candidates[i].last - 1].pair == loop_candidates[j].first:\n                    graph[i].add(j)\n", kind="silent"))
A(M("c07e-hairpin-entries-silent", "C07", C, "if candidate[0].pair == candidate[-1].index_:", "if self.entries[stops[i - 1]].pair == stops[i] + 1:", kind="silent"))
A(M("c07e-not-any-silent", "C07", C, "if all([entry.pair == 0 for entry in candidate[1:-1]]):", "if not any(entry.pair != 0 for entry in candidate[1:-1]):", kind="silent"))
A(M("c07-unpaired-test-silent", "C07", C, "if all([entry.pair == 0 for entry in candidate[1:-1]]):", "if all(entry.pair == 0 for entry in candidate[1:-1]):", kind="silent"))

# ---------------------------------------------------------------- C08
PA = "parser.py"
A(M("c08-key-no-model", "C08", PA, "key = (atom.model, atom.label, atom.auth, atom.name)", "key = (atom.label, atom.auth, atom.name)", "identity-key-model"))
A(M("c08-occupancy-dir", "C08", PA, "                or atom.occupancy > unique_atoms[key].occupancy", "                or atom.occupancy < unique_atoms[key].occupancy", "occupancy-wins"))
A(M("c08-column", "C08", PA, "residue_number = int(line[22:26].strip())", "residue_number = int(line[23:27].strip())", "pdb-columns"))
A(M("c08-one-marker", "C08", PA, 'if insertion_code in ("?", "."):', 'if insertion_code == "?":', "null-markers"))
A(M("c08-clash-distance", "C08", PA, "clash_distance: float = 0.5", "clash_distance: float = 0.05", "clash-distance"))
A(M("c08-clash-loser", "C08", PA, "            atoms_to_keep.discard(j)\n        else:\n            atoms_to_keep.discard(i)", "            atoms_to_keep.discard(i)\n        else:\n            atoms_to_keep.discard(j)", "clash-loser"))
A(M("c08-clash-cross-model", "C08", PA, "        if unique_atoms_list[i].model != unique_atoms_list[j].model:\n            continue\n", "", "clash-same-model"))
A(M("c08-model-default", "C08", PA, "atoms = atoms_by_model[list(available_models.keys())[0]]", "atoms = atoms_by_model[list(available_models.keys())[-1]]", "model-selection"))
A(M("c08-group-key", "C08", PA, "        key = (atom.label, atom.auth, atom.model)", "        key = (atom.label, atom.auth)", "identity-key-model"))
A(M("c08-none-guard", "C08", PA, "            atom.occupancy is not None\n            and (\n                unique_atoms[key].occupancy is None\n                or atom.occupancy > unique_atoms[key].occupancy\n            )", "            atom.occupancy > unique_atoms[key].occupancy", "optional-occupancy"))
A(M("c08-isdigit", "C08", PA, "    try:\n        return int(s)\n    except ValueError:\n        return None", "    if s is None or not s.isdigit():\n        return None\n    return int(s)", "int-parsing"))
A(M("c08-flush", "C08", PA, "    residues.append(\n        Residue3D(label, auth, model, one_letter_name, tuple(residue_atoms))\n    )\n\n    if nucleic_acid_only:", "    if nucleic_acid_only:", "group-runs"))
A(M("c08-model-col", "C08", PA, "model = int(line[10:14].strip())", "model = int(line[6:10].strip())", "pdb-columns"))

# ---------------------------------------------------------------- C15
P2 = "parser_v2.py"
T2 = "tertiary_v2.py"
A(M("c15-threshold-one-side", "C15", T2, "return distance < 1.5 * AVERAGE_OXYGEN_PHOSPHORUS_DISTANCE_COVALENT", "return distance < 1.4 * AVERAGE_OXYGEN_PHOSPHORUS_DISTANCE_COVALENT", "connect-threshold"))
A(M("c15-label-chain", "C15", T2, '            if "auth_asym_id" in self.atoms.columns:\n                return self.atoms["auth_asym_id"].iloc[0]\n            else:\n                return self.atoms["label_asym_id"].iloc[0]', '            if "label_asym_id" in self.atoms.columns:\n                return self.atoms["label_asym_id"].iloc[0]\n            else:\n                return self.atoms["auth_asym_id"].iloc[0]', "prefer-auth"))
A(M("c15-chi-n7", "C15", TT, '            self.find_atom("N9"),\n            self.find_atom("C4"),', '            self.find_atom("N7"),\n            self.find_atom("C4"),', "chi-atoms"))
A(M("c15-v2-column", "C15", P2, '"resSeq": line[22:26].strip(),', '"resSeq": line[23:27].strip(),', ["pdb-slices-agree", "pdb-slices-v2"]))
A(M("c15-v2-x", ["C15", "C09"], P2, '"x": line[30:38].strip(),', '"x": line[31:39].strip(),', ["pdb-slices-agree", "pdb-slices-v2"]))
A(M("c15-sort-key", "C15", T2, "key=lambda r: (r.residue_number, r.insertion_code or \"\")", "key=lambda r: r.residue_number", "connect-order"))
A(M("c15-dropna", "C15", T2, "grouped = self.atoms.groupby(groupby_cols, dropna=False, observed=False)\n\n        elif", "grouped = self.atoms.groupby(groupby_cols, observed=False)\n\n        elif", "group-columns"))
A(M("c15-p-atom", "C15", TT, '        p = next_residue_candidate.find_atom("P")\n\n        if o3p is not None and p is not None:\n            distance = numpy', '        p = next_residue_candidate.find_atom("O5\'")\n\n        if o3p is not None and p is not None:\n            distance = numpy', "connect-atoms"))
A(M("c15-v2-hetatm-prefilter", ["C15", "C09"], P2, "    for line in lines:\n        record_type = line[:6].strip()\n", "    for line in lines:\n        if not line.startswith((\"ATOM \", \"HETATM \", \"MODEL \")):\n            continue\n        record_type = line[:6].strip()\n", "pdb-record-filter"))
A(M("c15-backbone", "C15", T2, '"beta": [("P", 0), ("O5\'", 0), ("C5\'", 0), ("C4\'", 0)],', '"beta": [("P", 0), ("O5\'", 0), ("C5\'", 0), ("C3\'", 0)],', "backbone-atoms"))
A(M("c15-chi-order", "C15", TT, "        torsion = self.__chi_purine()\n        if math.isnan(torsion):\n            return self.__chi_pyrimidine()\n        return torsion", "        torsion = self.__chi_pyrimidine()\n        if math.isnan(torsion):\n            return self.__chi_purine()\n        return torsion", "chi-dispatch"))

# ---------------------------------------------------------------- C09
A(M("c09-serial-width", "C09", P2, 'serial = str(atom_data.get("serial", 0)).rjust(5)', 'serial = str(atom_data.get("serial", 0)).rjust(6)', "writer-layout"))
A(M("c09-gap", "C09", P2, '{chain_id}{res_seq}{icode}   "', '{chain_id}{res_seq}{icode}  "', "writer-layout"))
A(M("c09-reader-x", "C09", P2, '"y": line[38:46].strip(),', '"y": line[39:47].strip(),', ["writer-reader-columns", "pdb-slices-v2", "pdb-slices-agree"]))
A(M("c09-swap-attrs", "C09", P2, '            "label_comp_id",  # resName\n            "label_asym_id",  # chainID', '            "label_asym_id",  # chainID\n            "label_comp_id",  # resName', "field-map-pdb-to-cif"))
A(M("c09-precision", "C09", P2, "x = f\"{atom_data.get('x', 0.0):8.3f}\"", "x = f\"{atom_data.get('x', 0.0):8.2f}\"", "numeric-format"))
A(M("c09-cif-precision", "C09", P2, "f\"{float(row['x']):.3f}\",  # Cartn_x", "f\"{float(row['x']):.2f}\",  # Cartn_x", "numeric-format"))
A(M("c09-drop-ter-before-endmdl", "C09", P2, "                if last_chain_id is not None:\n                    ter_serial = str(last_serial + 1).rjust(5)\n                    ter_res_name = last_res_info[2].strip().rjust(3)\n                    ter_chain_id = last_chain_id\n                    ter_res_seq = str(last_res_info[0]).rjust(4)\n                    ter_icode = last_res_info[1] if last_res_info[1] else \"\"\n\n                    ter_line = f\"TER   {ter_serial}      {ter_res_name} {ter_chain_id}{ter_res_seq}{ter_icode}\"\n                    buffer.write(ter_line.ljust(80) + \"\\n\")\n                buffer.write(\"ENDMDL\\n\")", "                buffer.write(\"ENDMDL\\n\")", ["record-order", "ter-line"]))
A(M("c09-charge-abs", "C09", P2, "charge_fmt = f\"{abs(charge_int)}{'+' if charge_int > 0 else '-'}\"", "charge_fmt = f\"{charge_int}{'+' if charge_int > 0 else '-'}\"", "charge-format"))
A(M("c09-cif-source-item", "C09", P2, '"element": pdb_element,\n                "charge": pdb_charge,\n                "model": int(row.get("pdbx_PDB_model_num", 1)),', '"element": pdb_element,\n                "charge": pdb_charge,\n                "model": int(row.get("pdbx_PDB_model_num", 1)),', kind="silent"))
A(M("c09-cif-label-first", "C09", P2, 'str(row.get("auth_asym_id", row.get("label_asym_id")))', 'str(row.get("label_asym_id", row.get("auth_asym_id")))', "field-map-cif-to-pdb"))
A(M("c09-bfactor-item", "C09", P2, 'float(row.get("B_iso_or_equiv", 0.0))', 'float(row.get("occupancy", 0.0))', "field-map-cif-to-pdb"))
A(M("c09-model-line", "C09", P2, 'buffer.write(f"MODEL     {current_model_num:>4}\\n")', 'buffer.write(f"MODEL    {current_model_num:>4}\\n")', "model-line"))
A(M("c09-ter-serial", "C09", P2, '        ter_serial = str(last_serial + 1).rjust(5)\n        ter_res_name = last_res_info[2].strip().rjust(3)\n        ter_chain_id = last_chain_id\n        ter_res_seq = str(last_res_info[0]).rjust(4)\n        ter_icode = last_res_info[1] if last_res_info[1] else ""\n\n        ter_line = f"TER   {ter_serial}      {ter_res_name}', '        ter_serial = str(last_serial + 1).rjust(5)\n        ter_res_name = last_res_info[2].strip().rjust(3)\n        ter_chain_id = last_chain_id\n        ter_res_seq = str(last_res_info[0]).rjust(4)\n        ter_icode = last_res_info[1] if last_res_info[1] else ""\n\n        ter_line = f"TER   {ter_serial}     {ter_res_name}', "ter-line"))
A(M("c09-no-ter-at-chain", "C09", P2, "if last_chain_id is not None and current_chain_id != last_chain_id:", "if last_chain_id is not None and current_chain_id != last_chain_id and False:", "record-order"))
A(M("c09-charge-verbatim", "C09", P2, "                if charge_val[1] == \"+\":\n                    charge_val = charge_val[0]", "                if charge_val[1] == \"+\":\n                    charge_val = charge_val", "value-domain"))
A(M("c09-icode-placeholder", "C09", P2, 'icode_val = "." if pd.isna(row.get("iCode")) else str(row["iCode"])', 'icode_val = "-" if pd.isna(row.get("iCode")) else str(row["iCode"])', "null-agreement"))

# ---------------------------------------------------------------- C10
A(M("c10-limit-one-place", "C10", P2, 'pd.to_numeric(df["id"], errors="coerce").max() > 99999', 'pd.to_numeric(df["id"], errors="coerce").max() > 999999', "fit-test"))
A(M("c10-len-df", "C10", P2, 'pd.to_numeric(df["id"], errors="coerce").max() > 99999', 'len(df) > 99999', "fit-test"))
A(M("c10-runtimeerror", "C10", P2, '        raise ValueError(\n            f"Cannot fit to PDB: Number of unique chains', '        raise RuntimeError(\n            f"Cannot fit to PDB: Number of unique chains', "only-valueerror"))
A(M("c10-return-copy", "C10", P2, "    if can_write_pdb(df):\n        return df\n", "    if can_write_pdb(df):\n        return df.copy()\n", "fits-returns-same"))
A(M("c10-store-x", "C10", P2, "    df_fitted[icode_col] = None  # Insertion codes are now redundant\n", "    df_fitted[icode_col] = None  # Insertion codes are now redundant\n    df_fitted[\"occupancy\"] = 1.0\n", "frame-condition"))
A(M("c10-alphabet-short", "C10", P2, "string.ascii_uppercase + string.ascii_lowercase + string.digits", "string.ascii_uppercase + string.ascii_lowercase", "chain-alphabet"))
A(M("c10-drop-feasibility", "C10", P2, "    if num_chains > max_pdb_chains:\n        raise ValueError(\n            f\"Cannot fit to PDB: Number of unique chains ({num_chains}) exceeds PDB limit ({max_pdb_chains}).\"\n        )\n", "", ["feasibility", "chain-map"]))
A(M("c10-residue-skip", "C10", P2, "        all_new_res_maps[new_chain_id] = residue_mapping\n", "        all_new_res_maps[new_chain_id] = residue_mapping\n        if len(residue_mapping) < 2:\n            continue\n", "residue-map"))
A(M("c10-fillna-category", "C10", P2, '"iCode": df[icode_col].astype(object).fillna("")', '"iCode": df[icode_col].fillna("")', "dtype-typestate"))
A(M("c10-rename-dup", "C10", P2, '        "auth_comp_id": "resName",\n    }', '        "auth_comp_id": "resName",\n        "label_comp_id": "resName",\n    }', "rename-injective"))
A(M("c10-rename-missing", "C10", P2, '        "label_alt_id": "altLoc",\n', "", "rename-coverage"))
A(M("c10-serial-ter", "C10", P2, "            current_serial += 1  # Increment for TER line\n", "            pass\n", "serial-renumber"))
A(M("c10-resseq-limit", "C10", P2, "max_pdb_residue = 9999", "max_pdb_residue = 99999", "limits"))
A(M("c10-write-input", "C10", P2, "    df_fitted = df.copy()\n", "    df[chain_col] = df[chain_col].astype(object)\n    df_fitted = df.copy()\n", "input-untouched"))

# ---------------------------------------------------------------- C17
CF = "clashfinder.py"
A(M("c17-radius-half", "C17", CF, "kdtree.query_pairs(2.0 * max_radius + molprobity_factor)", "kdtree.query_pairs(max_radius + molprobity_factor)", "search-radius"))
A(M("c17-radius-no-extra", "C17", CF, "kdtree.query_pairs(2.0 * max_radius + molprobity_factor)", "kdtree.query_pairs(2.0 * max_radius)", "search-radius"))
A(M("c17-distance-dir", "C17", CF, "if distance > sum_vdw_radii + molprobity_factor:", "if distance < sum_vdw_radii + molprobity_factor:", ["distance-region", "search-radius"]))
A(M("c17-swap-cli", "C17", CF, "        args.ignore_occupancy,\n        args.ignore_autoclashes,", "        args.ignore_autoclashes,\n        args.ignore_occupancy,", "cli-arguments"))
A(M("c17-wrong-accumulator", "C17", CF, "[max_occupancy_chains.get((ri.chain, rj.chain), 0.0), occupancy]", "[max_occupancy_residues.get((ri.chain, rj.chain), 0.0), occupancy]", "accumulator"))
A(M("c17-occupancy-or", "C17", CF, "(1.0 if ai.occupancy is None else ai.occupancy)", "(ai.occupancy or 1.0)", ["optional-truthiness", "occupancy-sum"]))
A(M("c17-molprobity-1", "C17", CF, "molprobity_factor = 0.5 if enable_molprobity_mode is True else 0.0", "molprobity_factor = 0.4 if enable_molprobity_mode is True else 0.0", "molprobity-term"))
A(M("c17-option-wired-wrong", "C17", CF, "if ignore_autoclashes is True and ri == rj:", "if require_same_atom_name is True and ri == rj:", "option-filter"))
A(M("c17-extra-filter", "C17", CF, "        distance = np.linalg.norm(ai.coordinates - aj.coordinates)\n", "        if ai.name.startswith(\"P\") and aj.name.startswith(\"P\"):\n            continue\n        distance = np.linalg.norm(ai.coordinates - aj.coordinates)\n", "option-extra-filter"))
A(M("c17-csv-unsorted", "C17", CF, "                        for ai, aj, occupancy in sorted(\n                            clashing_chains[(ci, cj)][(ri, rj)]\n                        ):", "                        for ai, aj, occupancy in (\n                            clashing_chains[(ci, cj)][(ri, rj)]\n                        ):", ["report-loops"]))
A(M("c17-threshold-one-radius", "C17", CF, "sum_vdw_radii = AtomType[ai.name[0]].radius + AtomType[aj.name[0]].radius", "sum_vdw_radii = AtomType[ai.name[0]].radius + AtomType[ai.name[0]].radius", "distance-threshold"))
A(M("c17-radius-comb", "C17", CF, "    max_radius = max([atom_type.radius for atom_type in AtomType])\n", "    import itertools\n    max_radius = max(a.radius + b.radius for a, b in itertools.combinations(AtomType, 2)) / 2.0\n", "search-radius"))
A(M("c17-radius-silent", "C17", CF, "kdtree.query_pairs(2.0 * max_radius + molprobity_factor)", "kdtree.query_pairs(2.5 * max_radius + molprobity_factor)", kind="silent"))

# ---------------------------------------------------------------- C18
A(M("c18-atan2-swap", "C18", TT, "angle = math.atan2(dot_t2_t3, dot_t1_t2)", "angle = math.atan2(dot_t1_t2, dot_t2_t3)", "torsion-closed-form"))
A(M("c18-t3-v3", "C18", TT, "t3 = v1_norm * numpy.linalg.norm(v2_norm)", "t3 = v3_norm * numpy.linalg.norm(v2_norm)", "torsion-closed-form"))
A(M("c18-cross-order", "C18", TT, "t1 = numpy.cross(v1_norm, v2_norm)", "t1 = numpy.cross(v2_norm, v1_norm)", "torsion-closed-form"))
A(M("c18-v2-fixed-sign", "C18", T2, "m1 = np.cross(n1, v2 / np.linalg.norm(v2))", "m1 = np.cross(v2 / np.linalg.norm(v2), n1)", kind="silent"))
A(M("c18-v2-drop-norm", "C18", T2, "m1 = np.cross(n1, v2 / np.linalg.norm(v2))", "m1 = np.cross(n1, v2)", "torsion-closed-form"))
A(M("c18-v2-guard", "C18", T2, "    n1 = n1 / n1_norm\n    n2 = n2 / n2_norm\n", "    if min(n1_norm, n2_norm) < 0.5:\n        return float(\"nan\")\n    n1 = n1 / n1_norm\n    n2 = n2 / n2_norm\n", "degenerate-guard"))
A(M("c18-degrees-return", "C18", TT, "    return angle if not math.isnan(angle) else 0.0", "    return math.degrees(angle) if not math.isnan(angle) else 0.0", "torsion-returned"))
A(M("c18-chi-c8", "C18", TT, '            self.find_atom("N9"),\n            self.find_atom("C4"),', '            self.find_atom("N9"),\n            self.find_atom("C8"),', "chi-atoms"))
A(M("c18-cis-no-degrees", "C18", AN, "torsion = math.degrees(torsion_angle(c1p_i, n9n1_i, n9n1_j, c1p_j))", "torsion = torsion_angle(c1p_i, n9n1_i, n9n1_j, c1p_j)", "cis-trans"))
A(M("c18-chi-class-deg", "C18", TT, "if math.radians(-30) < self.chi < math.radians(120):", "if -30 < self.chi < 120:", "chi-class-units"))
A(M("c18-wrapper-order", "C18", TT, "        a1.coordinates, a2.coordinates, a3.coordinates, a4.coordinates\n", "        a1.coordinates, a3.coordinates, a2.coordinates, a4.coordinates\n", "torsion-wrapper"))
A(M("c18-renorm-silent", "C18", TT, "    t3 = v1_norm * numpy.linalg.norm(v2_norm)", "    length = numpy.linalg.norm(v2_norm)\n    t3 = v1_norm * length", kind="silent"))

# ---------------------------------------------------------------- C19
AD = "adapter.py"
A(M("c19-narrow-handler", "C19", AD, "    except (ValueError, IndexError) as e:\n        logging.warning(f\"Error parsing interaction: {e}\")", "    except ValueError as e:\n        logging.warning(f\"Error parsing interaction: {e}\")", "fr3d-total"))
A(M("c19-drop-other", "C19", AD, '        elif interaction_category == "other":\n            interactions_data["other_interactions"].append(\n                OtherInteraction(nt1_residue, nt2_residue)\n            )\n', "", "dispatch-exhaustive"))
A(M("c19-wrong-class", "C19", AD, "                Stacking(nt1_residue, nt2_residue, classification)", "                BasePair(nt1_residue, nt2_residue, classification, None)", "dispatch-branch"))
A(M("c19-swap-fields", "C19", AD, '        interactions_data["base_ribose_interactions"],\n        interactions_data["base_phosphate_interactions"],\n        interactions_data["other_interactions"],\n    )', '        interactions_data["base_phosphate_interactions"],\n        interactions_data["base_ribose_interactions"],\n        interactions_data["other_interactions"],\n    )', "result-fields"))
A(M("c19-field-index", "C19", AD, "auth = ResidueAuth(fields[2], int(fields[4]), icode, fields[3])", "auth = ResidueAuth(fields[2], int(fields[5]), icode, fields[3])", "unit-id"))
A(M("c19-suffix-original", "C19", AD, "        fr3d_name = fr3d_name[:-1]  # Remove the 'a' suffix", "        fr3d_name = original_name[:-1]  # Remove the 'a' suffix", "normaliser-self-update"))
A(M("c19-dir-guard", "C19", AD, "lw in LeontisWesthof.__members__", "lw in dir(LeontisWesthof)", "guard-exact"))
A(M("c19-lw-keyerror", "C19", AD, "            return (\"base-pair\", LeontisWesthof[lw_format])\n        except KeyError:", "            return (\"base-pair\", LeontisWesthof[lw_format])\n        except ValueError:", "fr3d-total"))
A(M("c19-stack-zip", "C19", AD, "        for i in range(1, len(nts)):\n            nt1 = nts[i - 1]\n            nt2 = nts[i]\n            if nt1 is not None and nt2 is not None:\n                stackings.append(Stacking(nt1, nt2, None))", "        nts = [nt for nt in nts if nt is not None]\n        for nt1, nt2 in zip(nts, nts[1:]):\n            stackings.append(Stacking(nt1, nt2, None))", "dssr-eval"))
A(M("c19-edge-case", "C19", AD, "edge2 = fr3d_name[2].upper()", "edge2 = fr3d_name[2]", "normaliser-lw"))
A(M("c19-stack-table", "C19", AD, '        if fr3d_name == "s35":\n            return ("stacking", StackingTopology.outward)', '        if fr3d_name == "s35":\n            return ("stacking", StackingTopology.inward)', "normaliser-stacking"))
A(M("c19-icode-guard", "C19", AD, 'icode = fields[7] if len(fields) >= 8 and fields[7] != "" else None', 'icode = fields[7] if len(fields) >= 7 and fields[7] != "" else None', ["unit-id"]))
A(M("c19-parts-guard-silent", "C19", AD, "        if len(parts) < 3:\n            logging.warning(f\"Invalid interaction line format: {line}\")\n            return False\n", "        if len(parts) < 3:\n            return False\n", kind="silent"))

# ---------------------------------------------------------------- C20
TR = "transformer.py"
A(M("c20-pass-path", "C20", TR, "        output = copy_from_to(\n            file_content, args.category", "        output = copy_from_to(\n            args.input, args.category", "cli-content"))
A(M("c20-tuple-written", "C20", TR, "        output, _ = replace_value(", "        output = replace_value(", "cli-writes-str"))
A(M("c20-direction", "C20", TR, "            row[j] = row[i]\n", "            row[i] = row[j]\n", "row-stores"))
A(M("c20-early-empty", "C20", TR, "    if copy_from not in attributes:\n        return file_content\n", "    if copy_from not in attributes:\n        return \"\"\n", "early-exit-identity"))
A(M("c20-defensive-copy", "C20", TR, "    category_obj = data[0].getObj(category)\n    attributes = category_obj.getAttributeList()\n\n    if copy_from not in attributes:", "    category_obj = data[0].getObj(category)\n    attributes = list(category_obj.getAttributeList())\n\n    if copy_from not in attributes:", "edit-reaches-output"))
A(M("c20-filetype", "C20", TR, 'parser.add_argument("output", help="path to output mmCIF file")', 'parser.add_argument("output", type=argparse.FileType("w"), help="path to output mmCIF file")', ["cli-path-args", "cli-open-order"]))
A(M("c20-mapping-not-first-seen", "C20", TR, "            mapping[row[i]] = values[len(mapping)]", "            mapping[row[i]] = values[len(mapping) % len(values)]", "row-stores"))
A(M("c20-mapping-dropped", "C20", TR, "        return f.read(), mapping", "        return f.read(), {}", "result"))
A(M("c20-wiring", "C20", TR, "file_content, args.category, args.replace, args.values", "file_content, args.category, args.values, args.replace", "cli-wiring"))
A(M("c20-open-before-read", "C20", TR, "    with open(args.input) as f:\n        file_content = f.read()\n\n    if args.copy_from", "    out = open(args.output, \"w\")\n    with open(args.input) as f:\n        file_content = f.read()\n\n    if args.copy_from", ["cli-open-order-evidence"], kind="fire"))

# ---------------------------------------------------------------- C06
A(M("c06-row-guard-one", "C06", TT, "                        if base_pair.nt1 not in used and base_pair.nt2 not in used:\n                            row.append(base_pair)", "                        if base_pair.nt1 not in used:\n                            row.append(base_pair)", "row-typestate"))
A(M("c06-remove-unguarded", "C06", TT, "            for pairs in matches.values():\n                if len(pairs) > 1:\n                    pairs = sorted(pairs, key=pair_scoring_function)\n                    canonical.remove(pairs[-1])\n                    break\n            else:\n                break\n\n        return self.__generate_bpseq(canonical)", "            for pairs in matches.values():\n                if len(pairs) > 0:\n                    pairs = sorted(pairs, key=pair_scoring_function)\n                    canonical.remove(pairs[-1])\n                    break\n            else:\n                break\n\n        return self.__generate_bpseq(canonical)", "matching-typestate"))
A(M("c06-counter", "C06", TT, "                        result[i] = [i, \"?\", 0]\n                        i += 1\n", "                        result[i] = [i, \"?\", 0]\n", "numbering"))
A(M("c06-gap-one-side", "C06", TT, "                        for k in range(residue.number - previous.number - 1):\n                            result[-1][1].append(\"?\")", "                        for k in range(residue.number - previous.number):\n                            result[-1][1].append(\"?\")", "gap-rule-agree"))
A(M("c06-slice-step", "C06", TT, "            result.append(\"\".join(dbn[i : i + len(sequence)]))\n            i += len(sequence)", "            result.append(\"\".join(dbn[i : i + len(sequence)]))\n            i += 1", "strand-slices"))
A(M("c06-reverse-not-used", "C06", TT, "                if bp.reverse not in used:\n                    result.append(bp.reverse)\n                    used.add(bp.reverse)", "                if bp.reverse not in used:\n                    result.append(bp.reverse)", "lifting-guarded-insert"))
A(M("c06-asymmetric", "C06", TT, "            result[j][2] = k\n            result[k][2] = j\n", "            result[j][2] = k\n", "symmetric-pairs"))
A(M("c06-connected-swapped", "C06", TT, "                if (\n                    not previous.is_connected(residue)\n                    and previous.chain == residue.chain\n                ):", "                if (\n                    not residue.is_connected(previous)\n                    and previous.chain == residue.chain\n                ):", "gap-rule-agree"))
A(M("c06-nucleotides-differ", "C06", TT, "        nucleotides = list(filter(lambda r: r.is_nucleotide, self.structure3d.residues))\n        result: Dict[int, List] = {}", "        nucleotides = list(self.structure3d.residues)\n        result: Dict[int, List] = {}", "nucleotides-agree"))
A(M("c06-candidates-both-dirs", "C06", TT, "            if base_pair.is_canonical and base_pair.nt1 < base_pair.nt2\n        ]\n\n        while True:\n            matches = defaultdict(set)\n\n            for base_pair in canonical:\n                matches[base_pair.nt1_3d].add(base_pair)\n                matches[base_pair.nt2_3d].add(base_pair)\n\n            for pairs in matches.values():\n                if len(pairs) > 1:\n                    pairs = sorted(pairs, key=pair_scoring_function)\n                    canonical.remove(pairs[-1])\n                    break\n            else:\n                break\n\n        return self.__generate_bpseq(canonical)", "            if base_pair.is_canonical\n        ]\n\n        while True:\n            matches = defaultdict(set)\n\n            for base_pair in canonical:\n                matches[base_pair.nt1_3d].add(base_pair)\n                matches[base_pair.nt2_3d].add(base_pair)\n\n            for pairs in matches.values():\n                if len(pairs) > 1:\n                    pairs = sorted(pairs, key=pair_scoring_function)\n                    canonical.remove(pairs[-1])\n                    break\n            else:\n                break\n\n        return self.__generate_bpseq(canonical)", "canonical-candidates"))
A(M("c06-dangling", "C06", TT, "            if nt1 is not None and nt2 is not None:\n                bp = BasePair3D(", "            if nt1 is not None:\n                bp = BasePair3D(", "lifting-dangling"))

# ---------------------------------------------------------------- C01 text forms / C09 splitter
A(M("c01-str-order", "C01", C, 'return "\\n".join(("{} {} {}".format(i, c, j) for i, c, j in self.entries))', 'return "\\n".join(("{} {} {}".format(i, j, c) for i, c, j in self.entries))', "bpseq-text"))
A(M("c01-fromstring-field", "C01", C, "entry = Entry(int(fields[0]), fields[1], int(fields[2]))", "entry = Entry(int(fields[0]), fields[1], int(fields[0]))", "bpseq-text"))
A(M("c01-multistrand-first", "C01", C, "            first = last + 1\n", "            first = last\n", "multistrand-text"))
A(M("c09-splitter-nofit", "C09", "splitter.py", "                df_to_write = fit_to_pdb(model_df)\n                write_pdb(df_to_write, output_path)", "                write_pdb(model_df, output_path)", "splitter-wiring"))

# ---------------------------------------------------------------- rename + reflow twins (sa/align.py)
def R(id, props, file, func, rename):
    return dict(id=id, props=props, file=file, func=func, rename=rename, kind="silent", rule=None)


A(R("ren-find-pairs", ["C03", "C05", "C11", "C14"], AN, "find_pairs", {"residue_i": "res_a", "residue_j": "res_b", "atom_i": "at_a", "atom_j": "at_b", "occupied": "taken", "labels": "votes", "hydrogen_bonds": "hbonds", "cis_trans": "ct", "edges_i": "ea", "edges_j": "eb", "vector": "bond", "angle1": "alpha", "angle2": "beta", "kdtree": "tree", "type_i": "ti", "type_j": "tj"}))
A(R("ren-find-stackings", ["C04", "C05", "C11"], AN, "find_stackings", {"residue_i": "ra", "residue_j": "rb", "normal_i": "na", "normal_j": "nb", "same_direction": "parallel", "pairs": "found", "vector": "offset", "xs": "cx", "ys": "cy", "zs": "cz", "geometric_center": "centroid"}))
A(R("ren-elements", ["C07", "C12", "C01"], C, "BpSeq.elements", {"stops": "cuts", "stopset": "cutset", "candidate": "window", "loop_candidates": "open_strands", "graph": "links", "loop": "cycle", "used": "consumed", "stem": "helix"}))
A(R("ren-convert", ["C02", "C13", "C01"], C, "BpSeq.convert_to_dot_bracket", {"regions": "stems_", "graph": "conflicts", "max_order": "n_levels", "problem": "model", "variable": "xvar", "terms": "objective_terms", "orders": "levels", "vars_by_order": "by_level", "vars_by_region": "by_stem", "var_by_region_order": "lookup", "region_by_var": "owner", "length": "weight", "ri": "a", "rj": "b", "k": "a0", "l": "a1", "m": "b0", "n": "b1"}))
A(R("ren-all-db", ["C16", "C01", "C14"], C, "BpSeq.all_dot_brackets", {"graph": "conflicts", "vertices": "nodes", "visited": "seen", "components": "groups", "stack": "todo", "current": "top", "next_vertex": "nxt", "neighbor": "nb", "unique": "per_group", "permutation": "perm", "available": "free", "solutions": "found", "assignment": "combo", "component": "group"}))
A(R("ren-fcfs", ["C01", "C13"], C, "BpSeq.fcfs", {"regions": "stems_", "orders": "levels", "available": "free", "conflicted": "crossing", "k": "a0", "l": "a1", "m": "b0", "n": "b1"}))
A(R("ren-fill", ["C01", "C02", "C16"], C, "BpSeq.__make_dot_bracket", {"structure": "out", "brackets": "alphabet", "bracket": "pair_chars", "stem": "reg", "j": "p", "k": "q", "n": "count"}))
A(R("ren-filter", ["C08", "C14"], PA, "filter_clashing_atoms", {"unique_atoms": "best", "unique_atoms_list": "kept", "coords": "xyz", "tree": "kd", "pairs": "close", "atoms_to_keep": "alive", "key": "ident"}))
A(R("ren-fit", ["C10"], P2, "fit_to_pdb", {"df_fitted": "out", "chain_mapping": "cmap", "residue_mapping": "rmap", "unique_chains": "chains", "rename_map": "renames", "check_df": "probe", "current_serial": "serial_no"}))
A(R("ren-write-pdb", ["C09"], P2, "write_pdb", {"buffer": "out", "atom_data": "rec", "last_chain_id": "prev_chain", "last_model_num": "prev_model", "last_res_info": "prev_res", "last_serial": "prev_serial", "current_chain_id": "chain_now", "current_model_num": "model_now", "current_res_info": "res_now"}))
A(R("ren-clashes", ["C17"], CF, "find_clashes", {"ai": "a", "aj": "b", "ri": "ra", "rj": "rb", "distance": "d", "sum_vdw_radii": "limit", "molprobity_factor": "extra", "max_radius": "rmax", "kdtree": "tree"}))
A(R("ren-torsion", ["C18"], TT, "calculate_torsion_angle_coords", {"v1": "b1", "v2": "b2", "v3": "b3", "v1_norm": "u1", "v2_norm": "u2", "v3_norm": "u3", "t1": "n1", "t2": "n2", "t3": "m", "angle": "phi"}))
A(R("ren-bpseq-gen", ["C06", "C14"], TT, "Mapping2D3D.__generate_bpseq", {"nucleotides": "nts", "result": "rows", "residue_map": "number_of", "index_to_residue_map": "residue_at", "previous": "prev", "residue": "res"}))
A(R("ren-extended", ["C06"], TT, "Mapping2D3D.extended_dot_bracket", {"rows": "layers", "used_per_row": "busy", "row": "layer", "used": "taken", "result": "blocks", "base_pair": "bp"}))
A(R("ren-process-line", ["C19"], AD, "_process_interaction_line", {"parts": "cols", "nt1": "left", "nt2": "right", "interaction_type": "label", "nt1_residue": "r1", "nt2_residue": "r2", "interaction_category": "category", "classification": "cls_"}))
A(R("ren-copy", ["C20"], TR, "copy_from_to", {"attributes": "names", "transformed": "rows_out", "category_obj": "cat", "row": "r", "i": "src", "j": "dst"}))
A(R("ren-without-isolated", ["C12"], C, "BpSeq.without_isolated", {"to_unpair": "lonely", "entries": "copied", "stems": "helices", "stem": "helix"}))


# ---------------------------------------------------------------- round 3: fact-level rules of checks/c01e.py
# The encoders of common.py are decided at fact level first (fragments evaluated on every class of a finite input
# partition); the pinned-form rule ids above stay valid for the fallback.  Either id counts.
ALSO = {
    "c01-conflict-convert": ["conflict-graph-fact"],
    "c01-conflict-all": ["conflict-graph-fact"],
    "c01-conflict-fcfs-drop": ["fcfs-first-fit"],
    "c01-fill-offby1": ["fill-stores"],
    "c01-fill-trips": ["fill-stores"],
    "c01-fill-dir": ["fill-stores"],
    "c01-fill-bracket-swap": ["fill-stores", "alphabet-agree"],
    "c01-run-cond": ["stems-run-fact"],
    "c01-fromdb-shift": ["from-db-fact"],
    "c01-fromdb-drop": ["from-db-fact"],
    "c01-fcfs-range": ["fcfs-first-fit"],
    "c01-fcfs-break": ["fcfs-first-fit"],
    "c01-fcfs-avail-hoist": ["fcfs-first-fit"],
    "c01-fcfs-region-swap": ["region-triple", "fcfs-first-fit"],
    "c01-fcfs-region-last": ["region-triple", "fcfs-first-fit"],
    "c13-fcfs-count-false": ["fcfs-first-fit"],
    "c13-fcfs-last-free": ["fcfs-first-fit"],
    "c13-handler-reraise": ["solve-handled"],
    "c13-objective-fmt": ["never-raises"],
    "c13-status-infeasible-only": ["fallback-is-fcfs"],
    "c13-drop-status": ["fallback-is-fcfs"],
    "c02-name-swap": ["milp-one-level"],
    "c02-readback-swap": ["milp-one-level"],
    "c02-graph-oneway": ["conflict-graph-fact"],
    "c02-pairs-short": ["conflict-graph-fact"],
    "c02-length-first": ["milp-objective-coeff"],
    "c16-greedy-range": ["enumeration-fact"],
    "c16-available-small": ["enumeration-fact"],
    "c16-perm-k": ["enumeration-fact"],
    "c16-perm-identity": ["enumeration-fact"],
    "c16-zip": ["enumeration-fact"],
    "c16-pop-early": ["enumeration-fact"],
    "c16-default-missing": ["enumeration-fact"],
    "c16-early-exit": ["enumeration-fact"],
    "c16-mark-wrong": ["enumeration-fact"],
    "c12-isolated-3p": ["isolated-select"],
    "c01-pop0": ["decoder-fact"],
    "c12-isolated-guard": ["isolated-select"],
}
for _m in MUTANTS:
    if _m["id"] in ALSO and _m.get("rule") is not None:
        _m["rule"] = ([_m["rule"]] if isinstance(_m["rule"], str) else list(_m["rule"])) + [r for r in ALSO[_m["id"]] if r not in ([_m["rule"]] if isinstance(_m["rule"], str) else _m["rule"])]

# firing mutants on top of the stored round-3 refactors (and silent twins): the fact-level rules decide rewritten code too
import os as _os

_P = _os.path.join(_os.path.dirname(_os.path.abspath(__file__)), "patches")
B14 = dict(base="C01-r4")  # crossing helper + uncached __conflict_graph(regions) + FCFS with a set of taken orders
A(M("c01e-r4-fcfs-range", ["C01", "C13"], C, "                for j in range(i)\n                if BpSeq.__is_pseudoknot(regions[i], regions[j])", "                for j in range(i - 1)\n                if BpSeq.__is_pseudoknot(regions[i], regions[j])", "fcfs-first-fit", **B14))
A(M("c01e-r4-fcfs-levels", ["C01", "C13"], C, 'levels = len("([{<" + string.ascii_uppercase)', "levels = len(string.ascii_uppercase)", "fcfs-levels", **B14))
A(M("c01e-r4-graph-oneway", ["C01", "C02", "C16"], C, "            graph[i].add(j)\n            graph[j].add(i)\n\n        return graph", "            graph[i].add(j)\n\n        return graph", "conflict-graph-fact", **B14))
A(M("c01e-r4-pred-encloses", ["C01", "C13"], C, "        return m < k < n < l\n", "        return m < k < l < n\n", ["fcfs-first-fit", "conflict-graph-fact"], **B14))
A(M("c01e-r4-guard-flip", ["C01", "C02", "C16"], C, "            if not BpSeq.__is_pseudoknot(regions[i], regions[j]):\n                continue", "            if BpSeq.__is_pseudoknot(regions[i], regions[j]):\n                continue", "conflict-graph-fact", **B14))
A(M("c01e-r4-min-silent", ["C01", "C13", "C02", "C16"], C, "next(order for order in range(levels) if order not in taken)", "min(order for order in range(levels) if order not in taken)", kind="silent", **B14))
A(M("c01e-r4-pred-or-silent", ["C01", "C02", "C13", "C16"], C, "        if k < m < l < n:\n            return True\n        return m < k < n < l\n", "        return (m < k < n < l) or (k < m < l < n)\n", kind="silent", **B14))
B13 = dict(base="C01-r3")  # __stems_entries with itertools.groupby over the diagonal key, __regions as a loop
A(M("c01e-r3-diagonal", ["C01", "C16"], C, "return entry.index_ - position, entry.pair + position", "return entry.index_ - position, entry.pair - position", "stems-run-fact", **B13))
A(M("c01e-r3-diagonal-half", ["C01", "C02"], C, "return entry.index_ - position, entry.pair + position", "return entry.index_ - position", "stems-run-fact", **B13))
A(M("c01e-r3-regions-last", ["C01", "C02"], C, "            outermost = stem_entries[0]\n", "            outermost = stem_entries[-1]\n", "region-triple", **B13))
A(M("c01e-r3-source", "C01", C, "enumerate(self.paired(only5to3=True)), key=diagonal", "enumerate(self.paired()), key=diagonal", "stems-source", **B13))
A(M("c01e-r3-diagonal-silent", ["C01", "C02", "C07", "C16"], C, "return entry.index_ - position, entry.pair + position", "return position - entry.index_, position + entry.pair", kind="silent", **B13))
B164 = dict(base="C16-r4")  # greedy colouring with `placed` / `taken` / while-search, product merged into a list
A(M("c16e-r4-placed", ["C16", "C01"], C, "                    orders[region] = order\n                    placed.append(region)\n", "                    orders[region] = order\n", "enumeration-fact", **B164))
A(M("c16e-r4-adjacent-neg", ["C16", "C01"], C, "for other in placed if other in graph[region]", "for other in placed if other not in graph[region]", "enumeration-fact", **B164))
A(M("c16e-r4-while-from-1", "C16", C, "                    order = 0\n                    while order in taken:", "                    order = 1\n                    while order in taken:", "enumeration-fact", **B164))
A(M("c16e-r4-chain-first", "C16", C, "for region, order in itertools.chain.from_iterable(assignment):", "for region, order in assignment[0]:", "enumeration-fact", **B164))
A(M("c16e-r4-count-silent", ["C16", "C01"], C, "                    order = 0\n                    while order in taken:\n                        order += 1\n", "                    order = next(k for k in itertools.count() if k not in taken)\n", kind="silent", **B164))
B163 = dict(base="C16-r3")  # __conflicted / __conflict_graph(enumerate pairs) / __connected_components(visited set, next())
A(M("c16e-r3-pop-always", ["C16", "C01"], C, "                if next_vertex is None:\n                    stack.pop()\n                    continue\n", "                stack.pop()\n                if next_vertex is None:\n                    continue\n", "enumeration-fact", **B163))
A(M("c16e-r3-no-mark", "C16", C, "                visited.add(next_vertex)\n                stack.append(next_vertex)\n", "                stack.append(next_vertex)\n", "enumeration-fact", **B163))
A(M("c16e-r3-keys-silent", ["C16", "C01"], C, "for vertex in list(graph.keys()):", "for vertex in list(graph):", kind="silent", **B163))
B23 = dict(base="C02-r3")  # model built by one dict comprehension, weight() helper, itertools.product constraints
A(M("c02e-r3-weight-flat", "C02", C, "return length if order == 0 else -length * order", "return length if order == 0 else -length", "milp-objective-coeff", **B23))
A(M("c02e-r3-weight-double", "C02", C, "return length if order == 0 else -length * order", "return 2 * length if order == 0 else -length * order", "milp-objective-coeff", **B23))
A(M("c02e-r3-bound", "C02", C, "max_order = max(map(len, graph.values())) + 1", "max_order = max(map(len, graph.values()))", "milp-bound", **B23))
A(M("c02e-r3-one-level-le", "C02", C, "                pulp.lpSum(var_by_region_order[(i, order)] for order in range(max_order))\n                == 1", "                pulp.lpSum(var_by_region_order[(i, order)] for order in range(max_order))\n                <= 1", "milp-one-level", **B23))
A(M("c02e-r3-product-levels", "C02", C, "itertools.product(neighbours, range(max_order))", "itertools.product(neighbours, range(1, max_order))", "milp-adjacency", **B23))
A(M("c02e-r3-continuous", "C02", C, 'pulp.LpVariable(f"x_{i}_{order}", 0, 1, pulp.LpInteger)', 'pulp.LpVariable(f"x_{i}_{order}", 0, 1)', "milp-binary", **B23))
A(M("c02e-r3-scale-silent", "C02", C, "return length if order == 0 else -length * order", "return 2 * length if order == 0 else -2 * length * order", kind="silent", **B23))
A(M("c02e-r3-once-silent", "C02", C, "            for j, order in itertools.product(neighbours, range(max_order)):\n", "            for j, order in itertools.product(neighbours, range(max_order)):\n                if j < i:\n                    continue\n", kind="silent", **B23))
B133 = dict(base="C13-r3")  # guard-clause decode `_, i, order = name.split('_')`, product constraints, conditional-expression objective
A(M("c13e-r3-decode-swap", "C02", C, '_, i, order = variable.getName().split("_")', '_, order, i = variable.getName().split("_")', "milp-readback", **B133))
A(M("c13e-r3-decode-digit", "C02", C, "            orders[int(i)] = int(order)\n", "            orders[int(i)] = int(order[-1])\n", "milp-readback", **B133))
A(M("c13e-r3-continue-flip", ["C02", "C13"], C, "            if variable.varValue != 1:\n                continue\n", "            if variable.varValue == 1:\n                continue\n", ["milp-readback", "returns-dotbracket"], **B133))
B134 = dict(base="C13-r4")  # dot_bracket with a conditional expression + guard clause, fill with `for offset`, FCFS over enumerate(regions[:i])
A(M("c13e-r4-none-guard", "C13", C, "        if solver is None:\n            return self.convert_to_dot_bracket(None)\n        solver.msg = False\n", "        solver.msg = False\n", "solver-none-guard", **B134))
A(M("c13e-r4-fcfs-slice", ["C13", "C01"], C, "for j, (m, n, _) in enumerate(regions[:i])", "for j, (m, n, _) in enumerate(regions[: i - 1])", "fcfs-first-fit", **B134))
A(M("c13e-r4-fill-offset", ["C01", "C13"], C, "structure[k - offset - 1] = closing", "structure[k - offset] = closing", "fill-stores", **B134))
A(M("c13e-r4-skip0-silent", ["C13", "C01"], C, "            if i == 0:\n                continue\n\n", "", kind="silent", **B134))
B124 = dict(base="C12-r4")  # enumerate(sequence, 1), guard-clause __post_init__, two-branch paired(), stems[-1] as the open run, comprehension to_unpair
A(M("c12e-r4-one-end", "C12", C, "            for strand in (stem.strand5p, stem.strand3p)\n", "            for strand in (stem.strand5p,)\n", "isolated-select", **B124))
A(M("c12e-r4-upper", ["C12", "C01"], C, "Entry(number, letter, 0)", "Entry(number, letter.upper(), 0)", ["derived-sequence", "derived-structure", "from-db-fact"], **B124))
A(M("c12e-r4-enumerate-0", ["C01", "C12"], C, "enumerate(dot_bracket.sequence, 1)", "enumerate(dot_bracket.sequence)", ["from-db-fact", "derived-structure"], **B124))
A(M("c12e-r4-pairs-guard", "C01", C, "            if j == 0:\n                continue\n            self.pairs[i] = j", "            if j != 0:\n                continue\n            self.pairs[i] = j", "bpseq-pairs-fact", **B124))
A(M("c12e-r4-pairs-swapped", "C01", C, "            self.pairs[i] = j\n            self.pairs[j] = i\n", "            self.pairs[j] = j\n            self.pairs[i] = i\n", "bpseq-pairs-fact", **B124))
A(M("c12e-r4-pairs-once-silent", "C01", C, "            self.pairs[i] = j\n            self.pairs[j] = i\n", "            self.pairs[i] = j\n", kind="silent", **B124))  # both ends of a pair are entries: each end writes its own key
A(M("c12e-r4-run-extend", ["C01", "C07"], C, "                if i == k + 1 and j == l - 1:\n                    stems[-1].append(entry)", "                if i == k + 1 or j == l - 1:\n                    stems[-1].append(entry)", "stems-run-fact", **B124))
A(M("c12e-r4-len-silent", ["C12", "C01", "C07"], C, "            if stems:\n", "            if len(stems) > 0:\n", kind="silent", **B124))
# call histories: a conflict graph shared through a cached property is fine as long as nobody writes to it (C01-g / C12-e write)
MUTANTS.append(dict(id="c01e-shared-graph-silent", props=["C01", "C02", "C12", "C16"], patch=_os.path.join(_P, "shared-graph-readonly.diff"), kind="silent", rule=None))
# without_isolated: the derived object must be consistent with itself (clean tree)
A(M("c12e-stale-pairs", "C12", C, "        entries = [\n            Entry(entry.index_, entry.sequence, entry.pair) for entry in self.entries\n        ]\n        for i in to_unpair:\n            entries[i].pair = 0\n\n        return BpSeq(entries)", "        result = BpSeq([Entry(entry.index_, entry.sequence, entry.pair) for entry in self.entries])\n        for i in to_unpair:\n            result.entries[i].pair = 0\n        return result", "derived-consistent"))
A(M("c12e-adjacent-pair", "C12", C, "            if stem.strand5p.first == stem.strand5p.last:\n                to_unpair", "            if stem.strand5p.first == stem.strand5p.last and stem.strand3p.first - stem.strand5p.first > 1:\n                to_unpair", "isolated-select"))
# a size cap is outside what the evaluated classes reach: the fact rule must not claim it, the pinned rule decides
A(M("c16e-size-cap", "C16", C, "            for permutation in itertools.permutations(component):\n", "            for permutation in (itertools.permutations(component) if len(component) < 7 else [tuple(component)]):\n", ["greedy-perms", "enumeration-fact"]))
# a consumer outside common.py edits a cached answer in place (C16-g of round 3 is the stored instance; these are the twins)
A(M("c16e-consumer-sorts-list", ["C16", "C12"], "tertiary.py", "        for dot_bracket in self.bpseq.all_dot_brackets:\n", "        alternatives = self.bpseq.all_dot_brackets\n        alternatives.sort(key=lambda db: db.structure)\n        for dot_bracket in alternatives:\n", ["list-handed-out", "foreign-write"]))
A(M("c16e-consumer-copy-silent", ["C16", "C12", "C14"], "tertiary.py", "        for dot_bracket in self.bpseq.all_dot_brackets:\n", "        alternatives = list(self.bpseq.all_dot_brackets)\n        alternatives.reverse()\n        alternatives.reverse()\n        for dot_bracket in alternatives:\n", kind="silent"))
