"""Mutation catalogue: one-obligation breakages ("fire") and behaviour-preserving twins ("silent").

Each entry: id, props (checks to run), file (under src/rnapolis), old/new text (exactly `count` occurrences,
default 1) or edits=[(old,new),...], kind fire|silent, rule (rule id that must report it; None = any).
"""

def M(id, props, file, old, new, rule=None, kind="fire", count=1, **kw):
    return dict(id=id, props=props if isinstance(props, list) else [props], file=file, old=old, new=new, rule=rule, kind=kind, count=count, **kw)


MUTANTS = []
A = MUTANTS.append

# ---------------------------------------------------------------- C01 / C13 / C16 / C02 (common.py)
C = "common.py"
A(M("c01-brackets-swap", "C01", C, '["()", "[]", "{}", "<>"]', '["()", "[]", "<>", "{}"]', "alphabet-agree"))
A(M("c01-closing-upper", "C01", C, 'closing = ")]}>" + string.ascii_lowercase', 'closing = ")]}>" + string.ascii_uppercase', "alphabet-agree"))
A(M("c01-conflict-convert", "C01", C, "            if (k < m < l < n) or (m < k < n < l):\n                graph[i].add(j)\n                graph[j].add(i)\n\n        # return all", "            if (k < m < n < l) or (m < k < n < l):\n                graph[i].add(j)\n                graph[j].add(i)\n\n        # return all", "conflict-predicate"))
A(M("c01-conflict-fcfs-drop", "C01", C, "conflicted = (k < m < l < n) or (m < k < n < l)", "conflicted = k < m < l < n", "conflict-predicate"))
A(M("c01-conflict-all", "C01", C, "            if (k < m < l < n) or (m < k < n < l):\n                graph[i].add(j)\n                graph[j].add(i)\n\n        # early exit", "            if (k < m < l < n) or (m < k < l < n):\n                graph[i].add(j)\n                graph[j].add(i)\n\n        # early exit", "conflict-predicate"))
A(M("c01-conflict-le-silent", ["C01", "C02", "C16"], C, "conflicted = (k < m < l < n) or (m < k < n < l)", "conflicted = (k <= m <= l <= n) or (m <= k <= n <= l)", kind="silent"))
A(M("c01-fill-offby1", "C01", C, "structure[j - 1] = bracket[0]", "structure[j] = bracket[0]", "fill-stores"))
A(M("c01-fill-trips", "C01", C, "while n > 0:", "while n > 1:", "fill-trips"))
A(M("c01-fill-dir", "C01", C, "                k -= 1\n", "                k += 1\n", "fill-stores"))
A(M("c01-fill-bracket-swap", "C01", C, "structure[k - 1] = bracket[1]", "structure[k - 1] = bracket[0]", "fill-stores"))
A(M("c01-fill-for-silent", ["C01", "C13"], C, "            while n > 0:\n                structure[j - 1] = bracket[0]\n                structure[k - 1] = bracket[1]\n                j += 1\n                k -= 1\n                n -= 1\n", "            for t in range(n):\n                structure[j - 1 + t] = bracket[0]\n                structure[k - 1 - t] = bracket[1]\n", kind="silent"))
A(M("c01-run-cond", "C01", C, "if i == k + 1 and j == l - 1:", "if i == k + 1 and j == l + 1:", "stems-run"))
A(M("c01-run-cond-silent", "C01", C, "if i == k + 1 and j == l - 1:", "if k == i - 1 and l - j == 1:", kind="silent"))
A(M("c01-region-last", "C01", C, "(stem_entries[0].index_, stem_entries[0].pair, len(stem_entries))\n            for stem_entries in self.__stems_entries\n        ]\n\n    @cached_property\n    def dot_bracket", "(stem_entries[0].index_, stem_entries[-1].pair, len(stem_entries))\n            for stem_entries in self.__stems_entries\n        ]\n\n    @cached_property\n    def dot_bracket", "region-triple"))
A(M("c01-pop0", "C01", C, "begins[begin].pop()", "begins[begin].pop(0)", "decoder-lifo"))
A(M("c01-fromdb-shift", "C01", C, "entries[j].pair = i + 1", "entries[j].pair = i", "from-db-pairs"))
A(M("c01-fromdb-drop", "C01", C, "            entries[j].pair = i + 1\n", "", "from-db-pairs"))
A(M("c01-fcfs-range", ["C01", "C13"], C, "            for j in range(i):\n                m, n, _ = regions[j]", "            for j in range(i - 1):\n                m, n, _ = regions[j]", "fcfs-earlier"))
A(M("c01-fcfs-avail-hoist", "C01", C, "        for i in range(1, len(regions)):\n            k, l, _ = regions[i]\n            available = [True for _ in range(len(\"([{<\" + string.ascii_uppercase))]\n", "        available = [True for _ in range(len(\"([{<\" + string.ascii_uppercase))]\n        for i in range(1, len(regions)):\n            k, l, _ = regions[i]\n", "fcfs-available-reset"))
A(M("c01-paired-filter", "C01", C, "lambda entry: entry.index_ < entry.pair", "lambda entry: entry.index_ > entry.pair", "stems-filter"))
A(M("c01-rename-silent", ["C01", "C02", "C13", "C16"], C, "            ri, rj = regions[i], regions[j]\n            k, l, _ = ri\n            m, n, _ = rj\n\n            # is pseudoknot?\n            if (k < m < l < n) or (m < k < n < l):\n                graph[i].add(j)\n                graph[j].add(i)\n\n        # return all", "            a0, a1, _ = regions[i]\n            b0, b1, _ = regions[j]\n\n            if (b0 < a0 < b1 < a1) or (a0 < b0 < a1 < b1):\n                graph[j].add(i)\n                graph[i].add(j)\n\n        # return all", kind="silent"))

# ---------------------------------------------------------------- C13
A(M("c13-call-property", "C13", C, "        if solver is None:\n            return self.fcfs\n", "        if solver is None:\n            return self.fcfs()\n", "attr-kind"))
A(M("c13-narrow-handler", "C13", C, "except pulp.PulpSolverError:", "except KeyError:", "solve-handled"))
A(M("c13-drop-status", "C13", C, "        if problem.status != pulp.LpStatusOptimal:\n            logging.warning(\"POA: problem is infeasible, fallback to FCFS\")\n            return self.fcfs\n", "", "readback-after-optimal"))
A(M("c13-status-infeasible-only", "C13", C, "if problem.status != pulp.LpStatusOptimal:", "if problem.status == pulp.LpStatusInfeasible:", ["readback-after-optimal", "status-branch"]))
A(M("c13-fallback-flat", "C13", C, "            logging.warning(\"POA: problem is infeasible, fallback to FCFS\")\n            return self.fcfs\n", "            logging.warning(\"POA: problem is infeasible, fallback to FCFS\")\n            return self.__make_dot_bracket(regions, [0 for _ in range(len(regions))])\n", "fallback-is-fcfs"))
A(M("c13-msg-before-none", "C13", C, "        if solver is not None:\n            solver.msg = False\n", "        solver.msg = False\n", "solver-none-guard"))
A(M("c13-handler-reraise", "C13", C, "                \"POA: failed to solve problem using MILP approach, fallback to FCFS\"\n            )\n            return self.fcfs\n", "                \"POA: failed to solve problem using MILP approach, fallback to FCFS\"\n            )\n            raise\n", "handler-no-raise"))

# ---------------------------------------------------------------- C02
A(M("c02-drop-order", "C02", C, "terms.append(-1 * var * length * order)", "terms.append(-1 * var * length)", "milp-objective-coeff"))
A(M("c02-sign", "C02", C, "terms.append(-1 * var * length * order)", "terms.append(1 * var * length * order)", "milp-objective-coeff"))
A(M("c02-level0-test", "C02", C, "                if order == 0:\n                    terms.append(var * length)", "                if order <= 1:\n                    terms.append(var * length)", "milp-objective-coeff"))
A(M("c02-bound", "C02", C, "max_order = max(map(len, graph.values())) + 1", "max_order = max(map(len, graph.values()))", "milp-bound"))
A(M("c02-continuous", "C02", C, "pulp.LpVariable(f\"x_{i}_{j}\", 0, 1, pulp.LpInteger)", "pulp.LpVariable(f\"x_{i}_{j}\", 0, 1, pulp.LpContinuous)", "milp-binary"))
A(M("c02-one-level-le", "C02", C, "problem += pulp.lpSum(region_vars) == 1", "problem += pulp.lpSum(region_vars) <= 1", "milp-one-level"))
A(M("c02-adj-2", "C02", C, "                        <= 1\n", "                        <= 2\n", "milp-adjacency"))
A(M("c02-adj-levels", "C02", C, "                for order in range(max_order):\n                    problem += (", "                for order in range(1, max_order):\n                    problem += (", "milp-adjacency"))
A(M("c02-minimize", "C02", C, "pulp.LpMaximize", "pulp.LpMinimize", "milp-sense"))
A(M("c02-name-swap", "C02", C, "pulp.LpVariable(f\"x_{i}_{j}\"", "pulp.LpVariable(f\"x_{j}_{i}\"", ["milp-name-format", "milp-readback"]))
A(M("c02-readback-swap", "C02", C, "                orders[i] = order\n\n        return self.__make_dot_bracket(regions, orders)\n\n    def __make", "                orders[order] = i\n\n        return self.__make_dot_bracket(regions, orders)\n\n    def __make", "milp-readback"))
A(M("c02-length-first", "C02", C, "length = region_by_var[var][2]", "length = region_by_var[var][0]", "milp-objective-length"))
A(M("c02-graph-oneway", ["C02", "C16"], C, "                graph[i].add(j)\n                graph[j].add(i)\n\n        # return all", "                graph[i].add(j)\n\n        # return all", "conflict-graph"))
A(M("c02-pairs-short", "C02", C, "for i, j in itertools.combinations(range(len(regions)), 2):\n            ri, rj = regions[i], regions[j]\n            k, l, _ = ri\n            m, n, _ = rj\n\n            # is pseudoknot?\n            if (k < m < l < n) or (m < k < n < l):\n                graph[i].add(j)\n                graph[j].add(i)\n\n        # return all", "for i, j in itertools.combinations(range(len(regions) - 1), 2):\n            ri, rj = regions[i], regions[j]\n            k, l, _ = ri\n            m, n, _ = rj\n\n            # is pseudoknot?\n            if (k < m < l < n) or (m < k < n < l):\n                graph[i].add(j)\n                graph[j].add(i)\n\n        # return all", "conflict-pairs"))
A(M("c02-bound-silent", "C02", C, "max_order = max(map(len, graph.values())) + 1", "max_order = max(map(len, graph.values())) + 2", kind="silent"))
A(M("c02-binary-silent", "C02", C, "pulp.LpVariable(f\"x_{i}_{j}\", 0, 1, pulp.LpInteger)", "pulp.LpVariable(f\"x_{i}_{j}\", cat=pulp.LpBinary)", kind="silent"))

# ---------------------------------------------------------------- C16
A(M("c16-greedy-range", ["C16", "C01"], C, "                    for j in range(i):\n                        if permutation[j] in graph[permutation[i]]:", "                    for j in range(i - 1):\n                        if permutation[j] in graph[permutation[i]]:", "greedy-earlier"))
A(M("c16-available-small", "C16", C, "available = [True for _ in range(len(component))]", "available = [True for _ in range(len(component) - 1)]", "greedy-available"))
A(M("c16-perm-k", "C16", C, "itertools.permutations(component)", "itertools.permutations(component, 2)", "greedy-perms"))
A(M("c16-perm-identity", "C16", C, "itertools.permutations(component)", "[tuple(component)]", "greedy-perms"))
A(M("c16-zip", "C16", C, "itertools.product(*unique)", "zip(*unique)", "product"))
A(M("c16-pop-early", ["C16", "C01"], C, "                    if next_vertex is not None:\n                        visited[next_vertex] = True\n                        stack.append(next_vertex)\n                        components[-1].append(next_vertex)\n                    else:\n                        stack.pop()\n", "                    stack.pop()\n                    if next_vertex is not None:\n                        visited[next_vertex] = True\n                        stack.append(next_vertex)\n                        components[-1].append(next_vertex)\n", "components-walk"))
A(M("c16-default-missing", "C16", C, "orders = {region: 0 for region in range(len(regions))}", "orders = {}", "product-default"))
A(M("c16-early-exit", "C16", C, "            return [self.fcfs]\n", "            return []\n", "early-exit"))
A(M("c16-mark-wrong", "C16", C, "available[orders[permutation[j]]] = False", "available[orders[permutation[i]]] = False", "greedy-mark"))
A(M("c16-bfs-silent", ["C16", "C01"], C, "                while stack:\n                    current = stack[-1]\n                    next_vertex = None\n\n                    for neighbor in graph[current]:\n                        if not visited[neighbor]:\n                            next_vertex = neighbor\n                            break\n\n                    if next_vertex is not None:\n                        visited[next_vertex] = True\n                        stack.append(next_vertex)\n                        components[-1].append(next_vertex)\n                    else:\n                        stack.pop()\n", "                while stack:\n                    current = stack.pop()\n                    for neighbor in graph[current]:\n                        if not visited[neighbor]:\n                            visited[neighbor] = True\n                            stack.append(neighbor)\n                            components[-1].append(neighbor)\n", kind="silent"))

# ---------------------------------------------------------------- C12
A(M("c12-shallow-copy", "C12", C, "        entries = [\n            Entry(entry.index_, entry.sequence, entry.pair) for entry in self.entries\n        ]\n", "        entries = self.entries.copy()\n", "receiver-write"))
A(M("c12-list-copy", "C12", C, "        entries = [\n            Entry(entry.index_, entry.sequence, entry.pair) for entry in self.entries\n        ]\n", "        entries = list(self.entries)\n", "receiver-write"))
A(M("c12-pairs-clear", "C12", C, "    def without_pseudoknots(self):\n        return BpSeq.from_dotbracket", "    def without_pseudoknots(self):\n        self.pairs.clear()\n        return BpSeq.from_dotbracket", "receiver-write"))
A(M("c12-sort-entries", "C12", C, "        stems = []\n        entries: List[Entry] = []\n", "        stems = []\n        self.entries.sort()\n        entries: List[Entry] = []\n", "receiver-write"))
A(M("c12-regex-class", "C12", C, 'r"[\\[\\]\\{\\}\\<\\>A-Za-z]"', 'r"[\\[\\]\\{\\}A-Za-z]"', "pk-class"))
A(M("c12-isolated-3p", "C12", C, "to_unpair.append(stem.strand3p.first - 1)", "to_unpair.append(stem.strand3p.first)", "isolated-select"))
A(M("c12-isolated-guard", "C12", C, "            if stem.strand5p.first == stem.strand5p.last:\n                to_unpair", "            if stem.strand5p.first <= stem.strand5p.last:\n                to_unpair", "isolated-select"))
A(M("c12-stem-mutate-via-elements", "C12", C, "        stems, _, _, _ = self.elements\n        to_unpair = []\n", "        stems, _, _, _ = self.elements\n        stems.reverse()\n        to_unpair = []\n", "receiver-write"))
A(M("c12-deepcopy-silent", "C12", C, "import itertools\n", "import copy\nimport itertools\n", kind="silent", edits=[("import itertools\n", "import copy\nimport itertools\n"), ("        entries = [\n            Entry(entry.index_, entry.sequence, entry.pair) for entry in self.entries\n        ]\n", "        entries = copy.deepcopy(self.entries)\n")]))

# ---------------------------------------------------------------- C14
T3 = "tertiary.py"
AN = "annotator.py"
A(M("c14-set-solutions", "C14", C, "        solutions = {}\n", "        solutions = set()\n", "order-taint", edits=[("        solutions = {}\n", "        solutions = set()\n"), ("            solutions[self.__make_dot_bracket(regions, orders)] = None\n", "            solutions.add(self.__make_dot_bracket(regions, orders))\n")]))
A(M("c14-iter-set-bp", "C14", T3, "        for base_pair in self.base_pairs2d:\n", "        for base_pair in set(self.base_pairs2d):\n", "order-taint"))
A(M("c14-key-not-total", "C14", T3, "", "", "order-taint", edits=[("                    return 0, pair.nt1, pair.nt2\n                else:\n                    return 1, pair.nt1, pair.nt2\n", "                    return 0\n                else:\n                    return 1\n")], count=2))
A(M("c14-labels-set", "C14", AN, "    counter = Counter(labels)\n", "    counter = Counter(labels)\n    labels = list(set(labels))\n", "order-taint"))
A(M("c14-unsorted-links", "C14", "molecule_filter.py", 'for link in sorted(links["entity"])', 'for link in links["entity"]', "order-taint"))
A(M("c14-random", "C14", AN, "import math\n", "import math\nimport random\n", "nondeterministic-value", edits=[("import math\n", "import math\nimport random\n"), ("    base_pairs = []\n    for residue_i, residue_j, lw in sorted(base_base_pairs):", "    random.shuffle(base_base_pairs)\n    base_pairs = []\n    for residue_i, residue_j, lw in sorted(base_base_pairs):")]))
A(M("c14-sorted-silent", "C14", T3, "        for base_pair in self.base_pairs2d:\n", "        for base_pair in sorted(set(self.base_pairs2d)):\n", kind="silent"))

A(M("c02-single-expr-silent", "C02", C, "                if order == 0:\n                    terms.append(var * length)\n                else:\n                    terms.append(-1 * var * length * order)\n", "                terms.append(var * length * (1 if order == 0 else -order))\n", kind="silent"))
A(M("c02-single-expr-bad", "C02", C, "                if order == 0:\n                    terms.append(var * length)\n                else:\n                    terms.append(-1 * var * length * order)\n", "                terms.append(var * length * (1 - order))\n", "milp-objective-coeff"))

# ---------------------------------------------------------------- C03
TT = "tertiary.py"
A(M("c03-radius", "C03", AN, "HYDROGEN_BOND_MAX_DISTANCE = 4.0", "HYDROGEN_BOND_MAX_DISTANCE = 3.6", "contact-radius"))
A(M("c03-window", "C03", AN, "HYDROGEN_BOND_ANGLE_RANGE = (50.0, 130.0)", "HYDROGEN_BOND_ANGLE_RANGE = (40.0, 140.0)", "angle-window"))
A(M("c03-min-contacts-3", "C03", AN, "if hydrogen_bond_count < 2:", "if hydrogen_bond_count < 3:", "select-min-contacts"))
A(M("c03-min-contacts-1", "C03", AN, "if hydrogen_bond_count < 2:", "if hydrogen_bond_count < 1:", "select-min-contacts"))
A(M("c03-cis-60", "C03", AN, "    return \"c\" if -90.0 < torsion < 90.0 else \"t\"", "    return \"c\" if -60.0 < torsion < 90.0 else \"t\"", "cis-trans"))
A(M("c03-cis-nodegrees", "C03", AN, "torsion = math.degrees(torsion_angle(c1p_i, n9n1_i, n9n1_j, c1p_j))", "torsion = torsion_angle(c1p_i, n9n1_i, n9n1_j, c1p_j)", "cis-trans"))
A(M("c03-edge-entry", "C03", TT, '        "N1": "W",\n        "C2": "WS",\n        "N3": "S",\n        "N6": "WH",', '        "N1": "H",\n        "C2": "WS",\n        "N3": "S",\n        "N6": "WH",', "table-pinned"))
A(M("c03-drop-occupied-add", "C03", AN, "        occupied.add((residue_j, edge_j))\n", "", "edge-exclusive"))
A(M("c03-occupied-wrong-key", "C03", AN, "        if (residue_j, edge_j) in occupied:", "        if (residue_j, edge_i) in occupied:", "edge-exclusive"))
A(M("c03-extra-filter", "C03", AN, "        residue_i, residue_j, cis_trans, edge_i, edge_j = interaction\n", "        residue_i, residue_j, cis_trans, edge_i, edge_j = interaction\n        if cis_trans == \"t\" and edge_i == \"S\" and edge_j == \"S\":\n            continue\n", "select-extra-filter"))
A(M("c03-angle2-copy", "C03", AN, "            angle_between_vectors(residue_j.base_normal_vector, vector)", "            angle_between_vectors(residue_i.base_normal_vector, vector)", "angle-operands"))
A(M("c03-orient-else", "C03", AN, "labels.append((residue_j, residue_i, cis_trans, edge_j, edge_i))", "labels.append((residue_j, residue_i, cis_trans, edge_i, edge_j))", "label-orientation"))
A(M("c03-drop-same-type", "C03", AN, "        if type_i == type_j:\n            continue\n", "", "contact-skips"))
A(M("c03-angle-only-one", "C03", AN, "            HYDROGEN_BOND_ANGLE_RANGE[0] < angle1 < HYDROGEN_BOND_ANGLE_RANGE[1]\n            and HYDROGEN_BOND_ANGLE_RANGE[0] < angle2 < HYDROGEN_BOND_ANGLE_RANGE[1]\n", "            HYDROGEN_BOND_ANGLE_RANGE[0] < angle1 < HYDROGEN_BOND_ANGLE_RANGE[1]\n            and HYDROGEN_BOND_ANGLE_RANGE[0] < angle2\n", "angle-window"))
A(M("c03-normal-atoms", "C03", TT, '            n7 = self.find_atom("N7")\n            n3 = self.find_atom("N3")', '            n7 = self.find_atom("N7")\n            n3 = self.find_atom("N1")', "base-normal"))
A(M("c03-inline-const-silent", "C03", AN, "kdtree.query_pairs(HYDROGEN_BOND_MAX_DISTANCE)", "kdtree.query_pairs(4.0)", kind="silent"))
A(M("c03-window-split-silent", "C03", AN, "        if (\n            HYDROGEN_BOND_ANGLE_RANGE[0] < angle1 < HYDROGEN_BOND_ANGLE_RANGE[1]\n            and HYDROGEN_BOND_ANGLE_RANGE[0] < angle2 < HYDROGEN_BOND_ANGLE_RANGE[1]\n        ):", "        lo, hi = HYDROGEN_BOND_ANGLE_RANGE\n        if (lo <= angle1 <= hi) and not (angle2 < lo or angle2 > hi):", kind="silent"))

# ---------------------------------------------------------------- C04
A(M("c04-radius", "C04", AN, "STACKING_MAX_DISTANCE = 6.0", "STACKING_MAX_DISTANCE = 5.5", "stack-radius"))
A(M("c04-normals-35", "C04", AN, "STACKING_MAX_ANGLE_BETWEEN_NORMALS = 35.0", "STACKING_MAX_ANGLE_BETWEEN_NORMALS = 30.0", "stack-normals"))
A(M("c04-offset-45", "C04", AN, "STACKING_MAX_ANGLE_BETWEEN_VECTOR_AND_NORMAL = 45.0", "STACKING_MAX_ANGLE_BETWEEN_VECTOR_AND_NORMAL = 40.0", "stack-offset"))
A(M("c04-min-max-1", "C04", AN, "        angle = min(\n            [\n                angle_between_vectors(normal_i, normal_j),", "        angle = max(\n            [\n                angle_between_vectors(normal_i, normal_j),", "stack-normals"))
A(M("c04-min-max-2", "C04", AN, "        angle = min(\n            angle_between_vectors(vector, normal_i),", "        angle = max(\n            angle_between_vectors(vector, normal_i),", "stack-offset"))
A(M("c04-no-degrees", "C04", AN, "if math.degrees(angle) > STACKING_MAX_ANGLE_BETWEEN_NORMALS:", "if angle > STACKING_MAX_ANGLE_BETWEEN_NORMALS:", "stack-normals"))
A(M("c04-dot-sign", "C04", AN, "numpy.dot(normal_i, normal_j) > 0.0", "numpy.dot(normal_i, normal_j) < 0.0", "stack-direction"))
A(M("c04-label-group", "C04", AN, '                pairs.append((residue_i, residue_j, "inward"))', '                pairs.append((residue_i, residue_j, "downward"))', "stack-labels"))
A(M("c04-else-order", "C04", AN, '                pairs.append((residue_j, residue_i, "outward"))', '                pairs.append((residue_i, residue_j, "outward"))', "stack-labels"))
A(M("c04-unsorted", "C04", AN, "for residue_i, residue_j, topology in sorted(pairs):", "for residue_i, residue_j, topology in pairs:", "stack-emission"))
A(M("c04-centroid-den", "C04", AN, "sum(ys) / len(ys)", "sum(ys) / len(base_atoms)", "centroid-mean"))
A(M("c04-vector-axis", "C04", AN, "for k in (0, 1, 2)])", "for k in (0, 1)])", "stack-offset-vector"))
A(M("c04-normal-j-twice", "C04", AN, "            angle_between_vectors(vector, normal_i),\n            angle_between_vectors(vector, normal_j),", "            angle_between_vectors(vector, normal_j),\n            angle_between_vectors(vector, normal_j),", ["stack-offset", "stack-extra-filter"]))
A(M("c04-ifexp-silent", "C04", AN, '        if residue_i < residue_j:\n            if same_direction:\n                pairs.append((residue_i, residue_j, "upward"))\n            else:\n                pairs.append((residue_i, residue_j, "inward"))\n        else:\n            if same_direction:\n                pairs.append((residue_j, residue_i, "downward"))\n            else:\n                pairs.append((residue_j, residue_i, "outward"))\n', '        if residue_i < residue_j:\n            pairs.append((residue_i, residue_j, "upward" if same_direction else "inward"))\n        else:\n            pairs.append((residue_j, residue_i, "downward" if same_direction else "outward"))\n', kind="silent"))

# ---------------------------------------------------------------- C11
A(M("c11-unsorted-bp", "C11", AN, "for residue_i, residue_j, lw in sorted(base_base_pairs):", "for residue_i, residue_j, lw in base_base_pairs:", "sorted-emission"))
A(M("c11-unsorted-bph", "C11", AN, "bph_map = merge_and_clean_bph_br(sorted(base_phosphate_pairs))", "bph_map = merge_and_clean_bph_br(base_phosphate_pairs)", "sorted-emission"))
A(M("c11-drop-same-auth", ["C11", "C03"], AN, "        if (\n            atom_i.auth is not None\n            and atom_i.auth is not None\n            and atom_i.auth == atom_j.auth\n        ):\n            continue\n", "", "contact-skips"))
A(M("c11-saenger-asym", "C11", C, '            ("AG", "tWS"): "X",', '            ("AG", "tWS"): "XI",', "saenger-symmetric"))
A(M("c11-saenger-value", "C11", C, '            ("GG", "tSS"): "IV",', '            ("GG", "tSS"): "IIII",', "saenger-values"))
A(M("c11-truncation", "C11", AN, "        if len(bphs_brs) > 1:\n            bph_br_map[key] = OrderedSet([bphs_brs[0]])\n", "        pass\n", ["bph-one-class", "bph-merge"]))
A(M("c11-merge-rule", "C11", AN, "        if 7 in bphs_brs and 9 in bphs_brs:\n            bphs_brs.remove(7)\n            bphs_brs.remove(9)\n            bphs_brs.add(8)\n", "        if 7 in bphs_brs and 9 in bphs_brs:\n            bphs_brs.remove(7)\n            bphs_brs.add(8)\n", "bph-merge"))
A(M("c11-class-branch", "C11", AN, '        if donor.name == "C5":\n            return 9\n        if donor.name == "C6":\n            return 0\n\n    if donor_residue.one_letter_name == "U":', '        if donor.name == "C6":\n            return 0\n\n    if donor_residue.one_letter_name == "U":', "bph-class-table"))
A(M("c11-class-value", "C11", AN, '        if donor.name == "N1":\n            return 5\n', '        if donor.name == "N1":\n            return 4\n', "bph-class-table"))
A(M("c11-roles-swapped", "C11", AN, "            if type_i == \"donor\":\n                donor_residue, acceptor_residue = residue_i, residue_j\n                donor_atom, acceptor_atom = atom_i, atom_j\n            else:\n                donor_residue, acceptor_residue = residue_j, residue_i\n                donor_atom, acceptor_atom = atom_j, atom_i\n            bph =", "            if type_i == \"donor\":\n                donor_residue, acceptor_residue = residue_j, residue_i\n                donor_atom, acceptor_atom = atom_i, atom_j\n            else:\n                donor_residue, acceptor_residue = residue_j, residue_i\n                donor_atom, acceptor_atom = atom_j, atom_i\n            bph =", "bph-roles"))
A(M("c11-fields-swapped", "C11", AN, "return BaseInteractions(base_pairs, stackings, base_ribose, base_phosphate, [])", "return BaseInteractions(base_pairs, stackings, base_phosphate, base_ribose, [])", "result-order"))
A(M("c11-lw-reverse", "C11", C, 'return LeontisWesthof[f"{self.name[0]}{self.name[2]}{self.name[1]}"]', 'return LeontisWesthof[f"{self.name[0]}{self.name[1]}{self.name[2]}"]', "lw-reverse"))
A(M("c11-split-60", "C11", AN, "                return 1 if -90.0 < torsion < 90.0 else 3", "                return 1 if -60.0 < torsion < 60.0 else 3", "bph-split"))
A(M("c11-saenger-key-order", "C11", AN, 'key = (f"{residue_i.one_letter_name}{residue_j.one_letter_name}", lw.value)', 'key = (f"{residue_j.one_letter_name}{residue_i.one_letter_name}", lw.value)', "saenger-lookup"))

# ---------------------------------------------------------------- C05
A(M("c05-point-for-vector", "C05", AN, "        vector = atom_i.coordinates - atom_j.coordinates\n", "        vector = atom_i.coordinates\n", "invariance-typing"))
A(M("c05-z-filter", "C05", AN, "        # check for base-base contacts\n", "        if atom_i.z > 0:\n            continue\n        # check for base-base contacts\n", "invariance-typing"))
A(M("c05-sort-coordinates", "C05", AN, "    kdtree = KDTree(coordinates)\n\n    # find all hydrogen bonds", "    coordinates = sorted(coordinates)\n    kdtree = KDTree(coordinates)\n\n    # find all hydrogen bonds", "invariance-typing"))
A(M("c05-positional-atom", "C05", TT, '            n9 = self.find_atom("N9")\n            n7 = self.find_atom("N7")', '            n9 = self.atoms[0]\n            n7 = self.find_atom("N7")', "positional-atom"))
A(M("c05-number-arith", "C05", AN, "        if residue_i < residue_j:\n            for edge_i in edges_i:", "        if abs(residue_i.number - residue_j.number) > 10000:\n            continue\n        if residue_i < residue_j:\n            for edge_i in edges_i:", "identity-arithmetic"))
A(M("c05-gap-unguarded", "C05", TT, "                if self.find_gaps:\n                    if not previous.is_connected(residue):", "                if True:\n                    if not previous.is_connected(residue):", "identity-arithmetic"))
A(M("c05-centroid-abs", "C05", AN, "        vector = numpy.array([coordinates[i][k] - coordinates[j][k] for k in (0, 1, 2)])", "        vector = numpy.array([coordinates[i][k] for k in (0, 1, 2)])", "invariance-typing"))
A(M("c05-normal-unnormalised-silent", "C05", TT, "        return normal / numpy.linalg.norm(normal)", "        length = numpy.linalg.norm(normal)\n        return normal / length", kind="silent"))
A(M("c05-lt-label", "C05", TT, "        return (self.model, self.chain, self.number, self.icode or \" \") < (\n            other.model,\n            other.chain,\n            other.number,\n            other.icode or \" \",\n        )", "        return (self.model, self.chain, self.number) < (\n            other.model,\n            other.chain,\n            other.number,\n        )", "identity-order"))

# ---------------------------------------------------------------- C07
A(M("c07-window-open", "C07", C, "candidate = self.entries[stops[i - 1] : stops[i] + 1]", "candidate = self.entries[stops[i - 1] : stops[i]]", ["index-discipline", "elements-windows"]))
A(M("c07-stop-base", "C07", C, "stopset.add(stem.strand5p.last - 1)", "stopset.add(stem.strand5p.last)", ["index-discipline", "elements-stops"]))
A(M("c07-link-base", "C07", C, "if self.entries[i_last - 1].pair == j_first:", "if self.entries[i_last].pair == j_first:", ["index-discipline", "elements-links"]))
A(M("c07-strand-last", "C07", C, "last = first + len(entries) - 1", "last = first + len(entries)", ["index-discipline", "strand-span"]))
A(M("c07-strand-slice", "C07", C, "structure = dotbracket[first - 1 : last]", "structure = dotbracket[first : last]", ["index-discipline", "strand-structure"]))
A(M("c07-interior", "C07", C, "for entry in candidate[1:-1]]", "for entry in candidate[1:]]", "elements-windows"))
A(M("c07-tail5", "C07", C, "self.entries[: stops[0] + 1],", "self.entries[: stops[0]],", ["index-discipline", "elements-tail5"]))
A(M("c07-closure", "C07", C, "if self.entries[loop[0].first - 1].pair == loop[-1].last:", "if self.entries[loop[0].first].pair == loop[-1].last:", ["index-discipline", "elements-closure"]))
A(M("c07-hairpin-test", "C07", C, "if candidate[0].pair == candidate[-1].index_:", "if candidate[0].pair == candidate[-1].pair:", "elements-windows"))
A(M("c07-fcfs-structure", "C07", C, "                stem_entries, self.entries, self.dot_bracket.structure\n", "                stem_entries, self.entries, self.fcfs.structure\n", "elements-dotbracket"))
A(M("c07-loop-sorted", "C07", C, "loops.append(Loop(loop))", "loops.append(Loop(sorted(loop, key=lambda strand: strand.first)))", "elements-closure"))
A(M("c07-stem-coords", "C07", TT, "idx3p = stem.strand3p.last - i", "idx3p = stem.strand3p.first - i", "index-discipline"))
A(M("c07-range-strand", "C07", TT, "for index_ in range(strand.first, strand.last + 1):", "for index_ in range(strand.first, strand.last):", "index-discipline"))
A(M("c07-unpaired-test-silent", "C07", C, "if all([entry.pair == 0 for entry in candidate[1:-1]]):", "if all(entry.pair == 0 for entry in candidate[1:-1]):", kind="silent"))

# ---------------------------------------------------------------- C08
PA = "parser.py"
A(M("c08-key-no-model", "C08", PA, "key = (atom.model, atom.label, atom.auth, atom.name)", "key = (atom.label, atom.auth, atom.name)", "identity-key-model"))
A(M("c08-occupancy-dir", "C08", PA, "                or atom.occupancy > unique_atoms[key].occupancy", "                or atom.occupancy < unique_atoms[key].occupancy", "occupancy-wins"))
A(M("c08-column", "C08", PA, "residue_number = int(line[22:26].strip())", "residue_number = int(line[23:27].strip())", "pdb-columns"))
A(M("c08-one-marker", "C08", PA, 'if insertion_code in ("?", "."):', 'if insertion_code == "?":', "null-markers"))
A(M("c08-clash-distance", "C08", PA, "clash_distance: float = 0.5", "clash_distance: float = 0.05", "clash-distance"))
A(M("c08-clash-loser", "C08", PA, "            atoms_to_keep.discard(j)\n        else:\n            atoms_to_keep.discard(i)", "            atoms_to_keep.discard(i)\n        else:\n            atoms_to_keep.discard(j)", "clash-loser"))
A(M("c08-clash-cross-model", "C08", PA, "        if unique_atoms_list[i].model != unique_atoms_list[j].model:\n            continue\n", "", "clash-same-model"))
A(M("c08-model-default", "C08", PA, "atoms = atoms_by_model[list(available_models.keys())[0]]", "atoms = atoms_by_model[list(available_models.keys())[-1]]", "model-selection"))
A(M("c08-group-key", "C08", PA, "        key = (atom.label, atom.auth, atom.model)", "        key = (atom.label, atom.auth)", "identity-key-model"))
A(M("c08-none-guard", "C08", PA, "            atom.occupancy is not None\n            and (\n                unique_atoms[key].occupancy is None\n                or atom.occupancy > unique_atoms[key].occupancy\n            )", "            atom.occupancy > unique_atoms[key].occupancy", "optional-occupancy"))
A(M("c08-isdigit", "C08", PA, "    try:\n        return int(s)\n    except ValueError:\n        return None", "    if s is None or not s.isdigit():\n        return None\n    return int(s)", "int-parsing"))
A(M("c08-flush", "C08", PA, "    residues.append(\n        Residue3D(label, auth, model, one_letter_name, tuple(residue_atoms))\n    )\n\n    if nucleic_acid_only:", "    if nucleic_acid_only:", "group-runs"))
A(M("c08-model-col", "C08", PA, "model = int(line[10:14].strip())", "model = int(line[6:10].strip())", "pdb-columns"))

# ---------------------------------------------------------------- C15
P2 = "parser_v2.py"
T2 = "tertiary_v2.py"
A(M("c15-threshold-one-side", "C15", T2, "return distance < 1.5 * AVERAGE_OXYGEN_PHOSPHORUS_DISTANCE_COVALENT", "return distance < 1.4 * AVERAGE_OXYGEN_PHOSPHORUS_DISTANCE_COVALENT", "connect-threshold"))
A(M("c15-label-chain", "C15", T2, '            if "auth_asym_id" in self.atoms.columns:\n                return self.atoms["auth_asym_id"].iloc[0]\n            else:\n                return self.atoms["label_asym_id"].iloc[0]', '            if "label_asym_id" in self.atoms.columns:\n                return self.atoms["label_asym_id"].iloc[0]\n            else:\n                return self.atoms["auth_asym_id"].iloc[0]', "prefer-auth"))
A(M("c15-chi-n7", "C15", TT, '            self.find_atom("N9"),\n            self.find_atom("C4"),', '            self.find_atom("N7"),\n            self.find_atom("C4"),', "chi-atoms"))
A(M("c15-v2-column", "C15", P2, '"resSeq": line[22:26].strip(),', '"resSeq": line[23:27].strip(),', ["pdb-slices-agree", "pdb-slices-v2"]))
A(M("c15-v2-x", ["C15", "C09"], P2, '"x": line[30:38].strip(),', '"x": line[31:39].strip(),', ["pdb-slices-agree", "pdb-slices-v2"]))
A(M("c15-sort-key", "C15", T2, "key=lambda r: (r.residue_number, r.insertion_code or \"\")", "key=lambda r: r.residue_number", "connect-order"))
A(M("c15-dropna", "C15", T2, "grouped = self.atoms.groupby(groupby_cols, dropna=False, observed=False)\n\n        elif", "grouped = self.atoms.groupby(groupby_cols, observed=False)\n\n        elif", "group-columns"))
A(M("c15-p-atom", "C15", TT, '        p = next_residue_candidate.find_atom("P")\n\n        if o3p is not None and p is not None:\n            distance = numpy', '        p = next_residue_candidate.find_atom("O5\'")\n\n        if o3p is not None and p is not None:\n            distance = numpy', "connect-atoms"))
A(M("c15-v2-hetatm-prefilter", ["C15", "C09"], P2, "    for line in lines:\n        record_type = line[:6].strip()\n", "    for line in lines:\n        if not line.startswith((\"ATOM \", \"HETATM \", \"MODEL \")):\n            continue\n        record_type = line[:6].strip()\n", "pdb-record-filter"))
A(M("c15-backbone", "C15", T2, '"beta": [("P", 0), ("O5\'", 0), ("C5\'", 0), ("C4\'", 0)],', '"beta": [("P", 0), ("O5\'", 0), ("C5\'", 0), ("C3\'", 0)],', "backbone-atoms"))
A(M("c15-chi-order", "C15", TT, "        torsion = self.__chi_purine()\n        if math.isnan(torsion):\n            return self.__chi_pyrimidine()\n        return torsion", "        torsion = self.__chi_pyrimidine()\n        if math.isnan(torsion):\n            return self.__chi_purine()\n        return torsion", "chi-dispatch"))

# ---------------------------------------------------------------- C09
A(M("c09-serial-width", "C09", P2, 'serial = str(atom_data.get("serial", 0)).rjust(5)', 'serial = str(atom_data.get("serial", 0)).rjust(6)', "writer-layout"))
A(M("c09-gap", "C09", P2, '{chain_id}{res_seq}{icode}   "', '{chain_id}{res_seq}{icode}  "', "writer-layout"))
A(M("c09-reader-x", "C09", P2, '"y": line[38:46].strip(),', '"y": line[39:47].strip(),', ["writer-reader-columns", "pdb-slices-v2", "pdb-slices-agree"]))
A(M("c09-swap-attrs", "C09", P2, '            "label_comp_id",  # resName\n            "label_asym_id",  # chainID', '            "label_asym_id",  # chainID\n            "label_comp_id",  # resName', "field-map-pdb-to-cif"))
A(M("c09-precision", "C09", P2, "x = f\"{atom_data.get('x', 0.0):8.3f}\"", "x = f\"{atom_data.get('x', 0.0):8.2f}\"", "numeric-format"))
A(M("c09-cif-precision", "C09", P2, "f\"{float(row['x']):.3f}\",  # Cartn_x", "f\"{float(row['x']):.2f}\",  # Cartn_x", "numeric-format"))
A(M("c09-drop-ter-before-endmdl", "C09", P2, "                if last_chain_id is not None:\n                    ter_serial = str(last_serial + 1).rjust(5)\n                    ter_res_name = last_res_info[2].strip().rjust(3)\n                    ter_chain_id = last_chain_id\n                    ter_res_seq = str(last_res_info[0]).rjust(4)\n                    ter_icode = last_res_info[1] if last_res_info[1] else \"\"\n\n                    ter_line = f\"TER   {ter_serial}      {ter_res_name} {ter_chain_id}{ter_res_seq}{ter_icode}\"\n                    buffer.write(ter_line.ljust(80) + \"\\n\")\n                buffer.write(\"ENDMDL\\n\")", "                buffer.write(\"ENDMDL\\n\")", ["record-order", "ter-line"]))
A(M("c09-charge-abs", "C09", P2, "charge_fmt = f\"{abs(charge_int)}{'+' if charge_int > 0 else '-'}\"", "charge_fmt = f\"{charge_int}{'+' if charge_int > 0 else '-'}\"", "charge-format"))
A(M("c09-cif-source-item", "C09", P2, '"element": pdb_element,\n                "charge": pdb_charge,\n                "model": int(row.get("pdbx_PDB_model_num", 1)),', '"element": pdb_element,\n                "charge": pdb_charge,\n                "model": int(row.get("pdbx_PDB_model_num", 1)),', kind="silent"))
A(M("c09-cif-label-first", "C09", P2, 'str(row.get("auth_asym_id", row.get("label_asym_id")))', 'str(row.get("label_asym_id", row.get("auth_asym_id")))', "field-map-cif-to-pdb"))
A(M("c09-bfactor-item", "C09", P2, 'float(row.get("B_iso_or_equiv", 0.0))', 'float(row.get("occupancy", 0.0))', "field-map-cif-to-pdb"))
A(M("c09-model-line", "C09", P2, 'buffer.write(f"MODEL     {current_model_num:>4}\\n")', 'buffer.write(f"MODEL    {current_model_num:>4}\\n")', "model-line"))
A(M("c09-ter-serial", "C09", P2, '        ter_serial = str(last_serial + 1).rjust(5)\n        ter_res_name = last_res_info[2].strip().rjust(3)\n        ter_chain_id = last_chain_id\n        ter_res_seq = str(last_res_info[0]).rjust(4)\n        ter_icode = last_res_info[1] if last_res_info[1] else ""\n\n        ter_line = f"TER   {ter_serial}      {ter_res_name}', '        ter_serial = str(last_serial + 1).rjust(5)\n        ter_res_name = last_res_info[2].strip().rjust(3)\n        ter_chain_id = last_chain_id\n        ter_res_seq = str(last_res_info[0]).rjust(4)\n        ter_icode = last_res_info[1] if last_res_info[1] else ""\n\n        ter_line = f"TER   {ter_serial}     {ter_res_name}', "ter-line"))
A(M("c09-no-ter-at-chain", "C09", P2, "if last_chain_id is not None and current_chain_id != last_chain_id:", "if last_chain_id is not None and current_chain_id != last_chain_id and False:", "record-order"))
A(M("c09-charge-verbatim", "C09", P2, "                if charge_val[1] == \"+\":\n                    charge_val = charge_val[0]", "                if charge_val[1] == \"+\":\n                    charge_val = charge_val", "value-domain"))
A(M("c09-icode-placeholder", "C09", P2, 'icode_val = "." if pd.isna(row.get("iCode")) else str(row["iCode"])', 'icode_val = "-" if pd.isna(row.get("iCode")) else str(row["iCode"])', "null-agreement"))

# ---------------------------------------------------------------- C10
A(M("c10-limit-one-place", "C10", P2, 'pd.to_numeric(df["id"], errors="coerce").max() > 99999', 'pd.to_numeric(df["id"], errors="coerce").max() > 999999', "fit-test"))
A(M("c10-len-df", "C10", P2, 'pd.to_numeric(df["id"], errors="coerce").max() > 99999', 'len(df) > 99999', "fit-test"))
A(M("c10-runtimeerror", "C10", P2, '        raise ValueError(\n            f"Cannot fit to PDB: Number of unique chains', '        raise RuntimeError(\n            f"Cannot fit to PDB: Number of unique chains', "only-valueerror"))
A(M("c10-return-copy", "C10", P2, "    if can_write_pdb(df):\n        return df\n", "    if can_write_pdb(df):\n        return df.copy()\n", "fits-returns-same"))
A(M("c10-store-x", "C10", P2, "    df_fitted[icode_col] = None  # Insertion codes are now redundant\n", "    df_fitted[icode_col] = None  # Insertion codes are now redundant\n    df_fitted[\"occupancy\"] = 1.0\n", "frame-condition"))
A(M("c10-alphabet-short", "C10", P2, "string.ascii_uppercase + string.ascii_lowercase + string.digits", "string.ascii_uppercase + string.ascii_lowercase", "chain-alphabet"))
A(M("c10-drop-feasibility", "C10", P2, "    if num_chains > max_pdb_chains:\n        raise ValueError(\n            f\"Cannot fit to PDB: Number of unique chains ({num_chains}) exceeds PDB limit ({max_pdb_chains}).\"\n        )\n", "", ["feasibility", "chain-map"]))
A(M("c10-residue-skip", "C10", P2, "        all_new_res_maps[new_chain_id] = residue_mapping\n", "        all_new_res_maps[new_chain_id] = residue_mapping\n        if len(residue_mapping) < 2:\n            continue\n", "residue-map"))
A(M("c10-fillna-category", "C10", P2, '"iCode": df[icode_col].astype(object).fillna("")', '"iCode": df[icode_col].fillna("")', "dtype-typestate"))
A(M("c10-rename-dup", "C10", P2, '        "auth_comp_id": "resName",\n    }', '        "auth_comp_id": "resName",\n        "label_comp_id": "resName",\n    }', "rename-injective"))
A(M("c10-rename-missing", "C10", P2, '        "label_alt_id": "altLoc",\n', "", "rename-coverage"))
A(M("c10-serial-ter", "C10", P2, "            current_serial += 1  # Increment for TER line\n", "            pass\n", "serial-renumber"))
A(M("c10-resseq-limit", "C10", P2, "max_pdb_residue = 9999", "max_pdb_residue = 99999", "limits"))
A(M("c10-write-input", "C10", P2, "    df_fitted = df.copy()\n", "    df[chain_col] = df[chain_col].astype(object)\n    df_fitted = df.copy()\n", "input-untouched"))
